"""Shared machinery of the checks: build + audit of the Lean side, sessions that
drive the real `dd` and the Lean model with the same lines, oracles, verdicts,
evidence files.
"""
import fcntl
import hashlib
import json
import os
import random
import re
import shutil
import subprocess
import sys
import time

HERE = os.path.dirname(os.path.abspath(__file__))
VERIF = os.path.dirname(HERE)
LEAN = os.path.join(VERIF, 'lean')
DRIVER = os.path.join(LEAN, '.lake', 'build', 'bin', 'ddvdrv')
REPO = os.environ.get('DD_REPO', '/repo')
WORK = os.path.join(VERIF, '.work')
ALLOWED_AXIOMS = {'propext', 'Classical.choice', 'Quot.sound'}

sys.path.insert(0, HERE)
import extract  # noqa: E402
import impl as implmod  # noqa: E402
from impl import Impl  # noqa: E402

_bdd = implmod._bdd


class Timeout(Exception):
    pass


# ---------------------------------------------------------------------------
# Lean side: regenerate, build, audit
# ---------------------------------------------------------------------------

def _lake(args, timeout=3000):
    env = dict(os.environ)
    p = subprocess.run(
        ['lake'] + args, cwd=LEAN, env=env, text=True,
        stdout=subprocess.PIPE, stderr=subprocess.STDOUT, timeout=timeout)
    return p.returncode, p.stdout


def load_props():
    """props.json plus any props/<id>.json (one file per vertical slice)."""
    with open(os.path.join(VERIF, 'props.json')) as f:
        props = json.load(f)
    import glob
    for p in sorted(glob.glob(os.path.join(VERIF, 'props', '*.json'))):
        with open(p) as f:
            for k, v in json.load(f).items():
                e = props.setdefault(k, dict(theorems=[], modules=[]))
                e['theorems'] = e.get('theorems', []) + [t for t in v.get('theorems', []) if t not in e.get('theorems', [])]
                e['modules'] = e.get('modules', []) + [t for t in v.get('modules', []) if t not in e.get('modules', [])]
    return props


def strip_comments(src):
    """Remove Lean comments (nested block comments and line comments)."""
    out = []
    i = 0
    depth = 0
    n = len(src)
    while i < n:
        if src.startswith('/-', i):
            depth += 1
            i += 2
            continue
        if depth and src.startswith('-/', i):
            depth -= 1
            i += 2
            continue
        if depth:
            i += 1
            continue
        if src.startswith('--', i):
            j = src.find('\n', i)
            i = n if j < 0 else j
            continue
        out.append(src[i])
        i += 1
    return ''.join(out)


FORBIDDEN = re.compile(
    r'\bsorry\b|\badmit\b|^\s*axiom\s|\bnative_decide\b|\bbv_decide\b|'
    r'\bimplemented_by\b|\bunsafe\s|maxHeartbeats\s+0', re.M)


def grep_forbidden():
    hits = []
    for root, _dirs, files in os.walk(LEAN):
        if '.lake' in root:
            continue
        for fn in files:
            if not fn.endswith('.lean'):
                continue
            p = os.path.join(root, fn)
            raw = open(p).read()
            if not FORBIDDEN.search(raw):
                continue        # nothing to find even with the comments in
            src = strip_comments(raw)
            for m in FORBIDDEN.finditer(src):
                hits.append(f'{os.path.relpath(p, LEAN)}: {m.group(0).strip()}')
    return hits


def lean_side(prop, thorough=False, driver=None, extra_targets=()):
    """Regenerate tables, build, audit the theorems of `prop`.

    Returns a dict with `obligations` (names), `discharged` (names), `failures`
    (text) and `ok`.
    """
    os.makedirs(WORK, exist_ok=True)
    res = dict(obligations=[], discharged=[], failures=[], ok=True,
               tables_hash=None, tables_changed=False)
    lockf = open(os.path.join(WORK, 'lake.lock'), 'w')
    fcntl.flock(lockf, fcntl.LOCK_EX)
    try:
        try:
            h, changed = extract.generate()
            res['tables_hash'] = h
            res['tables_changed'] = changed
        except Exception as e:  # noqa: BLE001
            res['failures'].append(f'translator failed: {e!r}')
            res['ok'] = False
            return res
        props = load_props()
        entry = props.get(prop, {})
        thms = entry.get('theorems', [])
        mods = entry.get('modules', [])
        res['obligations'] = list(thms)
        rc, out = _lake(['build', 'DD', 'ddvdrv'] + ([driver] if driver else [])
                        + [t for t in extra_targets if t != driver] + mods)
        if rc != 0:
            res['ok'] = False
            res['failures'].append('lake build failed:\n' + out[-4000:])
            # which theorems still check?  try the audit anyway if the modules built
        hits = grep_forbidden()
        if hits:
            res['ok'] = False
            res['failures'].append('forbidden constructs: ' + '; '.join(hits))
        if thms and rc == 0:
            audit = os.path.join(WORK, f'Audit_{prop}.lean')
            with open(audit, 'w') as f:
                for m in mods:
                    f.write(f'import {m}\n')
                for t in thms:
                    f.write(f'#print axioms {t}\n')
            p = subprocess.run(
                ['lake', 'env', 'lean', audit], cwd=LEAN, text=True,
                stdout=subprocess.PIPE, stderr=subprocess.STDOUT, timeout=1200)
            ax = parse_axioms(p.stdout)
            for t in thms:
                a = ax.get(t)
                if a is None:
                    res['ok'] = False
                    res['failures'].append(f'{t}: not found / audit failed')
                elif not set(a) <= ALLOWED_AXIOMS:
                    res['ok'] = False
                    res['failures'].append(f'{t}: axioms {sorted(a)}')
                else:
                    res['discharged'].append(t)
            if p.returncode != 0 and not ax:
                res['failures'].append('audit output: ' + p.stdout[-2000:])
        if thorough and rc == 0 and mods:
            p = subprocess.run(
                ['lake', 'env', 'leanchecker'] + mods, cwd=LEAN, text=True,
                stdout=subprocess.PIPE, stderr=subprocess.STDOUT, timeout=3000)
            res['leanchecker_rc'] = p.returncode
            if p.returncode != 0:
                res['ok'] = False
                res['failures'].append('leanchecker: ' + p.stdout[-2000:])
    finally:
        fcntl.flock(lockf, fcntl.LOCK_UN)
        lockf.close()
    return res


def parse_axioms(text):
    """Parse `#print axioms` output into {theorem: [axioms]}."""
    res = {}
    # messages look like: "'DD.foo' depends on axioms: [propext, Quot.sound]"
    # or "'DD.foo' does not depend on any axioms"
    flat = re.sub(r'\s+', ' ', text)
    for m in re.finditer(r"'([^']+)' depends on axioms: \[([^\]]*)\]", flat):
        res[m.group(1)] = [a.strip() for a in m.group(2).split(',') if a.strip()]
    for m in re.finditer(r"'([^']+)' does not depend on any axioms", flat):
        res[m.group(1)] = []
    return res


def run_model(lines, timeout=600, driver=None):
    """Pipe protocol lines through a compiled Lean driver (default: ddvdrv)."""
    DRIVER = globals()['DRIVER'] if driver is None else os.path.join(LEAN, '.lake', 'build', 'bin', driver)
    if not os.path.exists(DRIVER):
        raise RuntimeError('driver not built: ' + DRIVER)
    data = '\n'.join(lines) + '\n'
    p = subprocess.run(
        [DRIVER], input=data, text=True, stdout=subprocess.PIPE,
        stderr=subprocess.PIPE, timeout=timeout)
    if p.returncode != 0:
        raise RuntimeError(f'driver exited {p.returncode}: {p.stderr[-500:]}')
    out = p.stdout.split('\n')
    if out and out[-1] == '':
        out.pop()
    return out


# ---------------------------------------------------------------------------
# independent oracles on the real manager (read `succ()` only)
# ---------------------------------------------------------------------------

def names_of(b):
    return sorted(b.vars)


def var_masks(names):
    """Truth-table bitmask of each variable over all assignments to `names`."""
    n = len(names)
    size = 1 << n
    masks = {}
    for k, name in enumerate(names):
        m = 0
        for a in range(size):
            if (a >> k) & 1:
                m |= 1 << a
        masks[name] = m
    return masks, (1 << size) - 1


class TT:
    """Truth tables of references of one manager, by variable *name*."""

    def __init__(self, b, names=None):
        self.b = b
        self.names = names_of(b) if names is None else list(names)
        self.masks, self.full = var_masks(self.names)
        self.memo = {}

    def of(self, u):
        # a reference that depends on a variable outside `names` has no table here: -1
        try:
            return self._of(u)
        except KeyError:
            return -1

    def _of(self, u):
        t = self._node(abs(u))
        return (self.full & ~t) if u < 0 else t

    def _node(self, u):
        if u == 1:
            return self.full
        r = self.memo.get(u)
        if r is not None:
            return r
        i, v, w = self.b._succ[u]
        name = self.b._level_to_var[i]
        mk = self.masks[name]
        lo = self._of(v)
        hi = self._of(w)
        r = (mk & hi) | (self.full & ~mk & lo)
        self.memo[u] = r
        return r


class SampledTT(TT):
    """Values of references on K random assignments (bit i of a table = value under the i-th
    assignment): the oracle for managers too wide for full truth tables."""

    def __init__(self, b, names, k, rng):
        self.b = b
        self.names = list(names)
        self.full = (1 << k) - 1
        self.masks = {n: rng.getrandbits(k) for n in self.names}
        self.memo = {}

    def neg(self, t):
        return self.full & ~t

    def fresh(self):
        """the same assignments, memo dropped (after the manager changed)"""
        self.memo = {}
        return self


def tt_of(b, u, names=None):
    return TT(b, names).of(u)


def check_invariants(b, ledger=None, probe=False):
    """Independent structural check; returns a list of problems (empty = ok)."""
    bad = []
    succ = b._succ
    n = len(b.vars)
    # variable order: bijection names <-> 0..n-1, four views agree
    levels = sorted(b.vars.values())
    if levels != list(range(n)):
        bad.append(f'levels not 0..n-1: {b.vars}')
    for v, l in b.vars.items():
        if b._level_to_var.get(l) != v:
            bad.append(f'level map disagrees at {v}:{l}')
    if len(b._level_to_var) != n:
        bad.append(f'_level_to_var size {len(b._level_to_var)} != {n}')
    try:
        if b.var_levels != b.vars:
            bad.append('var_levels != vars')
        for v, l in b.vars.items():
            if b.level_of_var(v) != l or b.var_at_level(l) != v:
                bad.append(f'level_of_var/var_at_level disagree at {v}')
    except Exception as e:  # noqa: BLE001
        bad.append(f'order views raise {e!r}')
    if succ.get(1) != (n, None, None):
        bad.append(f'terminal is {succ.get(1)}')
    seen = {}
    indeg = {u: 0 for u in succ}
    for u, (i, v, w) in succ.items():
        if u == 1:
            continue
        if u < 2:
            bad.append(f'node number {u}')
        if not (0 <= i < n):
            bad.append(f'node {u} level {i}')
        if w is None or v is None or w <= 0:
            bad.append(f'node {u} high edge {w}')
            continue
        if v == w:
            bad.append(f'node {u} redundant')
        for x in (v, w):
            if abs(x) not in succ:
                bad.append(f'node {u} child {x} missing')
            else:
                if not (i < succ[abs(x)][0]):
                    bad.append(f'node {u} not ordered wrt {x}')
                indeg[abs(x)] += 1
        if (i, v, w) in seen:
            bad.append(f'duplicate triple {(i, v, w)}: {seen[(i, v, w)]}, {u}')
        seen[(i, v, w)] = u
    # reference counts
    for u in succ:
        ext = 0 if ledger is None else ledger.get(u, 0)
        want = indeg.get(u, 0) + ext + (1 if u == 1 else 0)
        if u not in b._ref:
            bad.append(f'no count for {u}')
        elif ledger is not None and b._ref[u] != want:
            bad.append(f'ref[{u}]={b._ref[u]} expected {want} (indeg {indeg.get(u, 0)}, ext {ext})')
        elif ledger is None and b._ref[u] < indeg.get(u, 0):
            bad.append(f'ref[{u}]={b._ref[u]} < indeg {indeg.get(u, 0)}')
    for u in b._ref:
        if u not in succ:
            bad.append(f'count for missing node {u}')
    # unique table through the API: asking for an existing triple returns that node
    if probe and not bad and b._last_len is None:
        before = len(succ)
        for u, (i, v, w) in list(succ.items()):
            if u == 1:
                continue
            try:
                r = b.find_or_add(i, v, w)
            except Exception as e:  # noqa: BLE001
                bad.append(f'find_or_add{(i, v, w)} raises {e!r}')
                break
            if r != u:
                bad.append(f'find_or_add{(i, v, w)} = {r}, stored node {u}')
                break
        if len(succ) != before:
            bad.append('probing created nodes (unique table out of sync)')
    return bad


def reachable(b, roots):
    seen = set()
    stack = [abs(r) for r in roots]
    while stack:
        u = stack.pop()
        if u in seen:
            continue
        seen.add(u)
        i, v, w = b._succ[u]
        if v is not None:
            stack.append(abs(v))
            stack.append(abs(w))
    return seen


# ---------------------------------------------------------------------------
# a session: lines executed on the implementation, later replayed on the model
# ---------------------------------------------------------------------------

class Session:
    """Runs lines on the real code, remembers `(line+schedule, answer)`."""

    def __init__(self, ctx, mgr_ids=(0,)):
        self.ctx = ctx
        self.impl = Impl()
        self.lines = []      # lines as given to the model
        self.answers = []    # implementation answers
        self.ledger = {}     # mgr id -> {node: external refs held by the harness}
        self.impl.reset()
        self._do('reset')

    def mgr(self, mid=0):
        return self.impl.mgrs[mid]

    def _do(self, line):
        ans, sched = self.impl.run(line)
        full = line + ('\tS:' + sched if sched else '')
        self.lines.append(full)
        self.answers.append(ans)
        return ans

    def op(self, mid, op, *args):
        line = '\t'.join([str(mid), op] + [str(a) for a in args])
        return self._do(line)

    def val(self, ans):
        """Integer result of an `ok <int>` answer, else None."""
        if ans.startswith('ok '):
            try:
                return int(ans[3:])
            except ValueError:
                return None
        return None

    def new(self, mid=0, names=()):
        levels = ','.join(f'{v}={i}' for i, v in enumerate(names))
        r = self.op(mid, 'new', *([levels] if names else []))
        self.ledger[mid] = {}
        return r

    def incref(self, mid, u):
        r = self.op(mid, 'incref', u)
        if r.startswith('ok'):
            d = self.ledger.setdefault(mid, {})
            d[abs(u)] = d.get(abs(u), 0) + 1
        return r

    def decref(self, mid, u):
        d = self.ledger.setdefault(mid, {})
        held = d.get(abs(u), 0)
        r = self.op(mid, 'decref', u)
        if r.startswith('ok') and held > 0:
            d[abs(u)] = held - 1
        return r

    def state(self, mid=0):
        return self.op(mid, 'state')

    def close(self):
        self.impl.reset()


SECTIONS_L2 = ('vars', 'l2v', 'succ', 'ref', 'roots')
SECTIONS_L3 = SECTIONS_L2 + ('min_free', 'pred', 'cache', 'last_len', 'ctx')


def filter_state(ans, sections):
    if not ans.startswith('ok vars='):
        return ans
    parts = ans[3:].split('|')
    keep = []
    for p in parts:
        k = p.split('=', 1)[0]
        if k in sections or '=' not in p:
            keep.append(p)
    return 'ok ' + '|'.join(keep)


def compare(lines, impl_answers, model_answers, sections):
    """Return the list of disagreements `(index, line, impl, model)`."""
    dis = []
    if len(model_answers) != len(impl_answers):
        dis.append((-1, 'LENGTH', str(len(impl_answers)), str(len(model_answers))))
    for k, (ln, a, m) in enumerate(zip(lines, impl_answers, model_answers)):
        a2 = filter_state(a, sections)
        m2 = filter_state(m, sections)
        if a2 != m2:
            dis.append((k, ln, a2, m2))
    return dis


# ---------------------------------------------------------------------------
# check context: counters, verdict, evidence
# ---------------------------------------------------------------------------

class Ctx:
    def __init__(self, prop, tier, seed):
        self.prop = prop
        self.tier = tier
        self.seed = seed
        self.rng = random.Random(seed * 1000003 + sum(map(ord, prop)))
        self.t0 = time.time()
        self.evaluations = 0
        self.case_hashes = set()
        self.samples = []
        self.dist = {}
        self.violations = []      # dicts with what/replay data (oracle on the real code)
        self.disagreements = []   # correspondence mismatches
        self.sessions_lines = 0
        self.traces = 0
        self.exhaustive = False
        self.notes = []
        self.pending = []         # (lines, answers, sections, label)
        self.budget_s = 60 if tier == 'quick' else 600
        self.driver = None        # name of the lean_exe that replays this check's sessions
        self.shard, self.nshards = 0, 1   # thorough tier: this process's part of the work

    def time_left(self):
        # the generators' budget starts when they start (not when the Lean build started)
        return self.budget_s - (time.time() - getattr(self, 't_gen', self.t0))

    def count(self, key, n=1):
        self.dist[key] = self.dist.get(key, 0) + n

    def case(self, desc, nontrivial=True):
        """Register one evaluated case; `desc` is hashed for distinctness."""
        self.evaluations += 1
        if nontrivial:
            h = hashlib.sha1(repr(desc).encode()).hexdigest()[:16]
            self.case_hashes.add(h)
        if len(self.samples) < 5:
            self.samples.append(desc if isinstance(desc, (str, list, dict)) else repr(desc))

    def violation(self, what, replay):
        self.violations.append(dict(what=what, replay=replay))

    def add_session(self, sess, sections=SECTIONS_L2, label=''):
        self.pending.append((list(sess.lines), list(sess.answers), sections, label))
        self.sessions_lines += len(sess.lines)
        self.traces += 1

    def flush_model(self):
        """Run all pending sessions through the Lean model and diff."""
        if not self.pending:
            return
        all_lines = []
        for lines, _a, _s, _l in self.pending:
            all_lines.extend(lines)
        try:
            out = run_model(all_lines, driver=self.driver)
        except Exception as e:  # noqa: BLE001
            self.disagreements.append(dict(kind='driver', error=repr(e)))
            self.pending = []
            return
        pos = 0
        for lines, answers, sections, label in self.pending:
            mo = out[pos:pos + len(lines)]
            pos += len(lines)
            dis = compare(lines, answers, mo, sections)
            if dis:
                k = dis[0][0]
                self.disagreements.append(dict(
                    kind='correspondence', label=label, first=dis[0][1:],
                    index=k, lines=lines[:k + 1] if k >= 0 else lines,
                    n=len(dis)))
        self.pending = []


def load_known():
    p = os.path.join(VERIF, 'known_findings.json')
    if not os.path.exists(p):
        return []
    with open(p) as f:
        return json.load(f)


def match_known(prop, v, known):
    """A finding matches a known entry when the entry's `match` keys are all
    present with equal values in the violation's replay `tags`."""
    tags = v['replay'].get('tags', {})
    for k in known:
        if k.get('status') != 'known' or k.get('property') != prop:
            continue
        m = k.get('match', {})
        if m and all(tags.get(a) == b for a, b in m.items()):
            return k
    return None


def write_replay(prop, kind, data):
    os.makedirs(os.path.join(VERIF, 'replays'), exist_ok=True)
    data = dict(data)
    data.setdefault('hashseed', int(os.environ.get('PYTHONHASHSEED', '0') or 0))
    h = hashlib.sha1(json.dumps(data, sort_keys=True, default=str).encode()).hexdigest()[:10]
    p = os.path.join(VERIF, 'replays', f'{prop}-{kind}-{h}.json')
    with open(p, 'w') as f:
        json.dump(data, f, indent=1, sort_keys=True, default=str)
    return p


def finish(ctx, lean, level_text, trusted, rule, extra_cov=None):
    """Print verdict lines, write evidence, return the exit code."""
    ctx.flush_model()
    known = load_known()
    code = 0
    n_viol = 0
    seen_known = set()
    for v in ctx.violations:
        k = match_known(ctx.prop, v, known)
        if k is not None:
            if k['id'] not in seen_known:
                seen_known.add(k['id'])
                print(f"KNOWN-FINDING: property={ctx.prop} {k['id']} {k['what']}")
            continue
        n_viol += 1
        if n_viol <= 3:
            p = write_replay(ctx.prop, 'fail', dict(
                property=ctx.prop, kind='failing-input', seed=ctx.seed, **v))
            print(f'VIOLATION property={ctx.prop} replay={p}')
        code = 1
    broken = []
    if not lean['ok']:
        broken.append(dict(kind='lean', failures=lean['failures']))
    tool_timeouts = []
    for d in ctx.disagreements:
        if d.get('kind') == 'driver' and 'TimeoutExpired' in str(d.get('error', '')):
            # the Lean driver did not finish replaying within its time limit (machine load):
            # this says nothing about the code or the model — a tool error (exit 2), never a
            # violation; the lines of that batch were not compared
            tool_timeouts.append(d)
            continue
        broken.append(d)
    if tool_timeouts and code == 0 and not broken:
        print(f'TOOL-ERROR property={ctx.prop} the model driver timed out on '
              f'{len(tool_timeouts)} batch(es) of protocol lines; nothing is concluded from them')
        code = 2
    if broken and code == 0:
        # the proof or the tie no longer checks and no failing input was found
        p = write_replay(ctx.prop, 'unproved', dict(
            property=ctx.prop, kind='no-failing-input-found', seed=ctx.seed,
            broken=broken[:5],
            searched=dict(evaluations=ctx.evaluations, distinct=len(ctx.case_hashes))))
        print(f'VIOLATION property={ctx.prop} replay={p} no-failing-input-found')
        code = 1
    cov = dict(
        obligations=len(lean['obligations']),
        discharged=len(lean['discharged']),
        obligation_names=lean['obligations'],
        checker_cmd='cd lean && lake build && lake env lean <audit file with #print axioms>',
        trusted_base=trusted,
        evaluations=ctx.evaluations,
        distinct_nontrivial=len(ctx.case_hashes),
        rule=rule,
        samples=ctx.samples[:5],
        exhaustive=ctx.exhaustive,
        traces_validated_against_impl=ctx.traces,
        protocol_lines_compared=ctx.sessions_lines,
        disagreements_checked=len(ctx.disagreements),
        input_distribution=ctx.dist,
        tables_hash=lean.get('tables_hash'),
        lean_failures=lean['failures'][:3],
        notes=ctx.notes,
    )
    if not lean['obligations']:
        # no theorem registered (yet) for this property: the schema's generic keys carry the evidence
        for k in ('obligations', 'discharged', 'checker_cmd'):
            cov.pop(k, None)
        cov['explanation'] = 'no Lean obligation registered for this property yet; correspondence and oracle coverage only'
    if extra_cov:
        cov.update(extra_cov)
    ev = dict(
        property_id=ctx.prop, tier=ctx.tier, seed=ctx.seed, level='proof',
        coverage=cov, assumptions=trusted, wall_s=round(time.time() - ctx.t0, 2),
        violations=n_viol + (1 if (broken and n_viol == 0) else 0))
    # (seedtest.py redirects the evidence of runs against a seeded change to a scratch directory)
    evdir = os.environ.get('VERIF_EVIDENCE_DIR') or os.path.join(VERIF, 'evidence')
    os.makedirs(evdir, exist_ok=True)
    with open(os.path.join(evdir, f'{ctx.prop}.json'), 'w') as f:
        json.dump(ev, f, indent=1, default=str)
    return code
