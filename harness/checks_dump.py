"""Check C12 — dump / load round trips (pickle, whole-manager pickle, JSON).

Item order (audit 2, gap 9).  The answer of a `*dump` op is compared with the model's content
(a) UNSORTED where Python's order is determined and the model predicts it — the JSON node lines —,
(b) as a PERMUTATION (both sides print the items sorted by key: equal multisets of items with
distinct keys) where it is not: the `vars` / `level_of_var` items (insertion order of `bdd.vars`,
not part of the model state) and the `succ` items of a pickle (iteration order of a `set`).  The
theorems are stated for every permutation (`C12_*_perm`); `permuted_files` loads re-written files
with permuted items.  The `*load` lines always carry the items in FILE order.

Real side: protocol ops registered in `impl.EXT_OPS` / `impl.EXT_LINE_OPS`.  Every
file the real code writes is RE-READ here (unpickled / JSON-parsed) and its content is
(a) printed canonically as the answer of the `*dump` op, so that it is compared with the
content computed by the Lean model, and (b) put, in file order, on the following
`*load` line, so that the model loads the very same content the real code loads.
Model side: `lean/DD/Dump.lean`, exe `ddvdump`.
"""
import contextlib
import itertools
import json
import os
import pickle
import shutil

from lib import (Session, TT, check_invariants, reachable, SECTIONS_L3, WORK)
from funcs import Space, Builder
from checks_core import canon_problems, order_views_ok
import impl as implmod

_bdd = implmod._bdd
import dd.autoref as _auto  # noqa: E402
import dd._copy as _copy  # noqa: E402

SCR = os.path.join(WORK, 'dump-scratch', str(os.getpid()))


def _scr():
    os.makedirs(SCR, exist_ok=True)
    return SCR


@contextlib.contextmanager
def _cwd(path):
    old = os.getcwd()
    os.chdir(path)
    try:
        yield
    finally:
        os.chdir(old)


def cleanup():
    # only this process's directory: removing the shared parent races with the other shards'
    # `makedirs`
    shutil.rmtree(SCR, ignore_errors=True)


# ---------------------------------------------------------------------------
# wire encodings (mirrored by lean/DD/DumpDriver.lean)
# ---------------------------------------------------------------------------

def ints(l):
    return ','.join(str(x) for x in l)


def roots_show(r):
    if r is None:
        return 'N'
    if isinstance(r, dict):
        return 'D:' + ','.join(f'{k}={v}' for k, v in r.items())
    return 'L:' + ints(r)


def roots_parse(s):
    if s == 'N':
        return None
    if s.startswith('L:'):
        return [int(x) for x in s[2:].split(',')] if s[2:] else []
    d = {}
    for item in (s[2:].split(',') if s[2:] else []):
        k, v = item.split('=')
        d[k] = int(v)
    return d


def opt(x):
    return 'N' if x is None else str(x)


def vars_show(d, sort):
    it = sorted(d.items()) if sort else list(d.items())
    return ','.join(f'{v}:{i}' for v, i in it)


def entries_show(items, sort):
    """items: iterable of (id, (level, low, high))"""
    it = sorted(items) if sort else list(items)
    return ','.join(f'{u}:{i}:{opt(v)}:{opt(w)}' for u, (i, v, w) in it)


def tf(x):
    return x if x in ('T', 'F') else str(x)


# ---------------------------------------------------------------------------
# re-reading the files
# ---------------------------------------------------------------------------

def read_pickle(path):
    with open(path, 'rb') as f:
        d = pickle.load(f)
    if set(d) != {'vars', 'succ', 'roots'}:
        raise RuntimeError(f'pickle keys {sorted(d)}')
    for v, i in d['vars'].items():
        if not isinstance(v, str) or not isinstance(i, int):
            raise RuntimeError('vars item types')
    return d


def pickle_fields(d, sort):
    return [vars_show(d['vars'], sort), entries_show(d['succ'].items(), sort),
            roots_show(d['roots'])]


def read_manager(path):
    with open(path, 'rb') as f:
        d = pickle.load(f)
    if set(d) != {'vars', 'max_nodes', 'roots', 'pred', 'succ', 'ref', 'min_free'}:
        raise RuntimeError(f'manager pickle keys {sorted(d)}')
    return d


def manager_fields(d, sort):
    pred = [(u, t) for t, u in d['pred'].items()]
    ref = sorted(d['ref'].items()) if sort else list(d['ref'].items())
    return [vars_show(d['vars'], sort), ints(sorted(d['roots'])),
            entries_show(pred, sort), entries_show(d['succ'].items(), sort),
            ','.join(f'{u}:{c}' for u, c in ref), str(d['min_free'])]


def read_json(path):
    """Parse the file independently of `dd._copy._parse_line`: it is one JSON object whose
    items are `level_of_var`, `roots`, then the node lines (order kept)."""
    with open(path) as f:
        text = f.read()
    items = json.loads(text, object_pairs_hook=list)
    if len(items) < 2 or items[0][0] != 'level_of_var' or items[1][0] != 'roots':
        raise RuntimeError('JSON header lines')
    lov = dict(items[0][1])
    roots = items[1][1]
    if isinstance(roots, list) and roots and isinstance(roots[0], tuple):
        roots = dict(roots)        # object_pairs_hook turned the dict into pairs
    elif isinstance(roots, list) and not all(isinstance(x, int) for x in roots):
        raise RuntimeError('roots')
    nodes = []
    seen = set()
    for k, val in items[2:]:
        lvl, lo, hi = val
        if k in seen:
            raise RuntimeError('duplicate node line')
        seen.add(k)
        for x in (lo, hi):
            if not (x in ('T', 'F') or (isinstance(x, int) and abs(x) > 1)):
                raise RuntimeError(f'edge {x!r}')
        nodes.append((int(k), lvl, lo, hi))
    # each line of the file is one item (the loader reads line by line)
    lines = [ln for ln in text.split('\n') if ln not in ('{', '}', '')]
    if len(lines) != len(items):
        raise RuntimeError('items are not one per line')
    return dict(level_of_var=lov, roots=roots, nodes=nodes)


def json_fields(d, sort):
    return [vars_show(d['level_of_var'], sort), roots_show(d['roots']),
            ','.join(f'{k}:{lvl}:{tf(lo)}:{tf(hi)}' for k, lvl, lo, hi in d['nodes'])]


# ---------------------------------------------------------------------------
# ops on the real code
# ---------------------------------------------------------------------------

def _objs(impl):
    o = impl.objs
    o.setdefault('files', {})
    o.setdefault('held', {})
    o.setdefault('nfile', 0)
    return o


def _new_file(impl, ext):
    o = _objs(impl)
    o['nfile'] += 1
    fh = f'f{o["nfile"]}'
    path = os.path.join(_scr(), fh + ext)
    o['files'][fh] = path
    return fh, path


def _wrapper(b):
    """A `dd.autoref.BDD` around an existing `dd.bdd.BDD`."""
    a = _auto.BDD.__new__(_auto.BDD)
    a._bdd = b
    a.vars = b.vars
    return a


def _nodes_of(r):
    if isinstance(r, dict):
        return {k: v.node for k, v in r.items()}
    return [v.node for v in r]


def op_pdump(impl, b, a):
    roots = roots_parse(a[0])
    fh, path = _new_file(impl, '.p')
    if roots is not None and sum(map(ord, a[0])) % 3 == 0:
        # the same dump through `dd.autoref.BDD.dump`, roots given as `Function`s (list or dict):
        # the wrapper maps them to node integers; the file must be what the core writes
        w = _wrapper(b)
        if isinstance(roots, dict):
            fr = {k: _auto.Function(u, w) for k, u in roots.items()}
        else:
            fr = [_auto.Function(u, w) for u in roots]
        try:
            w.dump(path, fr)
        finally:
            del fr
    else:
        b.dump(path, roots)
    d = read_pickle(path)
    _objs(impl)['last'] = (fh, d)
    return '|'.join(pickle_fields(d, True))


def _same_content(path, reader, fields_fn, given):
    d = reader(path)
    if fields_fn(d, False) != list(given):
        raise RuntimeError('HARNESS: content on the line differs from the file')


def op_pload(impl, b, a):
    path = _objs(impl)['files'][a[0]]
    _same_content(path, read_pickle, pickle_fields, a[2:5])
    r = b.load(path, levels=(a[1] == '1'))
    return roots_show(r)


def op_pload_auto(impl, b, a):
    path = _objs(impl)['files'][a[0]]
    _same_content(path, read_pickle, pickle_fields, a[3:6])
    r = _wrapper(b).load(path, levels=(a[2] == '1'))
    _objs(impl)['held'][a[1]] = r
    return roots_show(_nodes_of(r))


def op_drop(impl, b, a):
    r = _objs(impl)['held'].pop(a[0])
    if roots_show(_nodes_of(r)) != a[1]:
        raise RuntimeError('HARNESS: held roots differ')
    del r
    return '-'


def op_mdump(impl, b, a):
    fh, path = _new_file(impl, '.p')
    b._dump_manager(path)
    d = read_manager(path)
    _objs(impl)['last'] = (fh, d)
    return '|'.join(manager_fields(d, True))


def op_mload(impl, mid, a):
    path = _objs(impl)['files'][a[0]]
    _same_content(path, read_manager, manager_fields, a[1:7])
    impl.mgrs[mid] = _bdd.BDD._load_manager(path)
    return '-'


def op_jdump(impl, b, a):
    roots = roots_parse(a[0])
    w = _wrapper(b)
    fh, path = _new_file(impl, '.json')
    if roots is None:
        fr = None
    elif isinstance(roots, dict):
        fr = {k: _auto.Function(u, w) for k, u in roots.items()}
    else:
        fr = [_auto.Function(u, w) for u in roots]
    try:
        with _cwd(_scr()):
            w.dump(path, fr)
    finally:
        del fr
    d = read_json(path)
    _objs(impl)['last'] = (fh, d)
    return '|'.join(json_fields(d, True))


def op_jload(impl, b, a):
    path = _objs(impl)['files'][a[0]]
    _same_content(path, read_json, json_fields, a[3:6])
    w = _wrapper(b)
    lo = a[2] == '1'
    with _cwd(_scr()):
        if not lo and int(a[1][1:]) % 2 == 0:
            r = w.load(path)                    # `autoref.BDD.load` dispatch
        else:
            r = _copy.load_json(path, w, load_order=lo)
    _objs(impl)['held'][a[1]] = r
    return roots_show(_nodes_of(r))


def op_assert_consistent(impl, b, a):
    b.assert_consistent()
    return '-'


class _Probe(Exception):
    pass


def op_dump_kind(impl, mid, a):
    cls, filename, filetype, roots_none = a
    seen = []
    saved = (_bdd.BDD._dump_bdd, _bdd.BDD._dump_figure, _copy.dump_json)
    _bdd.BDD._dump_bdd = lambda self, roots, fn, **kw: seen.append('pickle')
    _bdd.BDD._dump_figure = lambda self, roots, fn, ft, **kw: seen.append('figure:' + ft)
    _copy.dump_json = lambda nodes, fn: seen.append('json')
    try:
        m = _bdd.BDD() if cls == 'bdd' else _auto.BDD()
        roots = None if roots_none == '1' else []
        m.dump(filename, roots, None if filetype == '-' else filetype)
    finally:
        _bdd.BDD._dump_bdd, _bdd.BDD._dump_figure, _copy.dump_json = saved
    return seen[0]


def op_load_kind(impl, mid, a):
    cls, filename = a
    seen = []
    saved = (_bdd.BDD._load_pickle, _copy.load_json)
    _bdd.BDD._load_pickle = lambda self, fn, levels=True: (seen.append('pickle'), ({}, []))[1]
    _copy.load_json = lambda fn, bdd, load_order=False: (seen.append('json'), [])[1]
    try:
        m = _bdd.BDD() if cls == 'bdd' else _auto.BDD()
        m.load(filename)
    finally:
        _bdd.BDD._load_pickle, _copy.load_json = saved
    return seen[0]


implmod.EXT_OPS.update(
    pdump=op_pdump, pload=op_pload, pload_auto=op_pload_auto, drop=op_drop,
    mdump=op_mdump, jdump=op_jdump, jload=op_jload, assert_consistent=op_assert_consistent)
implmod.EXT_LINE_OPS.update(mload=op_mload, dump_kind=op_dump_kind, load_kind=op_load_kind)


# ---------------------------------------------------------------------------
# the check
# ---------------------------------------------------------------------------

def lift(sp, t, univ):
    """Truth table `t` over `sp.names` as a table over the larger name list `univ`."""
    spu = Space(univ)
    r = 0
    for a in range(spu.size):
        a3 = sum((((a >> spu.idx(n)) & 1) << sp.idx(n)) for n in sp.names)
        if (t >> a3) & 1:
            r |= 1 << a
    return r


def monotone(level_map):
    items = sorted(level_map.items())
    return all(items[k][1] < items[k + 1][1] for k in range(len(items) - 1))


class Scenario:
    """One source manager with held functions, and the files dumped from it."""

    def __init__(self, ctx, names, src_levels, tts, as_dict, signs):
        self.ctx = ctx
        self.rng = ctx.rng
        self.names = names
        self.sp = Space(names)
        self.s = Session(ctx)
        s = self.s
        s.op(0, 'new', ','.join(f'{v}={l}' for v, l in src_levels))
        s.ledger[0] = {}
        self.src_levels = dict(src_levels)
        # half of the sources are USED managers: nodes were created, some kept for a while, the
        # rest collected, so that the dumped functions sit on re-used, non-contiguous node numbers
        junk_held = []
        if self.rng.random() < 0.5 and names:
            vs = [s.val(s.op(0, 'var', v)) for v in names]
            pool = [v for v in vs if v is not None]
            for _ in range(self.rng.randint(3, 10)):
                r = s.val(s.op(0, 'apply', self.rng.choice(['and', 'or', 'xor']),
                               self.rng.choice(pool), -self.rng.choice(pool)))
                if r is None:
                    continue
                pool.append(r)
                if abs(r) != 1 and self.rng.random() < 0.4:
                    s.incref(0, r)
                    junk_held.append(r)
            s.op(0, 'gc')
            ctx.count('source:used-manager')
        bld = Builder(s)
        self.refs = []
        self.want = []
        for t, sg in zip(tts, signs):
            r = bld.build(self.sp, t)
            self.refs.append(sg * r)
            self.want.append(self.sp.neg(t) if sg < 0 else t)
        for r in self.refs:
            if abs(r) != 1:
                s.incref(0, r)
        for r in junk_held:
            s.decref(0, r)
        if junk_held:
            s.op(0, 'gc')
        if as_dict:
            self.roots = {f'r{k}': r for k, r in enumerate(self.refs)}
        else:
            self.roots = list(self.refs)
        self.next_id = 1
        self.nhold = 0
        self.tag_base = dict(
            src=','.join(f'{v}={l}' for v, l in src_levels), tts=list(tts), signs=list(signs),
            as_dict=as_dict)

    def new_id(self):
        self.next_id += 1
        return self.next_id - 1

    def hold_handle(self):
        self.nhold += 1
        return f'h{self.nhold}'

    def last(self):
        return self.s.impl.objs['last']

    # -- targets --------------------------------------------------------------
    def target(self, kind):
        """Return `(mid, description)`; `kind` in fresh / same / declared-same /
        declared-other / declared-extra."""
        s = self.s
        rng = self.rng
        if kind == 'same':
            return 0, 'same'
        mid = self.new_id()
        if kind == 'fresh':
            s.new(mid, [])
            return mid, 'fresh'
        by_level = [v for v, _l in sorted(self.src_levels.items(), key=lambda x: x[1])]
        if kind == 'declared-same':
            order = by_level
        else:
            if len(by_level) <= 5:
                perms = [list(p) for p in itertools.permutations(by_level) if list(p) != by_level]
                order = rng.choice(perms)
            else:
                order = list(by_level)
                while order == by_level:
                    rng.shuffle(order)
        if kind == 'declared-extra':
            order = list(order)
            order.insert(rng.randrange(len(order) + 1), 'x')
        if kind == 'declared-below':
            order = by_level + ['x']
        s.new(mid, order)
        # pre-existing nodes, some of them held
        for _ in range(rng.randint(1, 6)):
            a = s.val(s.op(mid, 'var', rng.choice(order)))
            b_ = s.val(s.op(mid, 'var', rng.choice(order)))
            r = s.val(s.op(mid, 'apply', rng.choice(['and', 'xor', 'or']), a, -b_))
            if rng.random() < 0.5 and abs(r) != 1:
                s.incref(mid, r)
        return mid, f'{kind}:{"".join(order)}'

    # -- oracles --------------------------------------------------------------
    def judge(self, mid, ans, what, tags, held, expect_refusal=False):
        """`ans` is the answer of a load op; `held` = each returned root holds one reference."""
        ctx = self.ctx
        s = self.s
        b = s.mgr(mid)
        ctx.evaluations += 1
        problems = []
        got = None
        if ans.startswith('err'):
            if expect_refusal:
                ctx.count('refused')
                # a refused load: the order is still a bijection onto 0..n-1 and the counts
                # are exact for the ledger the caller had (nothing is held for a result)
                bad = order_views_ok(b) + check_invariants(b, dict(s.ledger.get(mid, {})))
                if bad:
                    ctx.violation(what + ' (refused)', dict(problems=bad[:4], got=ans,
                                  lines=list(s.lines[-3:]), **self.tag_base, tags=dict(tags)))
                return None
            problems.append(f'load raised: {ans}')
        else:
            got = roots_parse(ans[3:])
            # shape
            if isinstance(self.roots, dict):
                if not isinstance(got, dict) or list(got) != list(self.roots):
                    problems.append(f'container shape: {ans}')
                    got_list = None
                else:
                    got_list = list(got.values())
            else:
                if not isinstance(got, list) or len(got) != len(self.roots):
                    problems.append(f'container shape: {ans}')
                    got_list = None
                else:
                    got_list = got
            univ = sorted(set(b.vars) | set(self.names))
            if got_list is not None:
                if any(abs(u) not in b._succ for u in got_list):
                    problems.append('returned reference is not a node')
                else:
                    try:
                        tt = TT(b, univ)
                        for k, (u, w) in enumerate(zip(got_list, self.want)):
                            if tt.of(u) != lift(self.sp, w, univ):
                                problems.append(f'root {k} denotes another function')
                    except (KeyError, RecursionError) as e:
                        problems.append(f'cannot evaluate the result: {e!r}')
            ledger = dict(s.ledger.get(mid, {}))
            if held and got_list is not None:
                for u in got_list:
                    ledger[abs(u)] = ledger.get(abs(u), 0) + 1
            problems += check_invariants(b, ledger)
            if not problems:
                problems += canon_problems(b, univ)
        if problems:
            ctx.violation(what, dict(problems=problems[:4], got=ans, lines=list(s.lines[-3:]),
                                     **self.tag_base, tags=dict(tags)))
        return got

    def after_drop(self, mid, tags):
        """After the returned `Function`s were released: exact counts again, and a
        collection leaves exactly what is reachable from what is still held."""
        s = self.s
        b = s.mgr(mid)
        problems = check_invariants(b, s.ledger.get(mid, {}))
        s.op(mid, 'gc')
        keep = reachable(b, [u for u, c in s.ledger.get(mid, {}).items() if c > 0]) | {1}
        if set(b._succ) != keep:
            problems.append(f'after collection: nodes {sorted(b._succ)} expected {sorted(keep)}')
        problems += check_invariants(b, s.ledger.get(mid, {}))
        if problems:
            self.ctx.violation('counts after releasing the loaded roots', dict(
                problems=problems[:4], **self.tag_base, tags=dict(tags)))



TARGET_KINDS = ['fresh', 'same', 'declared-same', 'declared-other', 'declared-extra',
                'declared-below']


def run_scenario(ctx, names, src_levels, tts, as_dict, signs, kinds, with_none):
    rng = ctx.rng
    sc = Scenario(ctx, names, src_levels, tts, as_dict, signs)
    s = sc.s
    src_state = s.state(0)
    file_names = list(sc.src_levels)          # dict order of `bdd.vars`
    has_const = any(abs(r) == 1 for r in sc.refs)

    def level_map_for(b_vars_before, levels):
        """The `level_map` that `_load_pickle` builds, or None when `add_var` refuses."""
        cur = dict(b_vars_before)
        lm = {}
        for v in file_names:
            i = sc.src_levels[v]
            if levels:
                if v in cur:
                    if cur[v] != i:
                        return None
                elif i in cur.values():
                    return None
                cur[v] = i
            else:
                if v not in cur:
                    cur[v] = len(cur)
            lm[i] = cur[v]
        return lm

    # ---- pickle, dd.bdd ------------------------------------------------------
    ans = s.op(0, 'pdump', roots_show(sc.roots))
    if not ans.startswith('ok'):
        ctx.violation('pickle dump raised', dict(got=ans, **sc.tag_base, tags=dict(call='dump')))
    else:
        fh, d = sc.last()
        want_nodes = reachable(s.mgr(0), sc.refs) | ({1} if sc.refs else set())
        if set(d['succ']) != want_nodes or dict(d['vars']) != sc.src_levels or d['roots'] != sc.roots:
            ctx.violation('pickle content is not the reachable subgraph / variables / roots', dict(
                **sc.tag_base, tags=dict(call='dump')))
        fields = pickle_fields(d, False)
        for kind in kinds:
            for levels in (True, False):
                for auto in ((False, True) if kind in ('fresh', 'declared-same') else (rng.random() < 0.3,)):
                    mid, desc = sc.target(kind)
                    before = dict(s.mgr(mid).vars)
                    lm = level_map_for(before, levels)
                    # formerly failing configurations (repaired by 8564934 / 58a79f8); a
                    # regression is a plain violation
                    former = ('F11' if has_const else
                              'F3' if (not levels and lm is not None and not monotone(lm)) else None)
                    # reordering enabled in the receiving manager: `find_or_add` asks for
                    # reordering only inside a reordering context, `load` opens none
                    dyn = kind != 'same' and rng.random() < 0.15
                    if dyn:
                        s.op(mid, 'configure', 1)
                        s.op(mid, 'fire_in', 1)
                    tags = dict(call='load', fmt='pickle', target=kind, levels=levels, auto=auto, dyn=dyn,
                                former=former)
                    if auto:
                        hh = sc.hold_handle()
                        a2 = s.op(mid, 'pload_auto', fh, hh, int(levels), *fields)
                    else:
                        a2 = s.op(mid, 'pload', fh, int(levels), *fields)
                    if dyn:
                        s.op(mid, 'fire_off')
                    got = sc.judge(mid, a2, f'pickle load into {desc} levels={levels}', tags,
                                   held=auto, expect_refusal=(lm is None))
                    if kind == 'same' and got is not None:
                        if got != sc.roots:
                            ctx.violation('loading into the same manager returned other references',
                                          dict(got=a2, **sc.tag_base, tags=tags))
                    if auto and a2.startswith('ok'):
                        s.op(mid, 'drop', hh, a2[3:])
                        sc.after_drop(mid, tags)
                    s.state(mid)
                    ctx.count(f'pickle:{kind}:{"L" if levels else "l"}')
    # ---- the source is untouched by the pickle dumps (loads into `same` add nodes) -----
    if 'same' not in kinds and s.state(0) != src_state:
        ctx.violation('dumping changed the source manager', dict(tags=dict(call='dump')))
    # ---- pickle without roots (stores every node) ------------------------------
    if with_none:
        before_none = s.state(0)
        ans = s.op(0, 'pdump', 'N')
        if s.state(0) != before_none:
            ctx.violation('dumping changed the source manager', dict(tags=dict(call='dump')))
        if ans.startswith('ok'):
            fh, d = sc.last()
            if set(d['succ']) != set(s.mgr(0)._succ) or d['roots'] is not None:
                ctx.violation('pickle without roots does not store every node', dict(
                    **sc.tag_base, tags=dict(call='dump')))
            fields = pickle_fields(d, False)
            mid, desc = sc.target(rng.choice(['fresh', 'same', 'declared-same']))
            a2 = s.op(mid, 'pload', fh, 1, *fields)
            ctx.evaluations += 1
            if a2 != 'ok L:':
                ctx.violation('a pickle dumped without roots does not load back as an empty list', dict(
                    got=a2, target=desc, **sc.tag_base, tags=dict(call='load', fmt='pickle-none', former='F2')))
            bad = check_invariants(s.mgr(mid), s.ledger.get(mid, {}))
            if bad:
                ctx.violation('manager broken after loading a pickle without roots', dict(
                    problems=bad[:3], **sc.tag_base, tags=dict(call='load', fmt='pickle-none')))
            s.state(mid)
        else:
            ctx.violation('pickle dump without roots raised', dict(got=ans, tags=dict(call='dump')))
    # ---- whole manager ----------------------------------------------------------
    before_mdump = s.state(0)
    ans = s.op(0, 'mdump')
    if s.state(0) != before_mdump:
        ctx.violation('whole-manager dump changed the source manager', dict(tags=dict(call='dump-manager')))
    if ans.startswith('ok'):
        fh, d = sc.last()
        b0 = s.mgr(0)
        if d['max_nodes'] != b0.max_nodes:
            ctx.violation('manager pickle: max_nodes', dict(tags=dict(call='dump-manager')))
        mid = sc.new_id()
        a2 = s.op(mid, 'mload', fh, *manager_fields(d, False))
        ctx.evaluations += 1
        if not a2.startswith('ok'):
            ctx.violation('whole-manager pickle does not load', dict(got=a2, tags=dict(call='load-manager')))
        else:
            s.ledger[mid] = dict(s.ledger.get(0, {}))
            b1 = s.mgr(mid)
            st0 = implmod.dump_state(b0)
            st1 = implmod.dump_state(b1)
            keep = ('vars', 'l2v', 'succ', 'ref', 'min_free', 'pred', 'roots')
            f0 = '|'.join(p for p in st0.split('|') if p.split('=')[0] in keep or '=' not in p)
            f1 = '|'.join(p for p in st1.split('|') if p.split('=')[0] in keep or '=' not in p)
            problems = []
            if f0 != f1 or b1.max_nodes != b0.max_nodes:
                problems.append('loaded manager differs from the dumped one')
            tt0 = TT(b0, names)
            tt1 = TT(b1, names)
            for r in sc.refs:
                if tt0.of(r) != tt1.of(r):
                    problems.append(f'reference {r} denotes another function in the loaded manager')
            problems += check_invariants(b1, s.ledger[mid])
            if problems:
                ctx.violation('whole-manager round trip', dict(problems=problems[:4], **sc.tag_base,
                                                               tags=dict(call='load-manager')))
            s.state(mid)
            # the copy is usable: an operation gives the same answer in both
            if len(sc.refs) >= 1:
                x = s.op(0, 'apply', 'xor', sc.refs[0], sc.refs[-1])
                y = s.op(mid, 'apply', 'xor', sc.refs[0], sc.refs[-1])
                if x != y:
                    ctx.violation('loaded manager answers differently', dict(tags=dict(call='load-manager')))
        ctx.count('manager')
    else:
        ctx.violation('whole-manager dump raised', dict(got=ans, tags=dict(call='dump-manager')))
    # ---- JSON (dd.autoref) -------------------------------------------------------
    if sc.refs:
        src_before = s.state(0)
        ans = s.op(0, 'jdump', roots_show(sc.roots))
        if s.state(0) != src_before:
            ctx.violation('JSON dump changed the source manager', dict(tags=dict(call='dump-json')))
        if not ans.startswith('ok'):
            ctx.violation('JSON dump raised', dict(got=ans, **sc.tag_base, tags=dict(call='dump-json')))
        else:
            fh, d = sc.last()
            want_nodes = reachable(s.mgr(0), sc.refs) - {1}
            if ({k for k, *_ in d['nodes']} != want_nodes or d['level_of_var'] != sc.src_levels
                    or d['roots'] != sc.roots):
                ctx.violation('JSON content is not the reachable subgraph / variables / roots', dict(
                    **sc.tag_base, tags=dict(call='dump-json')))
            fields = json_fields(d, False)
            for kind in kinds:
                for lo in (False, True):
                    mid, desc = sc.target(kind)
                    dyn = rng.random() < 0.25      # also with load_order=True: the loader switches it off first
                    if dyn:
                        s.op(mid, 'configure', 1)
                        s.op(mid, 'fire_in', rng.randint(1, 6))
                    nv = len(set(s.mgr(mid).vars) | set(file_names))
                    refusal = lo and nv != len(file_names)
                    hh = sc.hold_handle()
                    tags = dict(call='load', fmt='json', target=kind, load_order=lo, dyn=dyn)
                    a2 = s.op(mid, 'jload', fh, hh, int(lo), *fields)
                    if dyn:
                        s.op(mid, 'fire_off')
                    got = sc.judge(mid, a2, f'JSON load into {desc} load_order={lo}', tags,
                                   held=True, expect_refusal=refusal)
                    if got is not None and lo:
                        b = s.mgr(mid)
                        if dict(b.vars) != sc.src_levels:
                            ctx.violation('load_order=True did not restore the order of the file', dict(
                                **sc.tag_base, tags=tags))
                    if a2.startswith('ok'):
                        s.op(mid, 'drop', hh, a2[3:])
                        sc.after_drop(mid, tags)
                    s.state(mid)
                    ctx.count(f'json:{kind}:{"O" if lo else "o"}{"+dyn" if dyn else ""}')
    ctx.case(('scenario', tuple(src_levels), tuple(tts), as_dict, tuple(signs), tuple(kinds)))
    ctx.add_session(s, SECTIONS_L3, f'C12 {sc.tag_base}')
    s.close()


def refused_files(ctx):
    """Unreadable / wrong-extension files raise and leave the manager intact."""
    s = Session(ctx)
    s.new(0, ['a', 'b'])
    u = s.val(s.op(0, 'apply', 'xor', s.val(s.op(0, 'var', 'a')), s.val(s.op(0, 'var', 'b'))))
    s.incref(0, u)
    b = s.mgr(0)
    w = _wrapper(b)
    st = s.state(0)
    scr = _scr()
    bad_p = os.path.join(scr, 'bad.p')
    with open(bad_p, 'wb') as f:
        f.write(b'this is not a pickle')
    bad_json = os.path.join(scr, 'bad.json')
    with open(bad_json, 'w') as f:
        f.write('{\nthis is not json\n}\n')
    missing = os.path.join(scr, 'missing.p')
    cases = [
        ('bdd load .txt', lambda: b.load(os.path.join(scr, 'x.txt'))),
        ('bdd load .json', lambda: b.load(bad_json)),
        ('bdd load garbage', lambda: b.load(bad_p)),
        ('bdd load missing', lambda: b.load(missing)),
        ('bdd dump .txt', lambda: b.dump(os.path.join(scr, 'x.txt'), [u])),
        ('bdd dump unknown type', lambda: b.dump(os.path.join(scr, 'x.p'), [u], filetype='json')),
        ('autoref load .txt', lambda: w.load(os.path.join(scr, 'x.txt'))),
        ('autoref load garbage pickle', lambda: w.load(bad_p)),
        ('autoref load garbage json', lambda: w.load(bad_json)),
        ('autoref dump .txt', lambda: w.dump(os.path.join(scr, 'x.txt'), [w.true])),
        ('autoref dump json without roots', lambda: w.dump(os.path.join(scr, 'n.json'))),
    ]
    with _cwd(scr):
        for label, fn in cases:
            ctx.evaluations += 1
            try:
                fn()
                raised = False
            except Exception:  # noqa: BLE001
                raised = True
            if not raised:
                ctx.violation(f'{label}: accepted', dict(tags=dict(call='refuse', what=label)))
            if os.path.exists(os.path.join(scr, _copy.SHELVE_DIR)):
                ctx.violation(f'{label}: shelf directory left behind', dict(tags=dict(call='refuse', what=label)))
            if s.state(0) != st:
                ctx.violation(f'{label}: the manager was modified', dict(tags=dict(call='refuse', what=label)))
            ctx.case(('refuse', label))
    del w
    # the dispatch tables of `dump` / `load`, compared with the model
    for cls in ('bdd', 'autoref'):
        for fn in ('f.p', 'f.P', 'f.json', 'f.JSON', 'f.pdf', 'f.PNG', 'f.svg', 'f.dot', 'f.txt', 'f', 'p', '.p'):
            for ft in ('-', 'pickle', 'json', 'pdf', 'dot', 'zip'):
                for rn in ('0', '1'):
                    s.op(0, 'dump_kind', cls, fn, ft, rn)
            s.op(0, 'load_kind', cls, fn)
    ctx.add_session(s, SECTIONS_L3, 'C12 refused files / dispatch')
    s.close()


def witness_failed_loads(ctx):
    """The inputs of findings F16 / F17 / F18 / F19 / F20 (fixed), on every run:
    F16  `declare('q'); load(pickle{vars: x:2, y:0, w:1}, levels=True)` raised `ValueError` half-way
         and left `vars={'q':0,'x':2}` — a gap, the next `var('x')` raised;
    F17  `autoref.BDD().load(json with a dangling child)` raised `KeyError` and left the `incref`
         of `_make_node` behind (`_ref={1:3, 2:1}` with no live `Function`)."""
    s = Session(ctx)
    # F16
    s.new(0, ['q'])
    before = s.state(0)
    d = dict(vars={'x': 2, 'y': 0, 'w': 1}, succ={1: (3, None, None), 2: (2, -1, 1)}, roots=[2])
    fh, path = _new_file(s.impl, '.p')
    with open(path, 'wb') as f:
        pickle.dump(d, f, protocol=2)
    fields = pickle_fields(read_pickle(path), False)
    ans = s.op(0, 'pload', fh, 1, *fields)
    ctx.evaluations += 1
    b = s.mgr(0)
    bad = order_views_ok(b) + check_invariants(b, {})
    if not ans.startswith('err'):
        bad.append(f'accepted: {ans}')
    if dict(b.vars) != {'q': 0}:
        bad.append(f'variables declared by a refused load: {dict(b.vars)}')
    if s.state(0) != before:
        bad.append('the refused load changed the manager')
    a2 = s.op(0, 'add_var', 'x')
    if not a2.startswith('ok'):
        bad.append(f'declaring x afterwards: {a2}')
    if bad:
        ctx.violation('F16 witness: refused load(levels=True)', dict(
            problems=bad[:4], got=ans, tags=dict(call='load-rejected', what='F16')))
    ctx.case(('witness', 'F16'))
    # F16, second part: the file's own levels are not a permutation of 0..n-1 (out of range /
    # repeated): refused before anything is declared, also in a fresh manager
    for k, vars_ in enumerate(({'a': 1, 'b': 5}, {'a': 1, 'b': 1})):
        mid = 2 + k
        s.new(mid, [])
        d = dict(vars=vars_, succ={1: (2, None, None)}, roots=[1])
        fh, path = _new_file(s.impl, '.p')
        with open(path, 'wb') as f:
            pickle.dump(d, f, protocol=2)
        fields = pickle_fields(read_pickle(path), False)
        ans = s.op(mid, 'pload', fh, 1, *fields)
        ctx.evaluations += 1
        b = s.mgr(mid)
        bad = order_views_ok(b) + check_invariants(b, {})
        if not ans.startswith('err'):
            bad.append(f'accepted: {ans}')
        if dict(b.vars):
            bad.append(f'variables declared by a refused load: {dict(b.vars)}')
        s.state(mid)
        if bad:
            ctx.violation('F16 witness: file levels not a permutation', dict(
                problems=bad[:4], got=ans, tags=dict(call='load-rejected', what='F16b')))
        ctx.case(('witness', 'F16b', k))
    # F17
    s.new(9, [])
    fh, path = _new_file(s.impl, '.json')
    with open(path, 'w') as f:
        f.write('{\n"level_of_var": {"x": 0, "y": 1},\n"roots": [3],\n'
                '"2": [1, "F", "T"],\n"3": [0, "F", 7]\n}\n')
    fields = json_fields(read_json(path), False)
    ans = s.op(9, 'jload', fh, 'w1', 0, *fields)
    ctx.evaluations += 1
    b = s.mgr(9)
    bad = order_views_ok(b) + check_invariants(b, {})
    if not ans.startswith('err'):
        bad.append(f'accepted: {ans}')
    s.op(9, 'gc')
    if set(b._succ) != {1}:
        bad.append(f'nodes survive a collection although nothing is held: {sorted(b._succ)}')
    s.state(9)
    if bad:
        ctx.violation('F17 witness: failed load_json', dict(
            problems=bad[:4], got=ans, tags=dict(call='load-rejected', what='F17')))
    ctx.case(('witness', 'F17'))
    # F18 / F19 / F20 (fixed): the three defects of `load_json` on ill-formed content
    #  F18  a node line numbered as the terminal (`"1": [0, "F", "T"]`, roots `[1]`) was accepted and
    #       left the node built for the line with a reference nobody held (refused now: `k <= 1`);
    #       `json:id1`, alone and followed by a line that fails anyway
    #  F19  `json:unrooted:load_order=1`: a node line that is neither a root nor a successor fails the
    #       `ref < 3` assertion, which ran in the release loop OUTSIDE the `try:`: the rest of the
    #       shelf leaked (`_ref == {1: 5, 2: 1, 3: 1}` with nothing held)
    #  F20  `json:order:load_order=1`: node 3 at level 1 names node 2 at level 0 as its successor; the
    #       raw `find_or_add` stored the ill-ordered node, `assert_consistent()` raised with the node
    #       still in the tables, and the next explicit `reorder` corrupted the manager
    def fixed_json(mid, what, text, lo, names=(), hold=False):
        s.new(mid, list(names))
        f_ = None
        if hold:
            x = s.val(s.op(mid, 'var', names[0]))
            y = s.val(s.op(mid, 'var', names[1]))
            f_ = s.val(s.op(mid, 'apply', 'and', x, y))
            s.incref(mid, f_)
        fh, path = _new_file(s.impl, '.json')
        with open(path, 'w') as f:
            f.write(text)
        fields = json_fields(read_json(path), False)
        b = s.mgr(mid)
        tt_before = TT(b, sorted(set(b.vars) | {'x', 'y'})).of(f_) if f_ else None
        ans = s.op(mid, 'jload', fh, f'w{mid}', int(lo), *fields)
        ctx.evaluations += 1
        b = s.mgr(mid)
        bad = order_views_ok(b) + check_invariants(b, dict(s.ledger.get(mid, {})))
        if not ans.startswith('err'):
            bad.append(f'accepted: {ans}')
        if lo and b.configure()['reordering']:
            bad.append('a failed load_order=True left dynamic reordering enabled')
        if f_:
            # the next explicit reordering and the held function
            a3 = s.op(mid, 'reorder', 'x=1,y=0')
            if not a3.startswith('ok'):
                bad.append(f'reorder after the failed load: {a3}')
            b = s.mgr(mid)
            bad += order_views_ok(b) + check_invariants(b, dict(s.ledger.get(mid, {})))
            if TT(b, sorted(set(b.vars) | {'x', 'y'})).of(f_) != tt_before:
                bad.append('the held function changed')
        s.op(mid, 'gc')
        b = s.mgr(mid)
        keep = reachable(b, [u for u, c in s.ledger.get(mid, {}).items() if c > 0]) | {1}
        if set(b._succ) != keep:
            bad.append(f'after a collection: nodes {sorted(b._succ)}, expected {sorted(keep)}')
        s.state(mid)
        if bad:
            ctx.violation(f'{what} witness: failed load_json', dict(
                problems=bad[:4], got=ans, tags=dict(call='load-rejected', what=what)))
        ctx.case(('witness', what, lo, bool(names)))

    head = '{\n"level_of_var": {"x": 0, "y": 1},\n'
    id1 = head + '"roots": [1],\n"1": [0, "F", "T"]\n}\n'
    id1_then = head + '"roots": [3],\n"1": [0, "F", "T"],\n"3": [0, "F", 7]\n}\n'
    unrooted = head + '"roots": [2],\n"3": [1, "F", "T"],\n"2": [0, "F", "T"]\n}\n'
    illord = head + '"roots": [3],\n"2": [0, "F", "T"],\n"3": [1, "F", 2]\n}\n'
    mid = 20
    for lo in (False, True):
        fixed_json(mid, 'F18', id1, lo); mid += 1
        fixed_json(mid, 'F18', id1_then, lo); mid += 1
    fixed_json(mid, 'F19', unrooted, True); mid += 1
    fixed_json(mid, 'F19', unrooted, True, names=('y', 'x')); mid += 1
    fixed_json(mid, 'F20', illord, True); mid += 1
    fixed_json(mid, 'F20', illord, True, names=('x', 'y'), hold=True); mid += 1
    # fewer than two variables, dynamic reordering ENABLED and a request due
    # (`C17_load_json_rejected_start`): the request fires inside `bdd.var` of `_make_node`,
    # `reorder(bdd)` raises (sifting needs two variables), `load_json` fails with that exception and
    # releases; the manager is good for the caller's ledger and dynamic reordering is left OFF by
    # the decorator.  A well-formed one-variable file, into `BDD()` and into a manager that holds `x`.
    one = '{\n"level_of_var": {"x": 0},\n"roots": [2],\n"2": [0, "F", "T"]\n}\n'
    for hold in (False, True):
        s.new(mid, ['x'] if hold else [])
        if hold:
            x = s.val(s.op(mid, 'var', 'x'))
            s.incref(mid, -x)
        s.op(mid, 'configure', 1)
        s.op(mid, 'fire_in', 1)
        fh, path = _new_file(s.impl, '.json')
        with open(path, 'w') as f:
            f.write(one)
        fields = json_fields(read_json(path), False)
        ans = s.op(mid, 'jload', fh, f'w{mid}', 0, *fields)
        s.op(mid, 'fire_off')
        ctx.evaluations += 1
        b = s.mgr(mid)
        bad = order_views_ok(b) + check_invariants(b, dict(s.ledger.get(mid, {})))
        if not ans.startswith('err'):
            bad.append(f'a request with one variable did not make the load fail: {ans}')
        if b.configure()['reordering']:
            bad.append('dynamic reordering still enabled after the failed sifting')
        if hold and TT(b, ['x']).of(-x) != Space(['x']).neg(Space(['x']).var('x')):
            bad.append('the held function changed')
        s.state(mid)
        if bad:
            ctx.violation('load_json with fewer than two variables and a request due', dict(
                problems=bad[:4], got=ans, tags=dict(call='load-rejected', what='few-variables')))
        ctx.case(('witness', 'few', hold))
        mid += 1
    ctx.add_session(s, SECTIONS_L3, 'C12/C17 witnesses F16 F17 F18 F19 F20 few')
    s.close()


def rejected_content(ctx):
    """C17 `load_rejected`: a readable file whose content is ill-formed (a child that is not in
    the file, a root that is not in the file, a level outside the file's range; for JSON also: a
    node not above its successor, a node line that is neither root nor successor, a node line
    numbered as the terminal — each with `load_order` False / True and with dynamic reordering
    enabled and armed in the receiving manager) makes the loader raise half-way.  Whatever it did before raising: the structural invariant holds, every node
    that was in the receiving manager is still there with the same triple, every held function
    keeps its truth table, declared variables keep their level, the reordering switch is what it
    was.  The model's outcome (error class, final state, counts) is compared line by line."""
    rng = ctx.rng
    s = Session(ctx)
    names = ['a', 'b', 'c']
    perm = list(names)
    rng.shuffle(perm)
    s.new(0, perm)
    sp = Space(names)
    bld = Builder(s)
    roots = []
    while len(roots) < 2:
        t = rng.randrange(1, sp.full)
        r = bld.build(sp, t)
        if abs(r) != 1:
            s.incref(0, r)
            roots.append(r)
    a1 = s.op(0, 'pdump', roots_show(roots))
    a2 = s.op(0, 'jdump', roots_show(roots))
    if not (a1.startswith('ok') or '|' in a1) or not (a2.startswith('ok') or '|' in a2):
        pass
    objs = s.impl.objs
    # the two well-formed contents
    pfile = [pth for fh, pth in objs['files'].items() if pth.endswith('.p')][-1]
    jfile = [pth for fh, pth in objs['files'].items() if pth.endswith('.json')][-1]
    dp = read_pickle(pfile)
    dj = read_json(jfile)

    def children(d_succ):
        out = set()
        for u, (i, v, w) in d_succ.items():
            if v is not None:
                out |= {abs(v), abs(w)}
        return out - {1}

    def corrupt_pickle(kind):
        d = dict(vars=dict(dp['vars']), succ=dict(dp['succ']), roots=list(dp['roots']))
        if kind == 'child':
            ch = sorted(children(d['succ']))
            if not ch:
                return None
            del d['succ'][rng.choice(ch)]
        elif kind == 'root':
            d['roots'] = list(d['roots']) + [max(d['succ']) + 5]
        elif kind == 'level':
            v = rng.choice(sorted(d['vars']))
            d['vars'][v] = len(d['vars']) + 1
        fh, path = _new_file(s.impl, '.p')
        with open(path, 'wb') as f:
            pickle.dump(d, f, protocol=2)
        return fh, pickle_fields(read_pickle(path), False)

    def corrupt_json(kind):
        lov = dict(dj['level_of_var'])
        nodes = list(dj['nodes'])
        jroots = list(dj['roots'])
        if kind == 'child':
            ch = set()
            for k, lvl, lo, hi in nodes:
                ch |= {abs(x) for x in (lo, hi) if isinstance(x, int)}
            if not ch:
                return None
            gone = rng.choice(sorted(ch))
            nodes = [n for n in nodes if n[0] != gone]
        elif kind == 'root':
            jroots = jroots + [max([n[0] for n in nodes] + [1]) + 5]
        elif kind == 'level':
            if not nodes:
                return None
            k = rng.randrange(len(nodes))
            n = nodes[k]
            nodes[k] = (n[0], len(lov) + 3, n[2], n[3])
        elif kind == 'order':
            # a parent at a level that is not above the level of one of its successors (F20)
            lvl_of = {n[0]: n[1] for n in nodes}
            cand = [i for i, n in enumerate(nodes) if any(isinstance(x, int) for x in (n[2], n[3]))]
            if not cand:
                return None
            i = rng.choice(cand)
            n = nodes[i]
            ch = rng.choice([abs(x) for x in (n[2], n[3]) if isinstance(x, int)])
            nodes[i] = (n[0], rng.randrange(lvl_of[ch], len(lov)), n[2], n[3])
        elif kind == 'unrooted':
            # a node line that is neither a root nor a successor of another line (F19)
            k = max([n[0] for n in nodes] + [1]) + 1 + rng.randrange(3)
            nodes.insert(rng.randrange(len(nodes) + 1), (k, rng.randrange(len(lov)), 'F', 'T'))
        elif kind in ('id1', 'id1+child'):
            # a node line numbered as the terminal (F18), alone or before a line that fails anyway
            if kind == 'id1+child':
                ch = set()
                for k, lvl, lo, hi in nodes:
                    ch |= {abs(x) for x in (lo, hi) if isinstance(x, int)}
                if not ch:
                    return None
                gone = rng.choice(sorted(ch))
                nodes = [n for n in nodes if n[0] != gone]
            nodes.insert(rng.randrange(len(nodes) + 1), (1, rng.randrange(len(lov)), 'F', 'T'))
        fh, path = _new_file(s.impl, '.json')
        with open(path, 'w') as f:
            f.write('{\n')
            f.write('"level_of_var": ' + json.dumps(lov) + ',\n')
            f.write('"roots": ' + json.dumps(jroots))
            for k, lvl, lo, hi in nodes:
                f.write(',\n' + f'"{k}": ' + json.dumps([lvl, lo, hi]))
            f.write('\n}\n')
        return fh, json_fields(read_json(path), False)

    nid = [0]

    def target():
        nid[0] += 1
        mid = nid[0]
        kind = rng.choice(['fresh', 'other', 'extra'])
        if kind == 'fresh':
            s.new(mid, [])
            return mid
        order = list(names)
        rng.shuffle(order)
        if kind == 'extra':
            order.insert(rng.randrange(len(order) + 1), 'x')
        s.new(mid, order)
        for _ in range(rng.randint(1, 4)):
            x = s.val(s.op(mid, 'var', rng.choice(order)))
            y = s.val(s.op(mid, 'var', rng.choice(order)))
            r = s.val(s.op(mid, 'apply', rng.choice(['and', 'xor', 'or']), x, -y))
            if rng.random() < 0.6 and abs(r) != 1:
                s.incref(mid, r)
        return mid

    def run(label, mid, do, lo=False, dyn=False, must_reject=True, handle=None):
        """`lo`: `load_order=True` (the explicit `reorder(order)` of the line `level_of_var` moves
        levels and triples; the switch ends OFF after a failure, ON after a success);
        `dyn`: dynamic reordering enabled in the target with the request armed (sifting may run
        inside `var` / `ite` of `_make_node` before the failure; the switch stays enabled)."""
        b = s.mgr(mid)
        old_succ = dict(b._succ)
        old_vars = dict(b.vars)
        old_conf = b.configure()
        old_last = b._last_len
        univ = sorted(set(old_vars) | set(names))
        held = [u for u, c in s.ledger.get(mid, {}).items() if c > 0]
        tt0 = TT(b, univ)
        old_tt = {u: tt0.of(u) for u in held}
        ans = do()
        if dyn:
            s.op(mid, 'fire_off')
            if not lo and s.mgr(mid)._last_len != old_last:
                ctx.count('rejected:json:sifted-inside-the-load:' + ('raised' if ans.startswith('err') else 'returned'))
        ctx.evaluations += 1
        b = s.mgr(mid)
        problems = []
        rejected = ans.startswith('err')
        if not rejected and must_reject:
            problems.append(f'ill-formed content accepted: {ans}')
        # order views (bijection onto 0..n-1, the four views agree) and EXACT counts for the
        # caller's ledger: a failed load holds nothing; an accepted one holds its roots
        ledger = dict(s.ledger.get(mid, {}))
        got_list = []
        if not rejected:
            got = roots_parse(ans[3:])
            got_list = list(got.values()) if isinstance(got, dict) else list(got or [])
            for u in got_list:
                ledger[abs(u)] = ledger.get(abs(u), 0) + 1
        problems += order_views_ok(b) + check_invariants(b, ledger)
        moved = lo or (dyn and not lo)
        if not moved:
            for u, t in old_succ.items():
                if u != 1 and b._succ.get(u) != t:
                    problems.append(f'node {u} was {t}, is {b._succ.get(u)}')
            for v, l in old_vars.items():
                if b.vars.get(v) != l:
                    problems.append(f'variable {v} was at level {l}, is at {b.vars.get(v)}')
        elif not set(old_vars) <= set(b.vars):
            problems.append(f'declared variables lost: {sorted(set(old_vars) - set(b.vars))}')
        if lo:
            # `configure(reordering=False)` first; `configure(reordering=<dict>)` only on success
            if b.configure()['reordering'] != (not rejected):
                problems.append(f'the reordering switch is {b.configure()["reordering"]} after a '
                                f'{"refused" if rejected else "successful"} load_order=True')
        elif b.configure() != old_conf:
            problems.append('the reordering switch changed')
        tt0b = TT(b, univ) if set(b.vars) <= set(univ) else None
        if tt0b is not None:
            for u in held:
                if abs(u) not in b._succ:
                    problems.append(f'held node {u} is gone')
                elif tt0b.of(u) != old_tt[u]:
                    problems.append(f'held node {u} denotes another function')
        for u in held:
            if b._ref.get(u, 0) < 1:
                problems.append(f'held node {u} lost its reference')
        if not rejected and handle is not None:
            # the returned `Function`s die: the caller's ledger again, and a collection
            s.op(mid, 'drop', handle, ans[3:])
            b = s.mgr(mid)
            problems += check_invariants(b, dict(s.ledger.get(mid, {})))
        if problems:
            ctx.violation(f'rejected load ({label})', dict(problems=problems[:4], got=ans,
                          lines=list(s.lines[-3:]), tags=dict(call='load-rejected', what=label)))
        s.state(mid)
        ctx.case(('rejected', label))
        ctx.count(f'rejected:{label}{"" if rejected else ":accepted"}')

    nh = [0]
    for kind in ('child', 'root', 'level'):
        c = corrupt_pickle(kind)
        if c is not None:
            fh, fields = c
            for levels in (0, 1):
                mid = target()
                run(f'pickle:{kind}:levels={levels}', mid,
                    lambda: s.op(mid, 'pload', fh, levels, *fields))
            mid = target()
            nh[0] += 1
            hh = f'r{nh[0]}'
            run(f'pickle-autoref:{kind}', mid, lambda: s.op(mid, 'pload_auto', fh, hh, 0, *fields))
        c = corrupt_json(kind)
        if c is not None:
            fh, fields = c
            mid = target()
            nh[0] += 1
            hh = f'r{nh[0]}'
            run(f'json:{kind}', mid, lambda: s.op(mid, 'jload', fh, hh, 0, *fields))
    # JSON, every kind of ill-formed content x load_order x dynamic reordering enabled (armed)
    jkinds = ['child', 'root', 'level', 'order', 'unrooted', 'id1', 'id1+child']
    for kind in jkinds:
        c = corrupt_json(kind)
        if c is None:
            continue
        fh, fields = c
        for lo in (0, 1):
            for dyn in (False, True):
                if kind in ('child', 'root', 'level') and not lo and not dyn:
                    continue        # done above
                if ctx.tier == 'quick' and rng.random() < 0.4:
                    continue
                mid = target()
                if dyn:
                    s.op(mid, 'configure', 1)
                    s.op(mid, 'fire_in', rng.randint(1, 4))
                nh[0] += 1
                hh = f'r{nh[0]}'
                # `order` / `unrooted` are accepted by `load_order=False` (built with var / ite; only
                # `ref < 2` is asserted); `unrooted` may pass `ref < 3` when its node is shared
                must = kind in ('child', 'root', 'level', 'id1', 'id1+child') or (kind == 'order' and lo == 1)
                run(f'json:{kind}:load_order={lo}{":dyn" if dyn else ""}', mid,
                    lambda: s.op(mid, 'jload', fh, hh, lo, *fields),
                    lo=bool(lo), dyn=dyn, must_reject=must, handle=hh)
    ctx.add_session(s, SECTIONS_L3, 'C12/C17 rejected content')
    s.close()



def permuted_files(ctx):
    """Audit 2, gap 9 — the ORDER of the items of a file.  The model writes `vars` sorted by name
    and `succ` by ascending id; Python writes `vars` in the insertion order of `bdd.vars` and
    `succ` in the iteration order of a `set` (JSON: `level_of_var` in dict order, the node lines in
    the determined order of the recursion — compared UNSORTED with the model's).  The theorems
    (`C12_*_perm`) are about every file `f' ≈ dump`: here the real file is (a) checked to have its
    `vars` items in the order of `bdd.vars`, (b) re-written with its items PERMUTED (JSON: the
    lines in another children-first order) and loaded by the real code and by the model, which
    reads the very same permuted content: the same functions by name; with `levels=True` into a
    fresh manager the SOURCE's levels whatever the item order; with `levels=False` the order of the
    ITEMS of the file."""
    rng = ctx.rng
    names = ['a', 'b', 'c', 'd'] if rng.random() < 0.5 else ['a', 'b', 'c']
    sp = Space(names)
    perm = list(names)
    rng.shuffle(perm)
    # the `vars` dict order of the source differs from its level order (and from the name order)
    decl = list(names)
    rng.shuffle(decl)
    src_levels = [(v, perm.index(v)) for v in decl]
    k = rng.choice([1, 2, 3])
    tts = [rng.randrange(1, sp.full) for _ in range(k)]
    signs = [rng.choice([1, -1]) for _ in tts]
    sc = Scenario(ctx, names, src_levels, tts, rng.random() < 0.5, signs)
    s = sc.s
    b0 = s.mgr(0)

    def shuffled(items):
        items = list(items)
        for _ in range(4):
            rng.shuffle(items)
            if len(items) < 2 or items != sorted(items):
                break
        return items

    # ---- pickle -------------------------------------------------------------------------------
    ans = s.op(0, 'pdump', roots_show(sc.roots))
    if ans.startswith('ok'):
        fh, d = sc.last()
        if list(d['vars']) != list(b0.vars):
            ctx.violation('the `vars` items of the pickle are not in the order of `bdd.vars`', dict(
                got=list(d['vars']), want=list(b0.vars), **sc.tag_base, tags=dict(call='dump', what='item-order')))
        pv = shuffled(d['vars'].items())
        ps = shuffled(d['succ'].items())
        fh2, path2 = _new_file(s.impl, '.p')
        with open(path2, 'wb') as f:
            pickle.dump(dict(vars=dict(pv), succ=dict(ps), roots=d['roots']), f, protocol=2)
        d2 = read_pickle(path2)
        if list(d2['vars'].items()) != pv or list(d2['succ'].items()) != ps:
            raise RuntimeError('HARNESS: the permuted pickle was not written in the permuted order')
        fields = pickle_fields(d2, False)
        item_order = [v for v, _i in pv]
        for kind, levels in (('fresh', True), ('fresh', False), ('same', True), ('same', False),
                             ('declared-other', False), ('declared-extra', False)):
            mid, desc = sc.target(kind)
            tags = dict(call='load', fmt='pickle', target=kind, levels=levels, what='permuted-items')
            a2 = s.op(mid, 'pload', fh2, int(levels), *fields)
            got = sc.judge(mid, a2, f'pickle load of PERMUTED items into {desc} levels={levels}', tags,
                           held=False)
            if got is not None and kind == 'fresh':
                bv = dict(s.mgr(mid).vars)
                want = dict(sc.src_levels) if levels else {v: j for j, v in enumerate(item_order)}
                if bv != want:
                    ctx.violation('variable order after loading a permuted pickle into a fresh manager', dict(
                        got=bv, want=want, levels=levels, **sc.tag_base, tags=tags))
            s.state(mid)
            ctx.count(f'permuted:pickle:{kind}:{"L" if levels else "l"}')
    else:
        ctx.violation('pickle dump raised', dict(got=ans, **sc.tag_base, tags=dict(call='dump')))
    # ---- JSON ---------------------------------------------------------------------------------
    if sc.refs and any(abs(r) != 1 for r in sc.refs):
        ans = s.op(0, 'jdump', roots_show(sc.roots))
        if ans.startswith('ok'):
            fh, d = sc.last()
            if list(d['level_of_var']) != list(b0.vars):
                ctx.violation('`level_of_var` is not in the order of `bdd.vars`', dict(
                    got=list(d['level_of_var']), want=list(b0.vars), **sc.tag_base,
                    tags=dict(call='dump-json', what='item-order')))
            lov = shuffled(d['level_of_var'].items())
            # another children-first order of the lines: a random linear extension
            todo = list(d['nodes'])
            placed, lines = set(), []
            while todo:
                ready = [n for n in todo if all(not isinstance(x, int) or abs(x) in placed for x in (n[2], n[3]))]
                n = rng.choice(ready)
                todo.remove(n)
                placed.add(n[0])
                lines.append(n)
            fh2, path2 = _new_file(s.impl, '.json')
            with open(path2, 'w') as f:
                f.write('{\n')
                f.write('"level_of_var": ' + json.dumps(dict(lov)) + ',\n')
                f.write('"roots": ' + json.dumps(d['roots']))
                for k_, lvl, lo, hi in lines:
                    f.write(',\n' + f'"{k_}": ' + json.dumps([lvl, lo, hi]))
                f.write('\n}\n')
            d2 = read_json(path2)
            fields = json_fields(d2, False)
            for kind, lo in (('fresh', False), ('fresh', True), ('same', False), ('declared-other', False),
                             ('declared-other', True)):
                mid, desc = sc.target(kind)
                nv = len(set(s.mgr(mid).vars) | set(sc.src_levels))
                refusal = lo and nv != len(sc.src_levels)
                hh = sc.hold_handle()
                tags = dict(call='load', fmt='json', target=kind, load_order=lo, what='permuted-items')
                a2 = s.op(mid, 'jload', fh2, hh, int(lo), *fields)
                got = sc.judge(mid, a2, f'JSON load of PERMUTED items into {desc} load_order={lo}', tags,
                               held=True, expect_refusal=refusal)
                if got is not None and lo and dict(s.mgr(mid).vars) != sc.src_levels:
                    ctx.violation('load_order=True of a permuted file did not restore the order of the file',
                                  dict(**sc.tag_base, tags=tags))
                if a2.startswith('ok'):
                    s.op(mid, 'drop', hh, a2[3:])
                    sc.after_drop(mid, tags)
                s.state(mid)
                ctx.count(f'permuted:json:{kind}:{"O" if lo else "o"}')
    ctx.case(('permuted', tuple(src_levels), tuple(tts), tuple(signs)))
    ctx.add_session(s, SECTIONS_L3, f'C12 permuted items {sc.tag_base}')
    s.close()


def build_driver():
    """`lib.lean_side` builds `ddvdrv` only; this slice's sessions are replayed on `ddvdump`."""
    import subprocess
    from lib import LEAN
    p = subprocess.run(['lake', 'build', 'ddvdump'], cwd=LEAN, text=True,
                       stdout=subprocess.PIPE, stderr=subprocess.STDOUT, timeout=3000)
    if p.returncode != 0:
        raise RuntimeError('lake build ddvdump failed:\n' + p.stdout[-3000:])


def witness_json_reordering_flag(ctx):
    """F10 / F12 (observations, outside the text of C12 and C17 as stated; the model mirrors
    both, they are recorded as notes, never as violations).  F10: `_load_json(load_order=True)` keeps the dict
    returned by `configure()` and passes it back as the value of `reordering`, so dynamic
    reordering is enabled after the call although it was disabled before.  The model mirrors
    it (`DD.loadJson_loadOrder_enables_reordering`); recorded as a note, not as a violation."""
    s = Session(ctx)
    s.new(0, ['a', 'b'])
    u = s.val(s.op(0, 'apply', 'and', s.val(s.op(0, 'var', 'a')), s.val(s.op(0, 'var', 'b'))))
    s.incref(0, u)
    s.op(0, 'jdump', roots_show([u]))
    fh, d = s.impl.objs['last']
    s.new(1, ['a', 'b'])
    before = s.mgr(1)._last_len
    a2 = s.op(1, 'jload', fh, 'h1', 1, *json_fields(d, False))
    after = s.mgr(1)._last_len
    if a2.startswith('ok'):
        s.op(1, 'drop', 'h1', a2[3:])
    s.state(1)
    if before is None and after is not None:
        ctx.notes.append('F10 observed: load_json(load_order=True) left dynamic reordering ENABLED '
                         f'(_last_len None -> {after}) on a manager where it was disabled')
    # F12 (observation): a refused `load_json(load_order=True)` (other variable set: `reorder`
    # raises ValueError) leaves dynamic reordering switched OFF and the file's variables declared
    s.new(2, ['a', 'b', 'x'])
    s.op(2, 'configure', 1)
    a3 = s.op(2, 'jload', fh, 'h2', 1, *json_fields(d, False))
    if a3.startswith('err') and s.mgr(2)._last_len is None:
        ctx.notes.append('F12 observed: a refused load_json(load_order=True) left dynamic reordering '
                         f'DISABLED on a manager where it was enabled ({a3})')
    elif a3.startswith('ok'):
        s.op(2, 'drop', 'h2', a3[3:])
    s.state(2)
    ctx.add_session(s, SECTIONS_L3, 'C12 F10/F12 witness')
    s.close()


def check_C12(ctx):
    ctx.driver = 'ddvdump'
    build_driver()
    rng = ctx.rng
    try:
        refused_files(ctx)
        abc = ['a', 'b', 'c']
        abcd = ['a', 'b', 'c', 'd']
        # the inputs on which the tree failed before the fix commits 8564934 / 58a79f8 run first
        # on every run (must pass now):
        #  F3  b /\ a dumped from a manager whose `vars` dict order (a, b, c) differs from its
        #      level order (b < a < c), loaded with levels=False (fresh manager included);
        #  F2  the same manager dumped without roots;  F11  the constant TRUE among the roots
        run_scenario(ctx, abc, [('a', 1), ('b', 0), ('c', 2)], [0b10001000], False, [1],
                     ['fresh', 'declared-other'], with_none=True)
        run_scenario(ctx, abc, [('a', 0), ('b', 1), ('c', 2)], [0b11111111, 0b10001000], True, [1, -1],
                     ['fresh', 'same'], with_none=False)
        witness_json_reordering_flag(ctx)
        witness_failed_loads(ctx)
        for _ in range(2 if ctx.tier == 'quick' else 25):
            rejected_content(ctx)
        for _ in range(4 if ctx.tier == 'quick' else 120):
            permuted_files(ctx)
        n = 0
        budget_tail = 25 if ctx.tier == 'quick' else 60
        total = 250 if ctx.tier == 'quick' else 4000
        # exhaustive part (thorough): every single function of 3 variables
        singles = list(range(256)) if ctx.tier == 'thorough' else []
        while n < total and ctx.time_left() > budget_tail:
            names = abcd if rng.random() < 0.15 else abc
            wide = (not singles) and rng.random() < 0.06
            if wide:
                # ten variables (levels and node numbers with two digits): functions of a few of them
                names = [chr(ord('a') + i) for i in range(10)]
                ctx.count('source:ten-variables')
            sp = Space(names)
            if singles:
                tts = [singles.pop()]
            elif wide:
                tts = []
                for _ in range(rng.choice([1, 2, 3])):
                    sub = rng.sample(names, rng.randint(2, 4))
                    t = 0
                    for _ in range(rng.randint(1, 3)):
                        c = sp.full
                        for v in sub:
                            r_ = rng.random()
                            if r_ < 0.4:
                                c &= sp.var(v)
                            elif r_ < 0.8:
                                c &= sp.neg(sp.var(v))
                        t |= c
                    tts.append(t)
            else:
                k = rng.choice([1, 2, 2, 3, 3])
                tts = [rng.randrange(sp.full + 1) for _ in range(k)]
                if rng.random() < 0.12:
                    tts[rng.randrange(k)] = rng.choice([0, sp.full])      # a constant root
            signs = [rng.choice([1, -1]) for _ in tts]
            perm = list(names)
            rng.shuffle(perm)
            if rng.random() < 0.5:
                # `vars` in level order
                src_levels = [(v, i) for i, v in enumerate(perm)]
            else:
                # a manager whose `vars` dict order differs from its level order
                src_levels = [(v, perm.index(v)) for v in names]
            as_dict = rng.random() < 0.5
            if ctx.tier == 'thorough':
                kinds = TARGET_KINDS
            else:
                kinds = ['fresh', 'same'] + rng.sample(TARGET_KINDS[2:], 2)
                rng.shuffle(kinds)
            run_scenario(ctx, names, src_levels, tts, as_dict, signs, kinds, with_none=(n % 4 == 0))
            n += 1
            if n % 10 == 0:
                ctx.flush_model()
        ctx.notes.append(f'{n} scenarios')
        ctx.notes.append('pickle load with dynamic reordering enabled and the request armed: '
                         'find_or_add asks for reordering only inside a reordering context, load uses the undecorated _ite and '
                         'BDD.load opens none, so no reordering happens (nothing escapes); JSON load '
                         '(load_order=False) reorders inside var()/ite() and stays correct')
    finally:
        cleanup()


def extra_C17(ctx):
    """C17's share of this module (runs after whichever C17 check is registered): a load that
    raises — unreadable file, wrong extension, ill-formed content refused half-way — leaves the
    manager as C17 says.  The witnesses of F16 / F17 run first.  The sessions use the dump ops, so
    they are replayed on `ddvdump`."""
    saved = ctx.driver
    ctx.flush_model()
    ctx.driver = 'ddvdump'
    build_driver()
    try:
        refused_files(ctx)
        witness_failed_loads(ctx)
        n = 0
        want = 4 if ctx.tier == 'quick' else 60
        while n < want and ctx.time_left() > 5:
            rejected_content(ctx)
            n += 1
        ctx.notes.append(f'failing loads: {n} rounds of ill-formed content (pickle and JSON)')
        ctx.flush_model()
    finally:
        cleanup()
        ctx.driver = saved


EXTRAS = {'C17': [extra_C17]}
EXTRA_DRIVERS = ['ddvdump']


REGISTRY = {
    'C12': (check_C12,
            'tuples of 1-3 functions of 3 (sampled 4) variables, roots as list/dict/None, pickle + '
            'whole-manager pickle + JSON; source orders (incl. vars-dict order != level order) x '
            'targets fresh / same / declared same order / other order / extra variables with '
            'pre-existing held nodes x levels x load_order x dd.bdd / dd.autoref (x reordering '
            'enabled for JSON); files re-read and compared with the model content; truth tables by '
            'name, container shape, invariants + exact counts (ledger), collection after release; '
            'unreadable / wrong-extension files; files re-written with PERMUTED items (vars / succ / '
            'level_of_var, JSON lines in another children-first order) loaded by code and model'),
}
