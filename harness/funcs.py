"""Truth-table helpers: build any function in a manager through protocol lines,
apply connectives / quantifiers / substitutions on truth tables (the independent
semantics the oracles compare against)."""
from lib import var_masks


class Space:
    """All assignments over a fixed, sorted list of names."""

    def __init__(self, names):
        self.names = sorted(names)
        self.n = len(self.names)
        self.masks, self.full = var_masks(self.names)
        self.size = 1 << self.n

    def idx(self, name):
        return self.names.index(name)

    def neg(self, t):
        return self.full & ~t

    def cof(self, t, name, val):
        k = self.idx(name)
        mk = self.masks[name]
        sh = 1 << k
        if val:
            p = t & mk
            return p | (p >> sh)
        p = t & (self.full & ~mk)
        return p | (p << sh)

    def depends(self, t, name):
        return self.cof(t, name, 0) != self.cof(t, name, 1)

    def support(self, t):
        return {v for v in self.names if self.depends(t, v)}

    def exists(self, t, names):
        for v in names:
            t = self.cof(t, v, 0) | self.cof(t, v, 1)
        return t

    def forall(self, t, names):
        for v in names:
            t = self.cof(t, v, 0) & self.cof(t, v, 1)
        return t

    def ite(self, g, u, v):
        return (g & u) | (self.neg(g) & v)

    def var(self, name):
        return self.masks[name]

    def compose(self, t, sub):
        """Simultaneous substitution: `sub` maps names to truth tables."""
        r = 0
        for a in range(self.size):
            # the assignment seen by `t`
            a2 = 0
            for k, nm in enumerate(self.names):
                if nm in sub:
                    bit = (sub[nm] >> a) & 1
                else:
                    bit = (a >> k) & 1
                a2 |= bit << k
            if (t >> a2) & 1:
                r |= 1 << a
        return r

    def rename(self, t, ren):
        return self.compose(t, {k: self.masks[v] for k, v in ren.items()})

    def count(self, t):
        return bin(t).count('1')

    def models(self, t, names):
        """Assignments over `names` (a list) as frozensets of (name, bool), for which
        `t` (which must not depend on other names) holds."""
        out = []
        others = [v for v in self.names if v not in names]
        for a in range(self.size):
            if any((a >> self.idx(v)) & 1 for v in others):
                continue
            if (t >> a) & 1:
                out.append(frozenset((v, bool((a >> self.idx(v)) & 1)) for v in names))
        return out

    def eval_partial(self, t, asg):
        """Set of values `t` takes over all completions of the partial assignment."""
        for v, b in asg.items():
            if v in self.masks:
                t = self.cof(t, v, 1 if b else 0)
        if t == 0:
            return {False}
        if t == self.full:
            return {True}
        return {False, True}


CONNECTIVES = {
    'or': lambda s, a, b: a | b,
    'and': lambda s, a, b: a & b,
    'xor': lambda s, a, b: a ^ b,
    'implies': lambda s, a, b: s.neg(a) | b,
    'equiv': lambda s, a, b: s.neg(a ^ b),
    'diff': lambda s, a, b: a & s.neg(b),
}

ALIASES = {
    'or': ['or', r'\/', '|', '||'],
    'and': ['and', '/\\', '&', '&&'],
    'xor': ['#', 'xor', '^'],
    'implies': ['=>', '->', 'implies'],
    'equiv': ['<=>', '<->', 'equiv'],
    'diff': ['diff', '-'],
}
NOT_ALIASES = ['~', 'not', '!']
FORALL_ALIASES = [r'\A', 'forall']
EXISTS_ALIASES = [r'\E', 'exists']


class Builder:
    """Builds functions in a session's manager, node by node, with `foa` lines."""

    def __init__(self, sess, mid=0):
        self.s = sess
        self.mid = mid
        self.memo = {}

    def reset(self):
        self.memo = {}

    def build(self, space, t):
        b = self.s.mgr(self.mid)
        order = [b._level_to_var[i] for i in range(len(b.vars))]
        return self._build(space, t, order, 0)

    def _build(self, sp, t, order, i):
        if t == 0:
            return -1
        if t == sp.full:
            return 1
        key = t
        r = self.memo.get(key)
        if r is not None:
            return r
        # first variable (from level i) the function depends on
        j = i
        while j < len(order) and (order[j] not in sp.masks or not sp.depends(t, order[j])):
            j += 1
        nm = order[j]
        lo = self._build(sp, sp.cof(t, nm, 0), order, j + 1)
        hi = self._build(sp, sp.cof(t, nm, 1), order, j + 1)
        ans = self.s.op(self.mid, 'foa', j, lo, hi)
        r = self.s.val(ans)
        if r is None:
            raise RuntimeError(f'building failed: {ans}')
        self.memo[key] = r
        return r
