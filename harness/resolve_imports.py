#!/usr/bin/env python3
"""Resolve merge conflicts in the import-list files by taking the union of lines."""
import sys
for p in sys.argv[1:]:
    out = []
    for ln in open(p).read().split('\n'):
        if ln.startswith('<<<<<<<') or ln.startswith('=======') or ln.startswith('>>>>>>>'):
            continue
        if ln and ln not in out:
            out.append(ln)
    open(p, 'w').write('\n'.join(out) + '\n')
