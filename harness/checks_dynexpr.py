"""C09 extension (slice dynexpr): `add_expr` and `load` under dynamic reordering.

Lean: `DD.C09_addExpr_transparent` (the decorated `add_expr` with the request firing at whichever
`find_or_add` of whichever nested operation) and `DD.C09_load_never_reorders` (`BDD.load` never
looks at `_last_len`).  This module ties those two statements to the real code:

1. `add_expr` on formulas that contain EVERY construct of the grammar -- `\\A` / `\\E`, `\\S`,
   `ite(...)`, `@n` (also negative), constants, all connective spellings -- on managers with 3-6
   and with 9-12 variables; the request is fired at k = 1, 2, ... (every trigger position up to
   the cap of `checks_more._c09_one`) and the run is compared with the reordering-disabled run.
2. `load` (pickle, `dd.bdd` and `dd.autoref`) into managers with 9-12 variables in which dynamic
   reordering is ENABLED, with a low natural threshold or with the trigger armed at k = 1..3:
   the load must return the same roots and leave the same state as the load into the twin
   manager where reordering is disabled (except `_last_len`), `_request_reordering` must not have
   been called at all (the trigger counter is untouched), `_last_len` must be what it was.
   The sessions are replayed on the Lean model (exe `ddvdynexpr` = parser driver + dump driver).
"""
import checks_more as cm
import checks_dump as cd
import checks_parse as cp
import impl as implmod
from lib import Session, TT, check_invariants, filter_state, SECTIONS_L3
from histories import History

BIN_SPELL = ['/\\', '\\/', '=>', '<=>', '#', '&', '|', '^', '-', '->', '<->', '&&', '||']
NOT_SPELL = ['~', '!']


def rich_formula(rng, held, names, depth):
    """A formula over `names` and `@n` for held nodes that contains a quantifier, a renaming,
    an `ite(...)`, an `@n` and a constant, whatever the random choices."""
    def ref():
        return f'@{rng.choice(held)}'

    def atom():
        r = rng.random()
        if r < 0.25:
            return ref()
        if r < 0.32:
            return rng.choice(['TRUE', 'FALSE'])
        return rng.choice(names)

    def some_names(k):
        return rng.sample(names, min(len(names), rng.randint(1, k)))

    def binder():
        q = rng.choice(['\\A', '\\E'])
        return f'{q} {", ".join(some_names(3))}:'

    def subst():
        olds = some_names(2)
        return '\\S ' + ', '.join(f'{rng.choice(names)} / {o}' for o in olds) + ':'

    def form(d):
        if d <= 0:
            a = atom()
            return a if rng.random() < 0.7 else f'{rng.choice(NOT_SPELL)} {a}'
        r = rng.random()
        if r < 0.5:
            return f'({form(d - 1)} {rng.choice(BIN_SPELL)} {form(d - 1)})'
        if r < 0.65:
            return f'ite({form(d - 1)}, {form(d - 1)}, {form(d - 2)})'
        if r < 0.8:
            return f'({binder()} {form(d - 1)})'
        if r < 0.92:
            return f'({subst()} {form(d - 1)})'
        return f'{rng.choice(NOT_SPELL)} ({form(d - 1)})'
    parts = [
        f'({binder()} {form(depth - 1)} {rng.choice(BIN_SPELL)} {ref()})',
        f'ite({atom()}, {form(depth - 1)}, {rng.choice(["TRUE", "FALSE", ref()])})',
        f'({subst()} {form(depth - 1)})',
    ]
    rng.shuffle(parts)
    f = f'{parts[0]} {rng.choice(BIN_SPELL)} {parts[1]} {rng.choice(BIN_SPELL)} {parts[2]}'
    if rng.random() < 0.4:
        f = f'{binder()} {f}'
    return f


def _addexpr_sweep(ctx):
    rng = ctx.rng
    quick = ctx.tier == 'quick'
    plan = [(rng.randint(9, 12), 2) for _ in range(4 if quick else 24)]
    plan += [(rng.randint(3, 6), rng.randint(2, 3)) for _ in range(6 if quick else 40)]
    for nv, depth in plan:
        if ctx.time_left() < 12:
            break
        lines, held, names = cm.build_scenario(ctx, nv)
        f = rich_formula(rng, held, names, depth)
        ctx.count('add_expr-wide' if nv >= 9 else 'add_expr-rich')
        cm._c09_one(ctx, lines, held, names, 'add_expr', 'add_expr', [cp.esc(f)])


# ---------------------------------------------------------------------------
# load
# ---------------------------------------------------------------------------

def _source(ctx, s, names):
    """Fill manager 0 of the session `s` with random functions; returns held references."""
    rng = ctx.rng
    pool = [1, -1]
    for n in names:
        v = s.val(s.op(0, 'var', n))
        if v is not None:
            pool.append(v)
    for _ in range(rng.randint(15, 40)):
        r = rng.random()
        if r < 0.75:
            ans = s.op(0, 'apply', rng.choice(['and', 'or', 'xor', 'implies', 'equiv']),
                       rng.choice(pool), rng.choice(pool))
        else:
            ans = s.op(0, 'ite', rng.choice(pool), rng.choice(pool), rng.choice(pool))
        v = s.val(ans)
        if v is not None:
            pool.append(v)
    cands = [u for u in pool if abs(u) != 1]
    roots = [rng.choice(cands[len(cands) // 2:]) * rng.choice([1, -1]) for _ in range(rng.randint(1, 3))]
    if rng.random() < 0.2:
        roots.append(rng.choice([1, -1]))
    for u in roots:
        if abs(u) != 1:
            s.incref(0, u)
    return roots


def _target(ctx, s, mid, order, content_seed):
    """A receiving manager with the given order and some held content (deterministic in
    `content_seed`, so that the twin manager gets the very same lines)."""
    import random as _random
    rng = _random.Random(content_seed)
    s.new(mid, order)
    for _ in range(rng.randint(0, 8)):
        a = s.val(s.op(mid, 'var', rng.choice(order)))
        b_ = s.val(s.op(mid, 'var', rng.choice(order)))
        r = s.val(s.op(mid, 'apply', rng.choice(['and', 'xor', 'or']), a, -b_))
        if r is not None and abs(r) != 1 and rng.random() < 0.6:
            s.incref(mid, r)


def _load_sweep(ctx, replay=True):
    rng = ctx.rng
    quick = ctx.tier == 'quick'
    for rep in range(6 if quick else 40):
        if ctx.time_left() < 8:
            break
        nv = rng.randint(9, 12)
        names = [f'v{i}' for i in range(nv)]
        src_order = names[:]
        rng.shuffle(src_order)
        s = Session(ctx)
        s.new(0, src_order)
        roots = _source(ctx, s, names)
        as_dict = rng.random() < 0.3
        rts = {f'r{k}': u for k, u in enumerate(roots)} if as_dict else list(roots)
        ans = s.op(0, 'pdump', cd.roots_show(rts))
        if not ans.startswith('ok'):
            ctx.violation('pickle dump raised', dict(got=ans, tags=dict(call='dump')))
            s.close()
            continue
        fh, d = s.impl.objs['last']
        fields = cd.pickle_fields(d, False)
        b0 = s.mgr(0)
        mid = 1
        for variant in range(3 if quick else 6):
            tgt_order = names[:]
            rng.shuffle(tgt_order)
            if rng.random() < 0.3:
                tgt_order = tgt_order[:rng.randint(nv // 2, nv - 1)]     # some names undeclared
            if rng.random() < 0.3:
                tgt_order.insert(rng.randrange(len(tgt_order) + 1), 'x')
            levels = 0
            if rng.random() < 0.2:
                tgt_order, levels = src_order[:], 1      # same levels: `levels=True` is accepted
            auto = rng.random() < 0.3
            cseed = rng.randrange(1 << 30)
            dyn_mid, ref_mid = mid, mid + 1
            mid += 2
            _target(ctx, s, dyn_mid, tgt_order, cseed)
            _target(ctx, s, ref_mid, tgt_order, cseed)
            bd = s.mgr(dyn_mid)
            s.op(dyn_mid, 'configure', 1)
            mode = rng.choice(['threshold', 'fire'])
            if mode == 'threshold':
                thr = rng.choice([1, 1, 2, 3, len(bd) // 2 + 1])
                s.op(dyn_mid, 'set_last_len', thr)
                k = None
            else:
                thr = bd._last_len
                k = rng.randint(1, 3)
                s.op(dyn_mid, 'fire_in', k)
            thr = bd._last_len
            outs = []
            for m_ in (dyn_mid, ref_mid):
                if auto:
                    a_ = s.op(m_, 'pload_auto', fh, f'h{m_}', levels, *fields)
                else:
                    a_ = s.op(m_, 'pload', fh, levels, *fields)
                outs.append(a_)
            bad = []
            tags = dict(call='dyn:load', mode=mode, autoref=auto)
            a_dyn, a_ref = outs
            if a_dyn == 'err NeedsReordering':
                bad.append('the internal reordering signal was raised to the caller')
            if a_dyn != a_ref:
                bad.append(f'load answers differ: enabled {a_dyn[:60]} / disabled {a_ref[:60]}')
            if bd._last_len != thr:
                bad.append(f'_last_len changed from {thr} to {bd._last_len}')
            if bd._reordering_context:
                bad.append('context flag left set')
            if k is not None and implmod._FIRE.get(id(bd)) != k:
                bad.append('_request_reordering was called during load')
            if k is not None:
                s.op(dyn_mid, 'fire_off')
            st_dyn = s.state(dyn_mid)
            st_ref = s.state(ref_mid)
            sect = tuple(x for x in SECTIONS_L3 if x != 'last_len')
            if filter_state(st_dyn, sect) != filter_state(st_ref, sect):
                bad.append('state after load differs from the state with reordering disabled')
            if a_dyn.startswith('ok'):
                got = cd.roots_parse(a_dyn[3:])
                gl = list(got.values()) if isinstance(got, dict) else list(got)
                univ = sorted(set(bd.vars) | set(names))
                try:
                    tt = TT(bd, univ)
                    tt0 = TT(b0, univ)
                    for j, (u, r0) in enumerate(zip(gl, roots)):
                        if tt.of(u) != tt0.of(r0):
                            bad.append(f'root {j} denotes another function')
                except (KeyError, RecursionError) as e:
                    bad.append(f'cannot evaluate the result: {e!r}')
                ledger = dict(s.ledger.get(dyn_mid, {}))
                if auto:
                    for u in gl:
                        ledger[abs(u)] = ledger.get(abs(u), 0) + 1
                bad += check_invariants(bd, ledger)
            else:
                bad.append(f'load raised: {a_dyn}')
            if auto:
                for m_, a_ in ((dyn_mid, a_dyn), (ref_mid, a_ref)):
                    if a_.startswith('ok'):
                        s.op(m_, 'drop', f'h{m_}', a_[3:])
            ctx.evaluations += 1
            ctx.count('load:' + mode)
            if bad:
                ctx.violation('load with reordering enabled is visible', dict(
                    problems=bad[:4], src_order=src_order, tgt_order=tgt_order, roots=roots,
                    threshold=thr, fire=k, lines=list(s.lines), tags=tags))
            ctx.case(('load', rep, variant, tuple(tgt_order), mode, auto))
        if replay:
            ctx.add_session(s, SECTIONS_L3, f'C09 load {nv} vars')
        s.close()
    cd.cleanup()


def extra_C09(ctx):
    """Runs after whichever C09 check is registered (`EXTRAS`).  The load sessions need the dump
    ops on the model side: they are replayed on `ddvdynexpr` (parser driver + dump driver)."""
    import os
    import lib
    _addexpr_sweep(ctx)
    saved = ctx.driver
    have = os.path.exists(os.path.join(lib.LEAN, '.lake', 'build', 'bin', 'ddvdynexpr'))
    if saved != 'ddvdynexpr' and have:
        ctx.flush_model()
        ctx.driver = 'ddvdynexpr'
    _load_sweep(ctx, replay=(ctx.driver == 'ddvdynexpr'))
    if ctx.driver != saved:
        ctx.flush_model()
        ctx.driver = saved


# the base check stays `checks_more.check_C09`; this entry sets the driver that knows the parser
# ops AND the dump ops, and the rule text; the sweeps of this module are `EXTRAS`
REGISTRY = {
    'C09': (cm.check_C09,
            'each decorated operation (incl. add_expr) on random scenarios with the reordering '
            'request fired at k = 1..K (until it no longer fires), compared with the '
            'reordering-disabled run; natural triggering at lowered thresholds in histories; '
            'add_expr on formulas with every construct (\\A \\E \\S ite @n) on 3-6 and 9-12 '
            'variables at every trigger position; pickle load (bdd and autoref) into 9-12 variable '
            'managers with reordering enabled (low thresholds / armed trigger) against the twin '
            'manager with reordering disabled: same answer, same state, trigger never consulted',
            'ddvdynexpr'),
}
EXTRAS = {'C09': [extra_C09]}
