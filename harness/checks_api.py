"""Slice "api": the rest of the PUBLIC surface of the pure-Python package, audited against the
model (table in API_COVERAGE.md).  Protocol ops for the callables no other slice reaches
(`BDD.reduction`, `update_predecessors`, `levels`, `__eq__`, the order views, `__iter__`,
`__str__`, `statistics`, `pick`, the method aliases `exist` / `forall` / `copy`, `cube` on an
iterable, the `Function` methods inherited from `dd._abc.Operator`, `MDD.to_expr`, `MDD.dump`, …)
and generators with independent oracles, registered as `EXTRAS` of the properties they fall under.
The Lean side is the exe `ddvapi` (`lean/DD/ApiCore.lean`, `ApiAuto.lean`, `ApiMdd.lean`,
`ApiDriver.lean`); every line that is not one of this slice's is delegated to the other drivers.
"""
import ast
import copy as _pycopy
import itertools
import os
import re

import lib
import impl as implmod
from impl import (parse_key, parse_pairs, split1, show_bool, OrderedKeys)
from lib import Session, TT, check_invariants, SECTIONS_L3
from funcs import Space, Builder

import checks_auto as ca
import checks_mdd as cmdd
import checks_parse as cparse
from checks_core import (ABC, WIDE_NAMES, fresh, all_functions, warm_up, canon_problems,
                         orders_for, wide_manager, wide_function)
from histories import History

import dd.bdd as _bdd        # noqa: E402
import dd.autoref as _auto   # noqa: E402
import dd.mdd as _mdd        # noqa: E402

DRIVER = 'ddvapi'
# vcheck builds these executables in addition to the property's own driver
EXTRA_DRIVERS = [DRIVER]


# ---------------------------------------------------------------------------
# the protocol on the real code
# ---------------------------------------------------------------------------

def _record_succ_order(b):
    """`list(b._succ)`: the dict order `levels` / `update_predecessors` iterate in."""
    implmod.REC.items.append('succ=' + '.'.join(map(str, b._succ)))


def _fmt_level_item(t):
    u, i, v, w = t
    return f'{u}:{i}:{v}:{w}'


def _op_levels(impl, b, a):
    _record_succ_order(b)
    return ','.join(_fmt_level_item(t) for t in b.levels(a[0] == '1'))


def _op_update_predecessors(impl, b, a):
    _record_succ_order(b)
    b.update_predecessors()
    return '-'


def _op_pred_drop(impl, b, a):
    u = int(a[0])
    if u == 1:
        raise KeyError(u)
    t = b._succ[u]
    b._pred.pop(t, None)
    return '-'


def _op_pred_clear(impl, b, a):
    b._pred = {t: u for t, u in b._pred.items() if u == 1}
    return '-'


def _fmt_var_levels(d):
    return ','.join(f'{v}:{l}' for v, l in sorted(d.items()))


def _op_str(impl, b, a):
    text = str(b)
    m = re.fullmatch(
        r'Binary decision diagram:\n-+\nvar levels: (\{.*\})\nroots: (.*)\n', text)
    if m is None:
        raise RuntimeError('unexpected __str__: ' + text[:80])
    d = ast.literal_eval(m.group(1))
    rs = m.group(2)
    roots = set() if rs == 'set()' else ast.literal_eval(rs)
    return 'vars=' + _fmt_var_levels(d) + ';roots=' + ','.join(map(str, sorted(roots)))


def _pick_answer(r, models):
    if r is None:
        return 'None'
    if any(r == m for m in models):
        return 'member'
    return 'NOT-A-MEMBER:' + implmod.assignment_str(r)


def _op_pick(impl, b, a):
    u = int(a[0])
    care = None if len(a) == 1 else set(split1(a[1]))
    r = b.pick(u, care)
    return _pick_answer(r, list(b.pick_iter(u, care)))


def _op_assert_int(impl, b, a):
    try:
        n = int(a[0])
    except ValueError:
        n = float(a[0])
    return str(b._assert_int(n))


implmod.EXT_OPS.update({
    'levels': _op_levels,
    'update_predecessors': _op_update_predecessors,
    'pred_drop': _op_pred_drop,
    'pred_clear': _op_pred_clear,
    'var_levels': lambda impl, b, a: _fmt_var_levels(b.var_levels),
    'vars': lambda impl, b, a: _fmt_var_levels(b.vars),
    'ordering': lambda impl, b, a: str(b.ordering),
    'iter': lambda impl, b, a: ','.join(map(str, sorted(iter(b)))),
    'str': _op_str,
    'statistics': lambda impl, b, a: '{' + ','.join(f'{k}:{v}' for k, v in sorted(b.statistics().items())) + '}',
    'pick': _op_pick,
    'exist': lambda impl, b, a: str(b.exist(OrderedKeys(map(parse_key, split1(a[0]))), int(a[1]))),
    'forall': lambda impl, b, a: str(b.forall(OrderedKeys(map(parse_key, split1(a[0]))), int(a[1]))),
    'cube_names': lambda impl, b, a: str(b.cube(split1(a[0]) if a else [])),
    'true': lambda impl, b, a: str(b.true),
    'false': lambda impl, b, a: str(b.false),
    'add_int': lambda impl, b, a: str(b._add_int(int(a[0]))),
    'assert_int': _op_assert_int,
    'assert_consistent': lambda impl, b, a: (b.assert_consistent(), '-')[1],
})


def _show_opt_bool(r):
    if r is None:
        return 'None'
    if r is True:
        return '1'
    if r is False:
        return '0'
    return 'NOT-A-BOOL:' + repr(r)[:40]


def _line_reduction(impl, mid, a):
    b = impl.mgrs[mid]
    _record_succ_order(b)
    r = b.reduction()
    impl.mgrs[int(a[0])] = r
    return '-'


def _line_copy_m(impl, mid, a):
    return str(impl.mgrs[mid].copy(int(a[0]), impl.mgrs[int(a[1])]))


def _line_iso_orders(impl, mid, a):
    old = {k: int(v) for k, v in parse_pairs(a[0])}
    new = {k: int(v) for k, v in parse_pairs(a[1])}
    _bdd._assert_isomorphic_orders(old, new, set(split1(a[2])))
    return '-'


implmod.EXT_LINE_OPS.update({
    'reduction': _line_reduction,
    'copy_m': _line_copy_m,
    'mgr_eq': lambda impl, mid, a: _show_opt_bool(impl.mgrs[mid] == impl.mgrs[int(a[0])]),
    'mgr_ne': lambda impl, mid, a: _show_opt_bool(impl.mgrs[mid] != impl.mgrs[int(a[0])]),
    'iso_orders': _line_iso_orders,
    'enum_integer': lambda impl, mid, a: '|'.join(
        '&'.join(f'{k}={v}' for k, v in d.items())
        for d in _mdd._enumerate_integer(split1(a[0]) if a else [])),
})


# -- autoref ------------------------------------------------------------------

def _auto_op(op):
    def run(impl, mid, a):
        a, outs = ca._split_outs(a)
        ab = ca._A(impl)[mid]
        h = lambda s: ca._h(impl, s)      # noqa: E731
        if op == 'f_count':
            f = h(a[0])
            return str(f.count() if len(a) == 1 else f.count(int(a[1])))
        if op in ('f_pick', 'a_pick'):
            f = h(a[0])
            care = None if len(a) == 1 else set(split1(a[1]))
            r = f.pick(care) if op == 'f_pick' else ab.pick(f, care)
            return _pick_answer(r, list(ab.pick_iter(f, care)))
        if op in ('f_exist', 'f_forall'):
            f = h(a[0])
            names = split1(a[1]) if len(a) > 1 else []
            r = f.exist(*names) if op == 'f_exist' else f.forall(*names)
            return ca._store(impl, outs[0], r)
        if op in ('f_let_b', 'f_let_r', 'f_let_n'):
            f = h(a[0])
            ps = parse_pairs(a[1]) if len(a) > 1 else []
            if op == 'f_let_b':
                d = {parse_key(k): (v == '1') for k, v in ps}
            elif op == 'f_let_r':
                d = {k: h(v) for k, v in ps}
            else:
                d = dict(ps)
            r = f.let(**d)
            d = None
            return ca._store(impl, outs[0], r, (f,))
        if op == 'f_hash':
            return str(hash(h(a[0])))
        if op == 'f_str':
            return str(h(a[0]))
        if op == 'a_var_at_level':
            return ab.var_at_level(int(a[0]))
        if op == 'a_level_of_var':
            return str(ab.level_of_var(a[0]))
        if op == 'a_var_levels':
            return _fmt_var_levels(ab.var_levels)
        if op == 'a_add_expr':
            return ca._store(impl, outs[0], ab.add_expr(cparse.unesc(a[0]) if a else ''))
        if op == 'a_assert_consistent':
            ab.assert_consistent()
            return '-'
        if op in ('a_eq', 'a_ne'):
            other = ca._A(impl)[int(a[0])]
            return _show_opt_bool((ab == other) if op == 'a_eq' else (ab != other))
        if op == 'a_str':
            m = re.fullmatch(
                r'Binary decision diagram \(`dd.bdd.BDD` wrapper\):\n-+\n'
                r'\t (\d+) BDD variables\n\t (\d+) nodes\n', str(ab))
            if m is None:
                raise RuntimeError('unexpected __str__')
            return f'{m.group(1)},{m.group(2)}'
        if op == 'a_statistics':
            return '{' + ','.join(f'{k}:{v}' for k, v in sorted(ab.statistics().items())) + '}'
        raise RuntimeError('unknown op ' + op)
    return run


API_AUTO_OPS = ['f_count', 'f_pick', 'a_pick', 'f_exist', 'f_forall', 'f_let_b', 'f_let_r', 'f_let_n',
                'f_hash', 'f_str', 'a_var_at_level', 'a_level_of_var', 'a_var_levels', 'a_add_expr',
                'a_assert_consistent', 'a_eq', 'a_ne', 'a_str', 'a_statistics']
for _op in API_AUTO_OPS:
    implmod.EXT_LINE_OPS[_op] = _auto_op(_op)


# -- MDD ------------------------------------------------------------------------

class _MExprParser:
    """Reads the text `MDD.to_expr` returns into the abstract chain the model produces and prints
    it canonically: `[var:j.j?then;else]`, `!e`, `1`, `0`, `#` (end of a chain); the branches of
    one chain sorted by their LARGEST value (the order of the last occurrences of the distinct
    successors, which is what the model's `dedup` keeps), the values of a branch sorted."""

    def __init__(self, text):
        self.s = text
        self.i = 0

    def eat(self, lit):
        if not self.s.startswith(lit, self.i):
            raise RuntimeError(f'to_expr text: expected {lit!r} at {self.i}: {self.s[self.i:self.i + 30]!r}')
        self.i += len(lit)

    def peek(self, lit):
        return self.s.startswith(lit, self.i)

    def name(self):
        m = re.compile(r'[A-Za-z_][A-Za-z_0-9]*').match(self.s, self.i)
        if m is None:
            raise RuntimeError('to_expr text: name expected')
        self.i = m.end()
        return m.group(0)

    def integer(self):
        m = re.compile(r'\d+').match(self.s, self.i)
        if m is None:
            raise RuntimeError('to_expr text: integer expected')
        self.i = m.end()
        return int(m.group(0))

    def cond(self):
        if self.peek('= '):
            self.eat('= ')
            return [self.integer()]
        self.eat('in {')
        vals = [self.integer()]
        while self.peek(', '):
            self.eat(', ')
            vals.append(self.integer())
        self.eat('}')
        return vals

    def branch(self, kw):
        self.eat(kw + ' (')
        var = self.name()
        self.eat(' ')
        vals = self.cond()
        self.eat('): ')
        e = self.expr()
        return var, vals, e

    def expr(self):
        if self.peek('('):
            self.eat('(')
            neg = self.peek('! ')
            if neg:
                self.eat('! ')
            var, vals, e = self.branch('if')
            self.eat(', ')
            branches = [(vals, e)]
            while self.peek('\nelif'):
                self.eat('\n')
                v2, vals2, e2 = self.branch('elif')
                if v2 != var:
                    raise RuntimeError('to_expr text: branches of one node test different variables')
                branches.append((vals2, e2))
                if self.peek(', '):
                    self.eat(', ')
            self.eat(')')
            branches.sort(key=lambda b: max(b[0]))
            out = '#'
            for vals, e in reversed(branches):
                out = '[' + var + ':' + '.'.join(map(str, sorted(vals))) + '?' + e + ';' + out + ']'
            return ('!' if neg else '') + out
        if self.peek('1'):
            self.eat('1')
            return '1'
        self.eat('0')
        return '0'


def canon_mdd_expr(text):
    p = _MExprParser(text)
    r = p.expr()
    if p.i != len(text):
        raise RuntimeError('to_expr text: trailing characters')
    return r


def eval_canon_mexpr(c, asg):
    """Evaluate the canonical form under `asg` (variable name -> integer); independent of dd."""
    pos = [0]

    def go():
        ch = c[pos[0]]
        if ch in '01#':
            pos[0] += 1
            return ch == '1'
        if ch == '!':
            pos[0] += 1
            return not go()
        assert ch == '['
        j = c.index(':', pos[0])
        var = c[pos[0] + 1:j]
        k = c.index('?', j)
        vals = [int(x) for x in c[j + 1:k].split('.')]
        pos[0] = k + 1
        t = go()
        assert c[pos[0]] == ';'
        pos[0] += 1
        e = go()
        assert c[pos[0]] == ']'
        pos[0] += 1
        return t if asg[var] in vals else e
    r = go()
    assert pos[0] == len(c)
    return r


def _mdd_dot_answer(m):
    g = _mdd._to_dot(m)
    nodes = []
    for level, h in enumerate(g.subgraphs):     # one subgraph per layer `0 .. len(vars)`
        for u, attr in h.nodes.items():
            if isinstance(u, str):
                continue            # the phantom node `"-i"` of the layer
            var = attr['label'].rsplit('-', 1)[0]
            nodes.append((u, level, var))
    edges = []
    for (u, v), attrs in g.edges.items():
        if isinstance(u, str):
            continue
        for attr in attrs:
            edges.append((u, v, int(attr['label']), attr['style'] == 'dashed'))
    ns = ','.join(f'{u}@{l}:{v}' for u, l, v in sorted(nodes))
    es = ','.join(f'{u}>{v}:{j}:{show_bool(c)}' for u, v, j, c in sorted(edges, key=lambda e: (e[0], e[2])))
    return f'N={ns};E={es}'


implmod.EXT_LINE_OPS.update({
    'mdd_to_expr': cmdd._mdd_op(lambda m, a: canon_mdd_expr(m.to_expr(int(a[0])))),
    'mdd_iter': cmdd._mdd_op(lambda m, a: ','.join(map(str, sorted(iter(m))))),
    'mdd_to_dot': cmdd._mdd_op(lambda m, a: _mdd_dot_answer(m)),
})
