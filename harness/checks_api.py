"""Slice "api": the rest of the PUBLIC surface of the pure-Python package, audited against the
model (table in API_COVERAGE.md).  Protocol ops for the callables no other slice reaches
(`BDD.reduction`, `update_predecessors`, `levels`, `__eq__`, the order views, `__iter__`,
`__str__`, `statistics`, `pick`, the method aliases `exist` / `forall` / `copy`, `cube` on an
iterable, the `Function` methods inherited from `dd._abc.Operator`, `MDD.to_expr`, `MDD.dump`, …)
and generators with independent oracles, registered as `EXTRAS` of the properties they fall under.
The Lean side is the exe `ddvapi` (`lean/DD/ApiCore.lean`, `ApiAuto.lean`, `ApiMdd.lean`,
`ApiDriver.lean`); every line that is not one of this slice's is delegated to the other drivers.
"""
import ast
import copy as _pycopy
import itertools
import os
import re

import lib
import impl as implmod
from impl import (parse_key, parse_pairs, split1, show_bool, OrderedKeys)
from lib import Session, TT, check_invariants, SECTIONS_L3
from funcs import Space, Builder

import checks_auto as ca
import checks_mdd as cmdd
import checks_parse as cparse
from checks_core import (ABC, WIDE_NAMES, fresh, all_functions, warm_up, canon_problems,
                         orders_for, wide_manager, wide_function)
from histories import History

import dd.bdd as _bdd        # noqa: E402
import dd.autoref as _auto   # noqa: E402
import dd.mdd as _mdd        # noqa: E402
import dd._copy as _copy     # noqa: E402

DRIVER = 'ddvapi'
# vcheck builds these executables in addition to the property's own driver
EXTRA_DRIVERS = [DRIVER]


# ---------------------------------------------------------------------------
# the protocol on the real code
# ---------------------------------------------------------------------------

def _record_succ_order(b):
    """`list(b._succ)`: the dict order `levels` / `update_predecessors` iterate in."""
    implmod.REC.items.append('succ=' + '.'.join(map(str, b._succ)))


def _fmt_level_item(t):
    u, i, v, w = t
    return f'{u}:{i}:{v}:{w}'


def _op_levels(impl, b, a):
    _record_succ_order(b)
    return ','.join(_fmt_level_item(t) for t in b.levels(a[0] == '1'))


def _op_update_predecessors(impl, b, a):
    _record_succ_order(b)
    b.update_predecessors()
    return '-'


def _op_pred_drop(impl, b, a):
    u = int(a[0])
    if u == 1:
        raise KeyError(u)
    t = b._succ[u]
    b._pred.pop(t, None)
    return '-'


def _op_pred_clear(impl, b, a):
    b._pred = {t: u for t, u in b._pred.items() if u == 1}
    return '-'


def _fmt_var_levels(d):
    return ','.join(f'{v}:{l}' for v, l in sorted(d.items()))


def _op_str(impl, b, a):
    text = str(b)
    m = re.fullmatch(
        r'Binary decision diagram:\n-+\nvar levels: (\{.*\})\nroots: (.*)\n', text)
    if m is None:
        raise RuntimeError('unexpected __str__: ' + text[:80])
    d = ast.literal_eval(m.group(1))
    rs = m.group(2)
    roots = set() if rs == 'set()' else ast.literal_eval(rs)
    return 'vars=' + _fmt_var_levels(d) + ';roots=' + ','.join(map(str, sorted(roots)))


def _pick_answer(r, models):
    if r is None:
        return 'None'
    if any(r == m for m in models):
        return 'member'
    return 'NOT-A-MEMBER:' + implmod.assignment_str(r)


def _op_pick(impl, b, a):
    u = int(a[0])
    care = None if len(a) == 1 else set(split1(a[1]))
    r = b.pick(u, care)
    impl.objs['api_last_pick'] = r
    return _pick_answer(r, list(b.pick_iter(u, care)))


def _op_assert_int(impl, b, a):
    try:
        n = int(a[0])
    except ValueError:
        n = float(a[0])
    return str(b._assert_int(n))


implmod.EXT_OPS.update({
    'levels': _op_levels,
    'update_predecessors': _op_update_predecessors,
    'pred_drop': _op_pred_drop,
    'pred_clear': _op_pred_clear,
    'var_levels': lambda impl, b, a: _fmt_var_levels(b.var_levels),
    'vars': lambda impl, b, a: _fmt_var_levels(b.vars),
    'ordering': lambda impl, b, a: str(b.ordering),
    'iter': lambda impl, b, a: ','.join(map(str, sorted(iter(b)))),
    'str': _op_str,
    'statistics': lambda impl, b, a: '{' + ','.join(f'{k}:{v}' for k, v in sorted(b.statistics().items())) + '}',
    'pick': _op_pick,
    'exist': lambda impl, b, a: str(b.exist(OrderedKeys(map(parse_key, split1(a[0]))), int(a[1]))),
    'forall': lambda impl, b, a: str(b.forall(OrderedKeys(map(parse_key, split1(a[0]))), int(a[1]))),
    'cube_names': lambda impl, b, a: str(b.cube(split1(a[0]) if a else [])),
    'true': lambda impl, b, a: str(b.true),
    'false': lambda impl, b, a: str(b.false),
    'add_int': lambda impl, b, a: str(b._add_int(int(a[0]))),
    'assert_int': _op_assert_int,
    'assert_consistent': lambda impl, b, a: (b.assert_consistent(), '-')[1],
})


def _show_opt_bool(r):
    if r is None:
        return 'None'
    if r is True:
        return '1'
    if r is False:
        return '0'
    return 'NOT-A-BOOL:' + repr(r)[:40]


def _line_reduction(impl, mid, a):
    b = impl.mgrs[mid]
    _record_succ_order(b)
    r = b.reduction()
    impl.mgrs[int(a[0])] = r
    return '-'


def _line_copy_m(impl, mid, a):
    return str(impl.mgrs[mid].copy(int(a[0]), impl.mgrs[int(a[1])]))


def _line_iso_orders(impl, mid, a):
    old = {k: int(v) for k, v in parse_pairs(a[0])}
    new = {k: int(v) for k, v in parse_pairs(a[1])}
    _bdd._assert_isomorphic_orders(old, new, set(split1(a[2])))
    return '-'


implmod.EXT_LINE_OPS.update({
    'reduction': _line_reduction,
    'copy_m': _line_copy_m,
    'mgr_eq': lambda impl, mid, a: _show_opt_bool(impl.mgrs[mid] == impl.mgrs[int(a[0])]),
    'mgr_ne': lambda impl, mid, a: _show_opt_bool(impl.mgrs[mid] != impl.mgrs[int(a[0])]),
    'iso_orders': _line_iso_orders,
    'enum_integer': lambda impl, mid, a: '|'.join(
        '&'.join(f'{k}={v}' for k, v in d.items())
        for d in _mdd._enumerate_integer(split1(a[0]) if a else [])),
})


# -- autoref ------------------------------------------------------------------

def _auto_op(op):
    def run(impl, mid, a):
        a, outs = ca._split_outs(a)
        ab = ca._A(impl)[mid]
        h = lambda s: ca._h(impl, s)      # noqa: E731
        if op == 'f_count':
            f = h(a[0])
            return str(f.count() if len(a) == 1 else f.count(int(a[1])))
        if op in ('f_pick', 'a_pick'):
            f = h(a[0])
            care = None if len(a) == 1 else set(split1(a[1]))
            r = f.pick(care) if op == 'f_pick' else ab.pick(f, care)
            impl.objs['api_last_pick'] = r
            return _pick_answer(r, list(ab.pick_iter(f, care)))
        if op in ('f_exist', 'f_forall'):
            f = h(a[0])
            names = split1(a[1]) if len(a) > 1 else []
            r = f.exist(*names) if op == 'f_exist' else f.forall(*names)
            return ca._store(impl, outs[0], r)
        if op in ('f_let_b', 'f_let_r', 'f_let_n'):
            f = h(a[0])
            ps = parse_pairs(a[1]) if len(a) > 1 else []
            if op == 'f_let_b':
                d = {parse_key(k): (v == '1') for k, v in ps}
            elif op == 'f_let_r':
                d = {k: h(v) for k, v in ps}
            else:
                d = dict(ps)
            r = f.let(**d)
            d = None
            return ca._store(impl, outs[0], r, (f,))
        if op == 'f_hash':
            return str(hash(h(a[0])))
        if op == 'f_str':
            return str(h(a[0]))
        if op == 'a_var_at_level':
            return ab.var_at_level(int(a[0]))
        if op == 'a_level_of_var':
            return str(ab.level_of_var(a[0]))
        if op == 'a_var_levels':
            return _fmt_var_levels(ab.var_levels)
        if op == 'a_add_expr':
            return ca._store(impl, outs[0], ab.add_expr(cparse.unesc(a[0]) if a else ''))
        if op == 'a_assert_consistent':
            ab.assert_consistent()
            return '-'
        if op in ('a_eq', 'a_ne'):
            other = ca._A(impl)[int(a[0])]
            return _show_opt_bool((ab == other) if op == 'a_eq' else (ab != other))
        if op == 'a_str':
            m = re.fullmatch(
                r'Binary decision diagram \(`dd.bdd.BDD` wrapper\):\n-+\n'
                r'\t (\d+) BDD variables\n\t (\d+) nodes\n', str(ab))
            if m is None:
                raise RuntimeError('unexpected __str__')
            return f'{m.group(1)},{m.group(2)}'
        if op == 'a_statistics':
            return '{' + ','.join(f'{k}:{v}' for k, v in sorted(ab.statistics().items())) + '}'
        raise RuntimeError('unknown op ' + op)
    return run


# `a_xcopy` / `a_xcopy_from` (`dd._copy.copy_bdd`, `copy_bdds_from`) live in checks_auto.py

API_AUTO_OPS = ['f_count', 'f_pick', 'a_pick', 'f_exist', 'f_forall', 'f_let_b', 'f_let_r', 'f_let_n',
                'f_hash', 'f_str', 'a_var_at_level', 'a_level_of_var', 'a_var_levels', 'a_add_expr',
                'a_assert_consistent', 'a_eq', 'a_ne', 'a_str', 'a_statistics']
for _op in API_AUTO_OPS:
    implmod.EXT_LINE_OPS[_op] = _auto_op(_op)


# -- MDD ------------------------------------------------------------------------

class _MExprParser:
    """Reads the text `MDD.to_expr` returns into the abstract chain the model produces and prints
    it canonically: `[var:j.j?then;else]`, `!e`, `1`, `0`, `#` (end of a chain); the branches of
    one chain sorted by their LARGEST value (the order of the last occurrences of the distinct
    successors, which is what the model's `dedup` keeps), the values of a branch sorted."""

    def __init__(self, text):
        self.s = text
        self.i = 0

    def eat(self, lit):
        if not self.s.startswith(lit, self.i):
            raise RuntimeError(f'to_expr text: expected {lit!r} at {self.i}: {self.s[self.i:self.i + 30]!r}')
        self.i += len(lit)

    def peek(self, lit):
        return self.s.startswith(lit, self.i)

    def name(self):
        m = re.compile(r'[A-Za-z_][A-Za-z_0-9]*').match(self.s, self.i)
        if m is None:
            raise RuntimeError('to_expr text: name expected')
        self.i = m.end()
        return m.group(0)

    def integer(self):
        m = re.compile(r'\d+').match(self.s, self.i)
        if m is None:
            raise RuntimeError('to_expr text: integer expected')
        self.i = m.end()
        return int(m.group(0))

    def cond(self):
        if self.peek('= '):
            self.eat('= ')
            return [self.integer()]
        self.eat('in {')
        vals = [self.integer()]
        while self.peek(', '):
            self.eat(', ')
            vals.append(self.integer())
        self.eat('}')
        return vals

    def branch(self, kw):
        self.eat(kw + ' (')
        var = self.name()
        self.eat(' ')
        vals = self.cond()
        self.eat('): ')
        e = self.expr()
        return var, vals, e

    def expr(self):
        if self.peek('('):
            self.eat('(')
            neg = self.peek('! ')
            if neg:
                self.eat('! ')
            var, vals, e = self.branch('if')
            self.eat(', ')
            branches = [(vals, e)]
            while self.peek('\nelif'):
                self.eat('\n')
                v2, vals2, e2 = self.branch('elif')
                if v2 != var:
                    raise RuntimeError('to_expr text: branches of one node test different variables')
                branches.append((vals2, e2))
                if self.peek(', '):
                    self.eat(', ')
            self.eat(')')
            branches.sort(key=lambda b: max(b[0]))
            out = '#'
            for vals, e in reversed(branches):
                out = '[' + var + ':' + '.'.join(map(str, sorted(vals))) + '?' + e + ';' + out + ']'
            return ('!' if neg else '') + out
        if self.peek('1'):
            self.eat('1')
            return '1'
        self.eat('0')
        return '0'


def canon_mdd_expr(text):
    p = _MExprParser(text)
    r = p.expr()
    if p.i != len(text):
        raise RuntimeError('to_expr text: trailing characters')
    return r


def eval_canon_mexpr(c, asg):
    """Evaluate the canonical form under `asg` (variable name -> integer); independent of dd."""
    pos = [0]

    def go():
        ch = c[pos[0]]
        if ch in '01#':
            pos[0] += 1
            return ch == '1'
        if ch == '!':
            pos[0] += 1
            return not go()
        assert ch == '['
        j = c.index(':', pos[0])
        var = c[pos[0] + 1:j]
        k = c.index('?', j)
        vals = [int(x) for x in c[j + 1:k].split('.')]
        pos[0] = k + 1
        t = go()
        assert c[pos[0]] == ';'
        pos[0] += 1
        e = go()
        assert c[pos[0]] == ']'
        pos[0] += 1
        return t if asg[var] in vals else e
    r = go()
    assert pos[0] == len(c)
    return r


def parse_mdd_dot(text):
    """Abstract content of the DOT text `MDD.dump(<name>.dot)` writes: nodes `(u, level, variable)`
    (the level = the label of the phantom node of the subgraph the node is listed in), edges
    `(u, v, value, dashed)`."""
    nodes, edges = [], []
    level = None
    for line in text.split('\n'):
        line = line.strip()
        m = re.match(r'^"-(\d+)" \[label="(\d+)", shape="none"\];$', line)
        if m:
            level = int(m.group(2))
            continue
        m = re.match(r'^(\d+) \[label="([^"]*)"\];$', line)
        if m:
            nodes.append((int(m.group(1)), level, m.group(2).rsplit('-', 1)[0]))
            continue
        m = re.match(r'^(\d+) -> (\d+) \[label="(\d+)", style="(\w+)"\];$', line)
        if m:
            edges.append((int(m.group(1)), int(m.group(2)), int(m.group(3)), m.group(4) == 'dashed'))
    return nodes, edges


def _mdd_dot_answer(m):
    os.makedirs(implmod.SCRATCH, exist_ok=True)
    fn = os.path.join(implmod.SCRATCH, f'm{os.getpid()}.dot')
    try:
        m.dump(fn)
        text = open(fn).read()
    finally:
        if os.path.exists(fn):
            os.remove(fn)
    nodes, edges = parse_mdd_dot(text)
    ns = ','.join(f'{u}@{l}:{v}' for u, l, v in sorted(nodes))
    es = ','.join(f'{u}>{v}:{j}:{show_bool(c)}' for u, v, j, c in sorted(edges, key=lambda e: (e[0], e[2])))
    return f'N={ns};E={es}'


def _mdd_dump_kind(m, a):
    """Which file type `MDD.dump(fname)` hands to the DOT writer (nothing is written)."""
    import dd._utils as _utils
    seen = []
    saved = _utils.DotGraph.dump
    _utils.DotGraph.dump = lambda self, filename, filetype, **kw: seen.append(filetype)
    try:
        m.dump(a[0])
    finally:
        _utils.DotGraph.dump = saved
    return seen[0]


def _op_pred_put(impl, b, a):
    i, v, w, u = map(int, a)
    b._pred[(i, v, w)] = u
    return '-'


implmod.EXT_OPS['pred_put'] = _op_pred_put

implmod.EXT_LINE_OPS.update({
    'mdd_to_expr': cmdd._mdd_op(lambda m, a: canon_mdd_expr(m.to_expr(int(a[0])))),
    'mdd_iter': cmdd._mdd_op(lambda m, a: ','.join(map(str, sorted(iter(m))))),
    'mdd_to_dot': cmdd._mdd_op(lambda m, a: _mdd_dot_answer(m)),
    'mdd_dump_kind': cmdd._mdd_op(_mdd_dump_kind),
})


# ===========================================================================
# generators and oracles
# ===========================================================================

import time   # noqa: E402


def _api(fn, cap_quick, frac_thorough=0.08):
    """Run `fn(ctx, t_end)` with this slice's sessions replayed on `ddvapi`."""
    def run(ctx):
        saved = ctx.driver
        ctx.flush_model()
        ctx.driver = DRIVER
        cap = cap_quick if ctx.tier == 'quick' else max(cap_quick, frac_thorough * max(60.0, ctx.time_left()))
        try:
            fn(ctx, time.time() + cap)
        finally:
            ctx.flush_model()
            ctx.driver = saved
    run.__name__ = fn.__name__
    return run


def _letters(n):
    return [chr(ord('a') + i) for i in range(n)]


def _used_history(ctx, wide_p=0.3, steps=(8, 45), weights=None):
    """A manager with a history: collections, swaps, re-used node numbers, so that the insertion
    order of `_succ` is neither ascending nor level by level."""
    rng = ctx.rng
    if rng.random() < wide_p:
        names = rng.sample(WIDE_NAMES, rng.randint(9, 11))
    else:
        names = _letters(rng.randint(2, 5))
    h = History(ctx, names)
    w = weights or dict(var=4, apply=8, ite=3, foa=1, quantify=1, hold=4, release=1.5, gc=1.5,
                        swap=1.2, order=0.3)
    for _ in range(rng.randint(*steps)):
        h.step(w)
    h.prune()
    return h, names


def _work_on(ctx, s, mid, names, ledger, n, label, lines_tag):
    """A few `ite` calls in manager `mid`, each compared with the truth tables; structure, counts
    and canonicity after every call.  Returns a list of problems."""
    rng = ctx.rng
    b = s.mgr(mid)
    sp = Space(names)
    pool = [1, -1] + [u for u in b._succ if u != 1] + [-u for u in b._succ if u != 1]
    for _ in range(n):
        tt = TT(b, names)
        g, u, v = (rng.choice(pool) for _ in range(3))
        want = sp.ite(tt.of(g), tt.of(u), tt.of(v))
        ans = s.op(mid, 'ite', g, u, v)
        r = s.val(ans)
        ctx.evaluations += 1
        if r is None or TT(b, names).of(r) != want:
            return [f'{label}: ite({g},{u},{v}) = {ans}, wrong function']
        if r not in pool:
            pool += [r, -r]
        bad = check_invariants(b, ledger) or canon_problems(b, names)
        if bad:
            return [f'{label}: ' + x for x in bad[:3]]
    return []


# ---------------------------------------------------------------------------
# C02 — reduction, update_predecessors, manager comparisons
# ---------------------------------------------------------------------------

def _reductions(ctx, t_end):
    """`BDD.reduction()`: a used manager with `roots` is copied bottom-up into a NEW manager.
    Oracles: the new manager by structure, exact counts for an EMPTY ledger (nothing is held in
    it), unique table probed through `find_or_add`, canonicity; the same number of nodes as the
    (canonical) source and the same set of functions; `roots` = the functions of the source's roots;
    source untouched (full state text); then both managers go on working."""
    rng = ctx.rng
    k = 0
    while time.time() < t_end and ctx.time_left() > 3 and k < (400 if ctx.tier == "quick" else 4000):
        k += 1
        h, names = _used_history(ctx)
        s, b = h.s, h.b
        pool = [u for u in h.pool if h.live(u)]
        roots = set(rng.sample(pool, min(len(pool), rng.randint(0, 4))))
        roots |= {-u for u in list(roots) if rng.random() < 0.3}
        bad_root = rng.random() < 0.12
        if bad_root:
            roots.add(rng.choice([1, -1]) * (max(b._succ) + rng.randint(1, 9)))
        s.op(0, 'set_roots', ','.join(map(str, sorted(roots))))
        dyn = rng.random() < 0.3
        if dyn:
            # dynamic reordering enabled in the source (threshold low): `reduction` is decorated
            # with `_try_to_reorder`, but every `find_or_add` is a call on the NEW manager
            s.op(0, 'configure', 1)
            s.op(0, 'set_last_len', rng.randint(1, 3))
        before = implmod.dump_state(b)
        tt_src = TT(b, names)
        src_fns = {tt_src.of(u) for u in b._succ}
        ans = s.op(0, 'reduction', 1)
        if dyn:
            after_dyn = implmod.dump_state(b)
            s.op(0, 'configure', 0)
            if after_dyn != before:
                ctx.violation('BDD.reduction() with reordering enabled changed the manager', dict(
                    lines=list(s.lines), tags=dict(call='reduction', symptom='dyn')))
            before = implmod.dump_state(b)
        ctx.evaluations += 1
        bad = []
        if implmod.dump_state(b) != before:
            bad.append('reduction() changed the manager it was called on')
        if bad_root:
            if ans != 'err KeyError' or 1 in s.impl.mgrs:
                bad.append(f'reduction() with a root that is not a node: {ans}')
        elif ans != 'ok -':
            bad.append(f'reduction() raised: {ans}')
        else:
            nb = s.mgr(1)
            s.ledger[1] = {}
            tt_new = TT(nb, names)
            bad += check_invariants(nb, {}, probe=True)
            bad += canon_problems(nb, names)
            if nb is b or nb._succ is b._succ or nb._pred is b._pred or nb._ref is b._ref:
                bad.append('the new manager shares a table with the source')
            if dict(nb.vars) != dict(b.vars) or nb._level_to_var != b._level_to_var:
                bad.append(f'variable order of the copy {nb.vars} differs from {b.vars}')
            if {tt_new.of(r) for r in nb.roots} != {tt_src.of(v) for v in roots} or len(nb.roots) != len(roots):
                bad.append(f'roots {sorted(roots)} became {sorted(nb.roots)}: not the same functions')
            if {tt_new.of(u) for u in nb._succ} != src_fns:
                bad.append('the nodes of the copy do not denote the functions of the nodes of the source')
            if len(nb) != len(b):
                bad.append(f'{len(nb)} nodes in the copy of a reduced manager with {len(b)}')
            if nb._ite_table or nb._last_len is not None or nb._reordering_context:
                bad.append('the new manager starts with a computed table / reordering enabled')
            if not bad:
                bad += _work_on(ctx, s, 1, names, {}, rng.randint(2, 6), 'copy', 'reduction')
                bad += _work_on(ctx, s, 0, names, h.ledger(), rng.randint(1, 3), 'source', 'reduction')
            s.state(1)
        s.state(0)
        if bad:
            ctx.violation('BDD.reduction(): ' + bad[0], dict(
                problems=bad[:4], roots=sorted(roots), lines=list(s.lines),
                tags=dict(call='reduction', symptom=('bad-root' if bad_root else 'copy'))))
        ctx.case(('reduction', len(names), len(b), tuple(sorted(roots))[:4], bad_root))
        ctx.count('reduction')
        ctx.add_session(s, SECTIONS_L3, 'C02 reduction')
        s.close()
    # an order with a gap (finding F7): the constructor inside `reduction` refuses it
    s = fresh(ctx, ABC)
    s.op(0, 'add_var', 'z', 7)
    s.op(0, 'var', 'a')
    s.op(0, 'reduction', 1)
    s.state(0)
    ctx.add_session(s, SECTIONS_L3, 'C02 reduction, order with a gap')
    s.close()


def _update_predecessors(ctx, t_end):
    """`update_predecessors()` after entries of `_pred` were lost (the situation the class
    docstring names: nodes put into `_succ` without `find_or_add`).  Oracles: `_pred` is exactly the
    inverse of `_succ` again; `find_or_add` of every stored triple returns the stored node and
    creates nothing; then the manager goes on working (truth tables, canonicity, counts)."""
    rng = ctx.rng
    k = 0
    while time.time() < t_end and ctx.time_left() > 3 and k < (400 if ctx.tier == "quick" else 4000):
        k += 1
        h, names = _used_history(ctx)
        s, b = h.s, h.b
        nodes = [u for u in b._succ if u != 1]
        if rng.random() < 0.4 or not nodes:
            s.op(0, 'pred_clear')
            lost = len(nodes)
        else:
            drop = rng.sample(nodes, rng.randint(1, len(nodes)))
            for u in drop:
                s.op(0, 'pred_drop', u)
            lost = len(drop)
        stale = rng.random() < 0.15
        if stale:
            # an entry that names something which is no stored node: the loop only WRITES entries,
            # so it survives (`updatePredecessors_spec`, second clause) and `assert_consistent` says so
            s.op(0, 'pred_put', 0, -1, max(b._succ) + 7, max(b._succ) + 9)
        s.state(0)
        ans = s.op(0, 'update_predecessors')
        ctx.evaluations += 1
        bad = []
        if ans != 'ok -':
            bad.append(f'update_predecessors() raised: {ans}')
        elif stale:
            if s.op(0, 'assert_consistent') != 'err AssertionError':
                bad.append('assert_consistent() accepts a unique table with an entry for no node')
            if any(b._pred.get(t) != u for u, t in b._succ.items()):
                bad.append('a stored node lost its entry')
        else:
            if b._pred != {t: u for u, t in b._succ.items()}:
                bad.append('_pred is not the inverse of _succ after update_predecessors()')
            bad += check_invariants(b, h.ledger(), probe=True)
            if not bad:
                bad += _work_on(ctx, s, 0, names, h.ledger(), rng.randint(2, 8), 'after', 'update_predecessors')
        s.state(0)
        if bad:
            ctx.violation('BDD.update_predecessors(): ' + bad[0], dict(
                problems=bad[:4], lost=lost, lines=list(s.lines),
                tags=dict(call='update_predecessors')))
        ctx.case(('update_predecessors', len(names), len(b), lost))
        ctx.count('update_predecessors')
        ctx.add_session(s, SECTIONS_L3, 'C02 update_predecessors')
        s.close()


def _manager_comparisons(ctx, t_end):
    """`==` / `!=` between `dd.bdd.BDD` managers (a manager, itself, its copy, its reduction) and
    between `dd.autoref.BDD` managers.  What the comparison of `dd.bdd.BDD` computes is recorded as
    an observation, not a violation (no property speaks about comparing managers)."""
    s = ca.ASession(ctx)
    s.new(0, ABC)
    s.op(0, 'var', 'a')
    s.op(0, 'mcopy', 1)
    s.op(0, 'reduction', 2)
    seen = set()
    for x in (0, 1, 2):
        for y in (0, 1, 2):
            seen.add((x == y, s.op(x, 'mgr_eq', y), s.op(x, 'mgr_ne', y)))
    s.op(3, 'a_new', 'a=0')
    s.op(4, 'a_new', 'a=0')
    for x in (3, 4):
        for y in (3, 4):
            a1, a2 = s.op(x, 'a_eq', y), s.op(x, 'a_ne', y)
            if (a1, a2) != (('ok 1', 'ok 0') if x == y else ('ok 0', 'ok 1')):
                ctx.violation('autoref.BDD comparison', dict(
                    got=(a1, a2), lines=list(s.lines), tags=dict(call='autoref.BDD.__eq__')))
    ctx.evaluations += 13
    note = 'dd.bdd.BDD.__eq__ (inherited stub of dd._abc.BDD): (same object, ==, !=) observed = ' + repr(sorted(seen))
    if note not in ctx.notes:
        ctx.notes.append(note)
    ctx.case(('manager comparisons',))
    ctx.add_session(s, SECTIONS_L3, 'C02 manager comparisons')
    s.close()


def extra_C02(ctx, t_end):
    half = time.time() + (t_end - time.time()) * 0.55
    _reductions(ctx, half)
    _update_predecessors(ctx, t_end)
    _manager_comparisons(ctx, t_end)


# ---------------------------------------------------------------------------
# C18 — levels, iteration, text;  C14 — order views
# ---------------------------------------------------------------------------

def _levels_problems(b, skip, ans):
    if not ans.startswith('ok'):
        return [f'levels({skip}) raised: {ans}']
    items = []
    for it in split1(ans[3:]):
        u, i, v, w = it.split(':')
        items.append((int(u), int(i), None if v == 'None' else int(v), None if w == 'None' else int(w)))
    bad = []
    want = {(u, t[0], t[1], t[2]) for u, t in b._succ.items() if not (skip and u == 1)}
    if len(items) != len(set(x[0] for x in items)):
        bad.append('a node is yielded twice')
    if set(items) != want:
        bad.append(f'yielded {sorted(set(items) ^ want)[:4]} differ from the stored nodes')
    lv = [x[1] for x in items]
    if any(lv[k] < lv[k + 1] for k in range(len(lv) - 1)):
        bad.append('levels increase along the sequence (must go from the terminals to the roots)')
    return bad


def extra_C18(ctx, t_end):
    """`levels(skip_terminals)`, `iter(bdd)`, `len(bdd)`, `str(bdd)` on used managers (dict order of
    `_succ` neither ascending nor by level).  Oracle: read from `_succ`."""
    rng = ctx.rng
    k = 0
    while time.time() < t_end and ctx.time_left() > 3 and k < (50 if ctx.tier == 'quick' else 2000):
        k += 1
        h, names = _used_history(ctx)
        s, b = h.s, h.b
        roots = [u for u in h.pool if h.live(u)][:rng.randint(0, 3)]
        s.op(0, 'set_roots', ','.join(map(str, roots)))
        bad = []
        for skip in (0, 1):
            bad += _levels_problems(b, bool(skip), s.op(0, 'levels', skip))
        a = s.op(0, 'iter')
        if a != 'ok ' + ','.join(map(str, sorted(b._succ))):
            bad.append(f'iter(bdd) = {a}')
        a = s.op(0, 'len')
        if a != f'ok {len(b._succ)}':
            bad.append(f'len(bdd) = {a}')
        a = s.op(0, 'str')
        if a != 'ok vars=' + _fmt_var_levels(b.vars) + ';roots=' + ','.join(map(str, sorted(set(roots)))):
            bad.append(f'str(bdd) = {a}')
        s.op(0, 'statistics')
        ctx.evaluations += 5
        if bad:
            ctx.violation('structural view: ' + bad[0], dict(
                problems=bad[:4], lines=list(s.lines), tags=dict(call='levels/iter/str')))
        ctx.case(('levels', len(names), len(b)))
        ctx.count('levels')
        ctx.add_session(s, SECTIONS_L3, 'C18 levels / iter / str')
        s.close()


def _iso_oracle(old, new, support):
    so = sorted((k for k in old if k in support), key=old.get)
    sn = sorted((k for k in new if k in support), key=new.get)
    valid = all(sorted(d.values()) == list(range(len(d))) for d in (old, new))
    return valid and so == sn


def extra_C14(ctx, t_end):
    """The views of the order — `vars`, `var_levels`, `ordering`, and through `dd.autoref`
    `var_levels`, `var_at_level`, `level_of_var` — after declarations, swaps, reorderings and
    removals; `_assert_isomorphic_orders` against a direct comparison."""
    rng = ctx.rng
    k = 0
    while time.time() < t_end and ctx.time_left() > 3 and k < (40 if ctx.tier == 'quick' else 1500):
        k += 1
        s = ca.ASession(ctx)
        names = _letters(rng.randint(1, 5)) if rng.random() < 0.7 else rng.sample(WIDE_NAMES, rng.randint(9, 11))
        order = names[:]
        rng.shuffle(order)
        s.op(0, 'a_new', ','.join(f'{v}={i}' for i, v in enumerate(order)))
        b = s.mgr(0)
        bad = []
        for _ in range(rng.randint(2, 10)):
            r = rng.random()
            cur = sorted(b.vars)
            if r < 0.25 or not cur:
                s.op(0, 'declare', f'n{len(cur)}')
            elif r < 0.5 and len(cur) >= 2:
                i = rng.randrange(len(cur) - 1)
                s.op(0, 'swap', f'l:{i}', f'l:{i + 1}')
            elif r < 0.65 and len(cur) >= 2:
                perm = cur[:]
                rng.shuffle(perm)
                s.op(0, 'reorder', ','.join(f'{v}={i}' for i, v in enumerate(perm)))
            elif r < 0.8:
                s.op(0, 'var', rng.choice(cur))
            else:
                s.op(0, 'undeclare', rng.choice(cur))
            want = _fmt_var_levels({v: l for l, v in b._level_to_var.items()})
            for op in ('var_levels', 'vars', 'a_var_levels'):
                a = s.op(0, op)
                if a != 'ok ' + want:
                    bad.append(f'{op} = {a}, _level_to_var says {want}')
            if s.op(0, 'ordering') != 'err OtherError':
                bad.append('bdd.ordering did not raise')
            n = len(b.vars)
            for lvl in (rng.randrange(n) if n else 0, n, -1):
                a = s.op(0, 'a_var_at_level', lvl)
                w = ('ok ' + b._level_to_var[lvl]) if lvl in b._level_to_var else 'err ValueError'
                if a != w:
                    bad.append(f'var_at_level({lvl}) = {a}')
            for v in ([rng.choice(sorted(b.vars))] if b.vars else []) + ['nope']:
                a = s.op(0, 'a_level_of_var', v)
                w = next((f'ok {l}' for l, x in b._level_to_var.items() if x == v), 'err ValueError')
                if a != w:
                    bad.append(f'level_of_var({v}) = {a}')
            ctx.evaluations += 9
        # _assert_isomorphic_orders
        cur = sorted(b.vars)
        for _ in range(3):
            old = dict(b.vars)
            perm = cur[:]
            rng.shuffle(perm)
            new = {v: i for i, v in enumerate(perm)}
            if rng.random() < 0.15 and new:
                new[perm[0]] = len(perm) + 1       # not contiguous
            supp = rng.sample(cur, rng.randint(0, len(cur)))
            a = s.op(0, 'iso_orders', ','.join(f'{k_}={v}' for k_, v in old.items()),
                     ','.join(f'{k_}={v}' for k_, v in new.items()), ','.join(supp))
            w = 'ok -' if _iso_oracle(old, new, set(supp)) else 'err AssertionError'
            if a != w:
                bad.append(f'_assert_isomorphic_orders({old}, {new}, {supp}) = {a}, expected {w}')
        bad += check_invariants(b, None)
        # (`autoref.BDD.vars` is the dict object captured at construction; `undeclare_vars` — not
        # offered by `autoref.BDD`, called here on the wrapped manager — rebinds `vars`, after which
        # the wrapper's `vars` / `__str__` are stale: `a_str` only in sessions without removals)
        if not any(ln.split('\t')[1] == 'undeclare' for ln in s.lines[1:]):
            s.op(0, 'a_str')
        s.op(0, 'state')
        if bad:
            ctx.violation('order views: ' + bad[0], dict(
                problems=bad[:4], lines=list(s.lines), tags=dict(call='order-views')))
        ctx.case(('order views', tuple(order)[:6], len(s.lines)))
        ctx.count('order-views')
        ctx.add_session(s, SECTIONS_L3, 'C14 order views')
        s.close()


# ---------------------------------------------------------------------------
# C03 / C11 / C10 — the method aliases `exist`, `forall`, `copy`, `pick`, `cube(iterable)`
# ---------------------------------------------------------------------------

def extra_C03(ctx, t_end):
    """`BDD.exist(qvars, u)` / `BDD.forall(qvars, u)` and `Function.exist(*vars)` /
    `Function.forall(*vars)`: every function of 3 variables x every subset, keys as names or levels;
    managers with 9-12 variables."""
    rng = ctx.rng
    sp = Space(ABC)
    subsets = [list(c) for r in range(4) for c in itertools.combinations(ABC, r)]
    for order in orders_for(ctx, ABC, quick_n=1):
        s = ca.ASession(ctx)
        s.op(0, 'a_new', ','.join(f'{v}={i}' for i, v in enumerate(order)))
        b = s.mgr(0)
        refs = all_functions(s, sp)
        tt = TT(b, ABC)
        hid = 0
        for t, r in refs.items():
            if time.time() > t_end:
                break
            for q in subsets:
                for fa in (0, 1):
                    want = sp.forall(t, q) if fa else sp.exists(t, q)
                    form = rng.randrange(3)
                    if form == 2 and (t % 8 == 0):
                        # through `Function`
                        hid += 2
                        s.op(0, 'a_add_int', r, '->', f'h{hid}')
                        ans = s.op(0, 'f_forall' if fa else 'f_exist', f'h{hid}', ','.join(q), '->', f'h{hid + 1}')
                        res = s.val(ans)
                        s.op(0, 'a_drop', f'h{hid}')
                        if res is not None:
                            s.op(0, 'a_drop', f'h{hid + 1}')
                    else:
                        keys = ','.join(('n:' + v) if form == 0 else f'l:{b.vars[v]}' for v in q)
                        ans = s.op(0, 'forall' if fa else 'exist', keys, r)
                        res = s.val(ans)
                    ctx.evaluations += 1
                    if res is None or tt.of(res) != want:
                        ctx.violation('exist/forall method gives another function than the quantification', dict(
                            order=order, function=t, qvars=q, forall=fa, form=form, got=ans,
                            lines=list(s.lines), tags=dict(call='BDD.exist/forall', form=form)))
            ctx.case(('exist/forall', tuple(order), t))
        s.op(0, 'state')
        ctx.add_session(s, SECTIONS_L3, 'C03 exist/forall methods')
        s.close()
    for _ in range(4 if ctx.tier == 'quick' else 60):
        if time.time() > t_end:
            break
        s, order = wide_manager(ctx, 'C03 api')
        for _ in range(6):
            sp2, sub, t, r = wide_function(ctx, s, order)
            q = rng.sample(sub, rng.randint(0, len(sub))) + rng.sample(order, rng.randint(0, 2))
            q = sorted(set(q))
            fa = rng.randint(0, 1)
            want = sp2.forall(t, [v for v in q if v in sub]) if fa else sp2.exists(t, [v for v in q if v in sub])
            ans = s.op(0, 'forall' if fa else 'exist', ','.join('n:' + v for v in q), r)
            res = s.val(ans)
            ctx.evaluations += 1
            if res is None or TT(s.mgr(0), sub).of(res) != want:
                ctx.violation('exist/forall method on a wide manager', dict(
                    order=order, sub=sub, function=t, qvars=q, forall=fa, got=ans, lines=list(s.lines),
                    tags=dict(call='BDD.exist/forall', form='wide')))
            ctx.case(('exist/forall wide', tuple(sub), t, tuple(q), fa))
        ctx.add_session(s, SECTIONS_L3, 'C03 exist/forall wide')
        s.close()


def extra_C11(ctx, t_end):
    """`BDD.copy(u, other)`: functions of 3 variables between managers of different orders, targets
    with extra variables and nodes of their own."""
    rng = ctx.rng
    sp = Space(ABC)
    perms = list(itertools.permutations(ABC))
    k = 0
    while time.time() < t_end and k < (12 if ctx.tier == 'quick' else 300):
        k += 1
        so, to = rng.choice(perms), list(rng.choice(perms))
        extra = rng.random() < 0.5
        if extra:
            to.insert(rng.randrange(4), 'x')
        s = Session(ctx)
        s.new(0, so)
        s.new(1, to)
        if rng.random() < 0.5:
            warm_up(ctx, s, ABC, steps=8)
        bld = Builder(s)
        for t in rng.sample(range(256), 24):
            r = bld.build(sp, t)
            if rng.random() < 0.5:
                r = -r
                t = sp.neg(t)
            ans = s.op(0, 'copy_m', r, 1)
            res = s.val(ans)
            ctx.evaluations += 1
            if res is None or TT(s.mgr(1), ABC).of(res) != t:
                ctx.violation('BDD.copy gives another function of the variable names', dict(
                    src_order=so, tgt_order=to, function=t, got=ans, lines=list(s.lines),
                    tags=dict(call='BDD.copy')))
            ctx.case(('copy_m', so, tuple(to), t))
        bad = check_invariants(s.mgr(1), None, probe=True) or canon_problems(s.mgr(1), sorted(to))
        if bad:
            ctx.violation('BDD.copy: target damaged', dict(problems=bad[:3], lines=list(s.lines),
                                                           tags=dict(call='BDD.copy', symptom='target')))
        s.state(0)
        s.state(1)
        ctx.add_session(s, SECTIONS_L3, 'C11 copy method')
        s.close()


def _pick_value_problems(sp, t, supp, care, r):
    """`r` = what `pick` returned (dict or None) for the function with table `t`."""
    if r is None:
        return None if t == 0 else 'pick returned None for a satisfiable function'
    if t == 0:
        return f'pick returned {r} for the constant false'
    if sp.eval_partial(t, r) != {True}:
        return f'assignment {r} does not force the function true'
    if care is None:
        if set(r) != set(supp):
            return f'assignment {r} is not over the support {sorted(supp)}'
    elif not set(care) <= set(r):
        return f'assignment {r} misses a care variable'
    return None


def extra_C10(ctx, t_end):
    """`BDD.pick` (inherited from `dd._abc.BDD`), `Function.pick`, `Function.count`,
    `autoref.BDD.pick`, `cube` on an iterable of names: every function of 3 variables, care sets
    below / equal / above the support, `n` from below the support to support + 3; 9-12 variables."""
    rng = ctx.rng
    sp = Space(ABC)
    for order in orders_for(ctx, ABC, quick_n=1):
        s = ca.ASession(ctx)
        s.op(0, 'a_new', ','.join(f'{v}={i}' for i, v in enumerate(order)))
        refs = all_functions(s, sp)
        hid = 0
        for t, r in refs.items():
            if time.time() > t_end:
                break
            supp = sp.support(t)
            for sign in (1, -1):
                tt_, u = (t, r) if sign == 1 else (sp.neg(t), -r)
                cares = [None, sorted(supp), ABC, sorted(rng.sample(ABC, rng.randint(0, 3)))]
                care = rng.choice(cares)
                via = rng.randrange(3)
                args = [] if care is None else [','.join(care)]
                if via == 0:
                    ans = s.op(0, 'pick', u, *args)
                else:
                    hid += 1
                    s.op(0, 'a_add_int', u, '->', f'h{hid}')
                    ans = s.op(0, 'f_pick' if via == 1 else 'a_pick', f'h{hid}', *args)
                val = s.impl.objs.get('api_last_pick')
                ctx.evaluations += 1
                p = None
                if ans not in ('ok member', 'ok None'):
                    p = f'pick answered {ans}'
                elif care is not None and not supp <= set(care):
                    pass   # a care set below the support: documented as "logs a warning"
                else:
                    p = _pick_value_problems(sp, tt_, supp, care, val)
                if p:
                    ctx.violation('pick: ' + p, dict(
                        order=order, function=tt_, care=care, via=via, got=ans, lines=list(s.lines),
                        tags=dict(call='pick', via=via)))
                if via != 0:
                    n = rng.choice([None, len(supp) - 1, len(supp), len(supp) + 1, len(supp) + 3])
                    if n is not None and n < 0:
                        n = None
                    ans = s.op(0, 'f_count', f'h{hid}', *([] if n is None else [n]))
                    if n is not None and n < len(supp):
                        want = 'err ValueError'
                    else:
                        nn = len(supp) if n is None else n
                        want = f'ok {(sp.count(tt_) >> (3 - len(supp))) << (nn - len(supp))}'
                    ctx.evaluations += 1
                    if ans != want:
                        ctx.violation('Function.count', dict(
                            order=order, function=tt_, n=n, got=ans, expected=want, lines=list(s.lines),
                            tags=dict(call='Function.count')))
                    for q in ('f_hash', 'f_str'):
                        a = s.op(0, q, f'h{hid}')
                        # (CPython never returns the hash -1: the constant false hashes to -2)
                        if a != ('ok ' + ('@' + str(u) if q == 'f_str' else str(-2 if u == -1 else u))):
                            ctx.violation(q, dict(got=a, node=u, lines=list(s.lines), tags=dict(call=q)))
                    s.op(0, 'a_drop', f'h{hid}')
            ctx.case(('pick/count', tuple(order), t))
        # cube on an iterable of names
        for _ in range(6):
            vs = [rng.choice(ABC) for _ in range(rng.randint(0, 4))]
            ans = s.op(0, 'cube_names', *([','.join(vs)] if vs else []))
            res = s.val(ans)
            want = sp.full
            for v in vs:
                want &= sp.masks[v]
            if res is None or TT(s.mgr(0), ABC).of(res) != want:
                ctx.violation('cube(iterable of names)', dict(names=vs, got=ans, lines=list(s.lines),
                                                              tags=dict(call='cube-iterable')))
        s.op(0, 'a_state')
        ctx.add_session(s, ca.SECTIONS_A, 'C10 pick / Function.count')
        s.close()
    for _ in range(3 if ctx.tier == 'quick' else 40):
        if time.time() > t_end:
            break
        s, order = wide_manager(ctx, 'C10 api')
        for _ in range(6):
            sp2, sub, t, r = wide_function(ctx, s, order)
            supp = sp2.support(t)
            care = None if rng.random() < 0.5 else sorted(supp | set(rng.sample(order, rng.randint(0, 2))))
            ans = s.op(0, 'pick', r, *([] if care is None else [','.join(care)]))
            val = s.impl.objs.get('api_last_pick')
            ctx.evaluations += 1
            p = (f'pick answered {ans}' if ans not in ('ok member', 'ok None')
                 else _pick_value_problems(sp2, t, supp, care, val))
            if p:
                ctx.violation('pick on a wide manager: ' + p, dict(
                    order=order, sub=sub, function=t, care=care, got=ans, lines=list(s.lines),
                    tags=dict(call='pick', via='wide')))
            ctx.case(('pick wide', tuple(sub), t))
        ctx.add_session(s, SECTIONS_L3, 'C10 pick wide')
        s.close()


# ---------------------------------------------------------------------------
# C08 — `Function` methods inherited from `dd._abc.Operator`, `autoref.BDD.add_expr`
# ---------------------------------------------------------------------------

def extra_C08(ctx, t_end):
    """Histories over `dd.autoref` in which the mixin methods `f.exist`, `f.forall`, `f.let`,
    `f.count`, `f.pick`, `hash(f)`, `str(f)` and `bdd.add_expr`, `bdd.pick` are called next to the
    other operations, drops and collections.  Oracles of C08 after every call (counts = stored edges
    + live `Function`s, every live `Function` keeps its function) + the truth table of each result."""
    import sys
    rng = ctx.rng
    old_hook = sys.unraisablehook
    sys.unraisablehook = ca._hook
    try:
        k = 0
        while time.time() < t_end and ctx.time_left() > 3 and k < (25 if ctx.tier == 'quick' else 800):
            k += 1
            names = ca.UNIVERSE[:rng.randint(2, 4)]
            h = ca.AHistory(ctx, names, every_state=False)
            w = dict(var=5, const=1, apply=8, ite=2, fop=3, drop=5, gc=2, dup=2, order=0.5)
            sp = Space(ca.UNIVERSE)
            for _ in range(rng.randint(10, 40)):
                if h.bad:
                    break
                if rng.random() < 0.55:
                    h.step(w)
                    continue
                b = h.b()
                x = h.pick()
                u = h.live[x][1]
                t = TT(b, ca.UNIVERSE).of(u)
                r = rng.random()
                want = None
                out = h.fresh()
                if r < 0.2:
                    vs = rng.sample(names, rng.randint(0, len(names)))
                    fa = rng.random() < 0.5
                    ans = h.call(0, 'f_forall' if fa else 'f_exist', f'h{x}', *([','.join(vs)] if vs else []), outs=[out])
                    want = sp.forall(t, vs) if fa else sp.exists(t, vs)
                elif r < 0.3:
                    vs = rng.sample(names, rng.randint(1, len(names)))
                    d = {v: rng.randint(0, 1) for v in vs}
                    ans = h.call(0, 'f_let_b', f'h{x}', ','.join(f'n:{v}={c}' for v, c in d.items()), outs=[out])
                    want = t
                    for v, c in d.items():
                        want = sp.cof(want, v, c)
                elif r < 0.4:
                    vs = rng.sample(names, rng.randint(1, len(names)))
                    d = {v: rng.choice(names) for v in vs}
                    ans = h.call(0, 'f_let_n', f'h{x}', ','.join(f'{v}={c}' for v, c in d.items()), outs=[out])
                    want = sp.rename(t, d)
                elif r < 0.5:
                    vs = rng.sample(names, rng.randint(1, len(names)))
                    d = {v: h.pick() for v in vs}
                    ans = h.call(0, 'f_let_r', f'h{x}', ','.join(f'{v}=h{c}' for v, c in d.items()), outs=[out])
                    want = sp.compose(t, {v: TT(b, ca.UNIVERSE).of(h.live[c][1]) for v, c in d.items()})
                elif r < 0.55:
                    ans = h.call(0, 'f_let_b', f'h{x}', outs=[out])      # no definitions: the operand itself
                    if ans != f'ok {u} alias':
                        ctx.violation('Function.let() without definitions', dict(
                            got=ans, lines=list(h.s.lines), tags=dict(call='Function.let', form='empty')))
                    continue
                elif r < 0.7:
                    vs = rng.sample(names, 2) if len(names) >= 2 else names * 2
                    text = rng.choice([f'{vs[0]} /\\ ~ {vs[1]}', f'@{u} \\/ {vs[0]}', f'\\E {vs[0]}: @{u}',
                                       f'{vs[0]} /\\', f'ite({vs[0]}, @{u}, {vs[1]})', 'zz'])
                    ans = h.call(0, 'a_add_expr', cparse.esc(text), outs=[out])
                    m = sp.masks
                    want = {0: m[vs[0]] & sp.neg(m[vs[1]]), 1: t | m[vs[0]], 2: sp.exists(t, [vs[0]]),
                            4: sp.ite(m[vs[0]], t, m[vs[1]])}.get(
                        [f'{vs[0]} /\\ ~ {vs[1]}', f'@{u} \\/ {vs[0]}', f'\\E {vs[0]}: @{u}',
                         f'{vs[0]} /\\', f'ite({vs[0]}, @{u}, {vs[1]})', 'zz'].index(text))
                    if want is None:
                        if not ans.startswith('err'):
                            ctx.violation('add_expr accepted a malformed / undeclared formula', dict(
                                text=text, got=ans, lines=list(h.s.lines), tags=dict(call='autoref.add_expr')))
                        continue
                else:
                    q = rng.choice(['f_count', 'f_pick', 'a_pick', 'f_hash', 'f_str'])
                    h.call(0, q, f'h{x}')
                    continue
                res = h.s.val(ans.split(' alias')[0]) if ans.startswith('ok') else None
                if res is None or TT(b, ca.UNIVERSE).of(res) != want:
                    ctx.violation('Function mixin method gives another function', dict(
                        call=h.s.lines[-1], got=ans, lines=list(h.s.lines),
                        tags=dict(call='Function-mixin', op=h.s.lines[-1].split('\t')[1])))
            if not h.bad:
                h.s.op(0, 'a_state')
                h.end(0)
            ctx.case(('mixins', tuple(names), len(h.s.lines)))
            ctx.count('mixin-history')
            h.finish('C08 Function mixin methods')
    finally:
        sys.unraisablehook = old_hook


# ---------------------------------------------------------------------------
# C15 — MDD.to_expr, MDD.dump (DOT graph), iter(mdd)
# ---------------------------------------------------------------------------

def _eval_mdd_dot(ans, u, asg):
    """Value at `asg` (level -> integer) of the node `u` in the exported graph."""
    body = ans[3:]
    ns, es = body.split(';E=')
    level = {}
    for item in split1(ns[2:]):
        a, rest = item.split('@')
        level[int(a)] = int(rest.split(':')[0])
    edge = {}
    for item in split1(es):
        a, rest = item.split('>')
        v, j, c = rest.split(':')
        edge[(int(a), int(j))] = (int(v), c == '1')
    sign = u < 0
    x = abs(u)
    for _ in range(len(level) + 2):
        if x == 1:
            return not sign
        v, c = edge[(x, asg[level[x]])]
        sign ^= c
        x = v
    raise AssertionError('walk too long')


def extra_C15(ctx, t_end):
    """`MDD.to_expr(u)` for every function of small integer spaces, both signs: the text is parsed
    (harness) and evaluated under every integer assignment by variable NAME against the value of
    the node; the DOT graph of `MDD.dump` evaluated the same way; `iter(mdd)`."""
    rng = ctx.rng
    shapes = [(2,), (3,), (4,), (2, 2), (3, 2), (2, 3), (2, 2, 2), (3, 3), (4, 2)]
    k = 0
    while time.time() < t_end and ctx.time_left() > 3 and k < (14 if ctx.tier == 'quick' else 400):
        lens = shapes[k % len(shapes)]
        k += 1
        s = Session(ctx)
        m = cmdd.new_mdd(s, 0, lens, rng)
        sp = cmdd.MSpace(m)
        led = cmdd.MLedger(s)
        tts = range(sp.full + 1) if sp.full < 300 else rng.sample(range(sp.full + 1), 120)
        refs = cmdd.all_mdd_functions(s, 0, sp, led, tts)
        names = {d['level']: v for v, d in m.vars.items()}
        dot = s.op(0, 'mdd_to_dot')
        it = s.op(0, 'mdd_iter')
        if it != 'ok ' + ','.join(map(str, sorted(m._succ))):
            ctx.violation('iter(mdd)', dict(got=it, lines=list(s.lines), tags=dict(call='MDD.__iter__')))
        for fname, want in (('x.dot', 'ok dot'), ('y.pdf', 'ok pdf'), ('z.txt', 'err ValueError'), ('dot', 'err ValueError')):
            a = s.op(0, 'mdd_dump_kind', fname)
            if a != want:
                ctx.violation('MDD.dump file type', dict(name=fname, got=a, lines=list(s.lines),
                                                         tags=dict(call='MDD.dump', symptom='kind')))
        for t, r in refs.items():
            for sign in (1, -1):
                u, tt_ = (r, t) if sign == 1 else (-r, sp.neg(t))
                ans = s.op(0, 'mdd_to_expr', u)
                ctx.evaluations += 1
                bad = None
                if not ans.startswith('ok '):
                    bad = f'to_expr raised {ans}'
                else:
                    for kk, a in enumerate(sp.asgs):
                        val = eval_canon_mexpr(ans[3:], {names[j]: a[j] for j in range(sp.n)})
                        if val != bool((tt_ >> kk) & 1):
                            bad = f'to_expr({u}) evaluates to {val} at {a}, the node to {not val}'
                            break
                        if dot.startswith('ok ') and _eval_mdd_dot(dot, u, a) != val:
                            bad = f'the DOT graph evaluates node {u} differently at {a}'
                            break
                if bad:
                    ctx.violation('MDD export: ' + bad, dict(
                        lens=lens, function=tt_, node=u, got=ans[:200], lines=list(s.lines),
                        tags=dict(call='MDD.to_expr')))
            ctx.case(('mdd_to_expr', lens, t))
        s.op(0, 'mdd_to_expr', max(m._succ) + 3)
        s.op(0, 'mdd_state')
        ctx.count('mdd-to_expr')
        ctx.add_session(s, cmdd.MDD_SECTIONS, 'C15 MDD.to_expr')
        s.close()


def _xcopies(ctx, t_end):
    """`dd._copy.copy_bdd` / `copy_bdds_from` between two `dd.autoref` managers with different
    orders (reordering not enabled): the results denote the same functions of the variable names;
    counts of BOTH managers = stored edges + live `Function`s after the call (every temporary the
    recursion created has been released); exact state of both compared with the model."""
    import sys
    rng = ctx.rng
    old_hook = sys.unraisablehook
    sys.unraisablehook = ca._hook
    try:
        k = 0
        while time.time() < t_end and ctx.time_left() > 3 and k < (12 if ctx.tier == 'quick' else 400):
            k += 1
            names = ca.UNIVERSE[:rng.randint(2, 5)]
            h = ca.AHistory(ctx, names, nmgr=2, every_state=False)
            w = dict(var=5, const=1, apply=9, ite=2, fop=3, drop=3, gc=1)
            for _ in range(rng.randint(8, 30)):
                h.step(w, 0)
            for _ in range(rng.randint(0, 6)):
                h.step(w, 1)
            for _ in range(rng.randint(1, 4)):
                if h.bad:
                    break
                hs0 = h.handles_of(0)
                if not hs0:
                    break
                b0, b1 = h.b(0), h.b(1)
                if rng.random() < 0.5:
                    x = rng.choice(hs0)
                    out = h.fresh()
                    ans = h.call(0, 'a_xcopy', f'h{x}', 1, outs=[out], dst=1)
                    nodes = ca.xcopy_nodes(ans)
                    pairs = [(x, nodes[0][0] if nodes else None)]
                else:
                    # distinct nodes (the same root twice yields the same Function object twice)
                    by_node = {}
                    for x in hs0:
                        by_node.setdefault(h.live[x][1], x)
                    xs = rng.sample(sorted(by_node.values()), rng.randint(1, min(4, len(by_node))))
                    outs = [h.fresh() for _ in xs]
                    ans = h.s.op(0, 'a_xcopy_from', ','.join(f'h{x}' for x in xs), 1, '->', *[f'h{o}' for o in outs])
                    nodes = ca.xcopy_nodes(ans)
                    res = [n for n, _ in nodes] if nodes else [None] * len(xs)
                    for o, r in zip(outs, res):
                        if r is not None:
                            h._register(o, 1, r)
                    h.after(0, 'a_xcopy_from', ans, state=False)
                    h.after(1, 'a_xcopy_from', ans, state=False)
                    pairs = list(zip(xs, res))
                ctx.evaluations += 1
                for x, r in pairs:
                    want = TT(b0, ca.UNIVERSE).of(h.live[x][1])
                    if r is None or TT(b1, ca.UNIVERSE).of(r) != want:
                        ctx.violation('dd._copy.copy_bdd gives another function of the variable names', dict(
                            got=ans, lines=list(h.s.lines), tags=dict(call='_copy.copy_bdd')))
                bad = canon_problems(b1, sorted(b1.vars))
                if bad:
                    ctx.violation('dd._copy.copy_bdd: target not canonical', dict(
                        problems=bad[:3], lines=list(h.s.lines), tags=dict(call='_copy.copy_bdd', symptom='canon')))
            if not h.bad:
                h.s.op(0, 'a_state')
                h.s.op(1, 'a_state')
                h.end(0)
                h.end(1)
            ctx.case(('xcopy', tuple(names), len(h.s.lines)))
            ctx.count('xcopy')
            h.finish('C11 dd._copy.copy_bdd')
    finally:
        sys.unraisablehook = old_hook


def extra_C11_all(ctx, t_end):
    half = time.time() + (t_end - time.time()) * 0.5
    extra_C11(ctx, half)
    _xcopies(ctx, t_end)


EXTRAS = {
    'C02': [_api(extra_C02, 9)],
    'C03': [_api(extra_C03, 8)],
    'C08': [_api(extra_C08, 5)],
    'C10': [_api(extra_C10, 9)],
    'C11': [_api(extra_C11_all, 8)],
    'C14': [_api(extra_C14, 7)],
    'C15': [_api(extra_C15, 5)],
    'C18': [_api(extra_C18, 6)],
}
