"""C05, lexical layer — the objects of `DDProps/C05Lex.lean` on the real lexer.

`C05_tokenize_spellWith` says: for every token string, every choice of spelling per token
and every admissible arrangement of blanks and comments, the lexer returns the token string;
the side condition is `needsBlank` between adjacent texts.  This module draws token strings
(NOT only formulas: any sequence over every kind of token, with primed names, reserved-word
look-alikes, non-ASCII digits), draws a layout the way the theorem quantifies over them
(spelling row per position; per gap: nothing, blanks, `(* *)` comments glued to the tokens,
`\\* ` comments glued to the tokens, mixtures; a leading part; a final comment without
newline), runs the REAL lexer (`lex` op) and compares with the token string; every line is
also replayed on the Lean model.  It also checks the converse (`C05_needsBlank_necessary`),
unterminated comments (`C05_unterminated_comment`) and comments in front of arbitrary text
(`C05_block_comment_skipped`, `C05_line_comment_skipped`).

The tables below are written from the theorem statements (`C05_spellings_table`,
`C05_needsBlank_spec`), not from the code; `needs_blank` does not call any lexer.
"""
import re

# token kinds: (PLY type, value the lexer reports) -> spellings, as in `C05_spellings_table`
FIXED = {
    ('AND', '&'): ['&&', '&', '/\\'],
    ('OR', '|'): ['||', '|', '\\/'],
    ('NOT', '!'): ['~', '!'],
    ('IMPLIES', '=>'): ['=>', '->'],
    ('EQUIV', '<->'): ['<=>', '<->'],
    ('XOR', '#'): ['#'],
    ('XOR', '^'): ['^'],
    ('MINUS', '-'): ['-'],
    ('EQUALS', '='): ['='],
    ('FORALL', '\\A'): ['\\A'],
    ('EXISTS', '\\E'): ['\\E'],
    ('RENAME', '\\S'): ['\\S'],
    ('LPAREN', '('): ['('],
    ('RPAREN', ')'): [')'],
    ('COMMA', ','): [','],
    ('COLON', ':'): [':'],
    ('DIV', '/'): ['/'],
    ('AT', '@'): ['@'],
}
KEYWORDS = {'TRUE': ['TRUE', 'True'], 'FALSE': ['FALSE', 'False'], 'ITE': ['ite']}
RESERVED = {'TRUE', 'True', 'FALSE', 'False', 'ite'}
NAMES = ['a', 'b', "x'", "y''", '_', '_y1', "_'9", 'ite_', 'iTe', 'TRUEish', 'true', 'false', 'Truex', 'A', 'E', 'S',
         'x7', "p'q", 'zz9']
NUMBERS = ['0', '7', '12', '007', '٣', '9٣', '٣4', '１２']
CLASH_PAIRS = {('&', '&&'), ('&', '&'), ('/', '\\E'), ('/', '\\A'), ('/', '\\/'), ('/', '\\S'), ('|', '||'), ('|', '|')}
COINCIDE = {('&', '&&'), ('|', '||')}

_NAMECHAR = re.compile(r"[A-Za-z0-9_']")


def tok_show(tok):
    kind, val = tok
    if kind in KEYWORDS:
        return kind
    return f'{kind}:{val}'


def spellings(tok):
    kind, val = tok
    if kind in KEYWORDS:
        return KEYWORDS[kind]
    if kind in ('NAME', 'NUMBER'):
        return [val]
    return FIXED[tok]


def is_word(tok):
    return tok[0] == 'NAME' or tok[0] in KEYWORDS


def needs_blank(t1, a, t2, b):
    """`C05_needsBlank_spec`."""
    if is_word(t1):
        return is_word(t2) or (t2[0] == 'NUMBER' and bool(_NAMECHAR.match(b[0])))
    if t1[0] == 'NUMBER':
        return t2[0] == 'NUMBER'
    return (a, b) in CLASH_PAIRS


def random_token(rng):
    r = rng.random()
    if r < 0.30:
        return ('NAME', rng.choice(NAMES))
    if r < 0.38:
        return ('NUMBER', rng.choice(NUMBERS))
    if r < 0.48:
        k = rng.choice(sorted(KEYWORDS))
        return (k, k)
    return rng.choice(sorted(FIXED))


BLOCK_BODIES = ['', ' ', 'c', ' a /\\ b ', '*', '**', '* ( *', '(* nested', ')', '@@ $ %', 'x\ny', '\\* x', 'café ٣']
LINE_BODIES = ['', ' ', ' trailing', 'a & b )', '(* open', '$%', '*)', '\\* again', '\t\\']


def random_blank(rng):
    """One blank element and whether it is a `\\*` comment."""
    r = rng.random()
    if r < 0.30:
        return ' ', False
    if r < 0.38:
        return '\t', False
    if r < 0.46:
        return '\n', False
    if r < 0.75:
        return '(*' + rng.choice(BLOCK_BODIES) + '*)', False
    return '\\*' + rng.choice(LINE_BODIES) + '\n', True


def random_gap(rng, prev_text, tight_ok, style):
    """Blanks after a token text.  `tight_ok`: the empty gap is admissible."""
    r = rng.random()
    if tight_ok and r < style['tight']:
        return ''
    n = 1 if r < 0.7 else rng.randint(2, 4)
    out = []
    for i in range(n):
        s, is_line = random_blank(rng)
        if i == 0 and is_line and prev_text == '/':
            # `/\*` is the conjunction followed by `*`: not admissible (`sepOk_line_comment`)
            s = ' ' + s
        out.append(s)
    return ''.join(out)


def layout_text(rng, toks, style):
    """A random admissible layout of the token string; returns the text."""
    texts = [rng.choice(spellings(t)) for t in toks]
    out = []
    if rng.random() < style['lead']:
        out.append(''.join(random_blank(rng)[0] for _ in range(rng.randint(1, 3))))
    for i, (t, a) in enumerate(zip(toks, texts)):
        out.append(a)
        if i + 1 < len(toks):
            tight_ok = not needs_blank(t, a, toks[i + 1], texts[i + 1])
        else:
            tight_ok = True
        g = random_gap(rng, a, tight_ok, style)
        out.append(g)
    r = rng.random()
    if r < style['fin']:
        last = out[-1] if out[-1] else (texts[-1] if texts else '')
        body = rng.choice(LINE_BODIES)
        if last == '/':
            out.append(' ')
        out.append('\\*' + body)
    return ''.join(out)


def part_layout(ctx, bulk, esc, real_lex_answer, real_parse_answer):
    rng = ctx.rng
    thorough = ctx.tier == 'thorough'
    n_lists = 6000 if not thorough else 150000
    nbad = 0
    for i in range(n_lists):
        n = rng.choice((1, 2, 2, 3, 4, 6, 9, 14))
        toks = [random_token(rng) for _ in range(n)]
        style = dict(tight=rng.choice((0.0, 0.5, 1.0)), lead=rng.choice((0.0, 0.5)), fin=rng.choice((0.0, 0.3)))
        s = layout_text(rng, toks, style)
        want = ' '.join(tok_show(t) for t in toks)
        got = real_lex_answer(s)
        bulk.lines.append('0\tlex\t' + esc(s))
        bulk.answers.append('ok ' + got)
        ctx.evaluations += 1
        if got != want:
            nbad += 1
            ctx.violation('lexer does not read a spelled token string back', dict(
                text=s, expected_tokens=want, got=got,
                tags=dict(call='lex', kind='layout')))
        if i < 100:
            ctx.case(('layout', s))
        # the same tokens under a second layout parse to the same answer
        if i % 4 == 0:
            s2 = layout_text(rng, toks, dict(tight=0.0, lead=0.0, fin=0.0))
            a1, a2 = real_parse_answer(s), real_parse_answer(s2)
            for x in (s, s2):
                bulk.lines.append('0\tparse\t' + esc(x))
            bulk.answers.extend([a1, a2])
            ctx.evaluations += 2
            if a1 != a2:
                ctx.violation('two spellings / layouts of one token string are parsed differently', dict(
                    text1=s, text2=s2, answer1=a1, answer2=a2,
                    tags=dict(call='parse', kind='spelling-independence')))
    ctx.count('layout-token-strings', n_lists)
    # converse: every pair of token texts, glued
    pool = ([('NAME', x) for x in NAMES] + [('NUMBER', x) for x in NUMBERS]
            + [(k, k) for k in sorted(KEYWORDS)] + sorted(FIXED))
    npairs = 0
    for t1 in pool:
        for t2 in pool:
            for a in spellings(t1):
                for b in spellings(t2):
                    s = a + b
                    got = real_lex_answer(s)
                    want = tok_show(t1) + ' ' + tok_show(t2)
                    bulk.lines.append('0\tlex\t' + esc(s))
                    bulk.answers.append('ok ' + got)
                    npairs += 1
                    need = needs_blank(t1, a, t2, b)
                    if not need and got != want:
                        ctx.violation('two token texts that need no blank are not read as the two tokens', dict(
                            text=s, expected_tokens=want, got=got, tags=dict(call='lex', kind='glue')))
                    if need and (a, b) not in COINCIDE and got == want:
                        ctx.violation('a blank is stated to be needed but the glued text gives the two tokens', dict(
                            text=s, tokens=want, tags=dict(call='lex', kind='glue-converse')))
    ctx.evaluations += npairs
    ctx.count('glued-pairs', npairs)
    ctx.case(('glued-pairs', npairs))
    # comments in front of arbitrary text; unterminated comments after token strings
    junk = ['', 'a', 'a &', '$', ') (', '(*', '*)', 'x (* y', "a' /\\ b", '\\* z', '\n', '٣ @']
    ncom = 0
    for rest in junk:
        base = real_lex_answer(rest)
        for body in BLOCK_BODIES:
            if '*)' in body:
                continue
            s = '(*' + body + '*)' + rest
            got = real_lex_answer(s)
            bulk.lines.append('0\tlex\t' + esc(s))
            bulk.answers.append('ok ' + got)
            ncom += 1
            if got != base:
                ctx.violation('a (* *) comment in front of a text changes its tokens', dict(
                    text=s, rest=rest, expected_tokens=base, got=got, tags=dict(call='lex', kind='comment')))
        for body in LINE_BODIES:
            s = '\\*' + body + '\n' + rest
            got = real_lex_answer(s)
            bulk.lines.append('0\tlex\t' + esc(s))
            bulk.answers.append('ok ' + got)
            ncom += 1
            if got != base:
                ctx.violation('a \\* comment in front of a text changes its tokens', dict(
                    text=s, rest=rest, expected_tokens=base, got=got, tags=dict(call='lex', kind='comment')))
            s = rest.replace('\n', ' ') + ' \\*' + body
            base1 = real_lex_answer(rest.replace('\n', ' ') + ' ')
            got = real_lex_answer(s)
            bulk.lines.append('0\tlex\t' + esc(s))
            bulk.answers.append('ok ' + got)
            ncom += 1
            if got != base1 and 'BAD' not in base1 and '\\*' not in rest and '(*' not in rest:
                ctx.violation('a final \\* comment changes the tokens before it', dict(
                    text=s, expected_tokens=base1, got=got, tags=dict(call='lex', kind='comment')))
    for i in range(400 if not thorough else 8000):
        toks = [random_token(rng) for _ in range(rng.randint(0, 5))]
        s = layout_text(rng, toks, dict(tight=rng.choice((0.0, 1.0)), lead=0.0, fin=0.0))
        body = rng.choice([b for b in BLOCK_BODIES if '*)' not in b] + ['a * ) b', '* )', '(* (* '])
        s = s + '(*' + body
        want = ' '.join([tok_show(t) for t in toks] + ['LPAREN:(', 'BAD'])
        got = real_lex_answer(s)
        bulk.lines.append('0\tlex\t' + esc(s))
        bulk.answers.append('ok ' + got)
        pa = real_parse_answer(s)
        bulk.lines.append('0\tparse\t' + esc(s))
        bulk.answers.append(pa)
        ncom += 2
        if got != want:
            ctx.violation('an unterminated (* is not read as `(` and an illegal character', dict(
                text=s, expected_tokens=want, got=got, tags=dict(call='lex', kind='open-comment')))
        if pa != 'err RuntimeError':
            ctx.violation('an unterminated (* does not give the syntax error', dict(
                text=s, got=pa, tags=dict(call='parse', kind='open-comment')))
    ctx.evaluations += ncom
    ctx.count('comment-strings', ncom)
    ctx.case(('comment-strings', ncom))
