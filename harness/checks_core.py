"""Checks C01–C04, C06, C07, C10, C14, C17: generators + oracles on the real code;
every session is also replayed on the Lean model by `Ctx.flush_model`."""
import itertools

from lib import (Session, TT, check_invariants, reachable, SECTIONS_L2, SECTIONS_L3)
from funcs import (Space, Builder, CONNECTIVES, ALIASES, NOT_ALIASES,
                   FORALL_ALIASES, EXISTS_ALIASES)
from histories import History

ABC = ['a', 'b', 'c']


WIDE_NAMES = [f'w{i:02d}' for i in range(12)]


def orders_for(ctx, names, quick_n=1):
    perms = list(itertools.permutations(names))
    if ctx.tier == 'thorough':
        if ctx.nshards > 1:
            # the shards of a thorough run split the orders between them
            m = min(ctx.nshards, len(perms))
            return [p for k, p in enumerate(perms) if k % m == ctx.shard % m]
        return perms
    k = ctx.seed % len(perms)
    return [perms[(k + i) % len(perms)] for i in range(quick_n)]


def fresh(ctx, order, warm=False):
    """A session with manager 0 declared in `order`; optionally with a used history."""
    s = Session(ctx)
    order = list(order)
    if len(order) >= 2 and ctx.rng.random() < 0.3:
        # declared in another sequence, brought to `order` by reordering: the declaration order of
        # the `vars` dict then differs from the level order
        decl = sorted(order)
        if decl == order:
            decl = order[::-1]
        s.new(0, decl)
        s.op(0, 'reorder', ','.join(f'{v}={i}' for i, v in enumerate(order)))
        ctx.count('fresh:order-by-reordering')
    else:
        s.new(0, order)
    return s


def all_functions(s, sp, hold=True):
    """Build every function of the space; return {tt: ref}."""
    bld = Builder(s)
    refs = {}
    for t in range(sp.full + 1):
        refs[t] = bld.build(sp, t)
    if hold:
        for t, r in refs.items():
            if abs(r) != 1:
                s.incref(0, r)
    return refs


def warm_up(ctx, s, names, steps=25):
    """Make the manager 'used': junk operations, a collection, a swap."""
    h = History.__new__(History)
    h.ctx = ctx
    h.rng = ctx.rng
    h.s = s
    h.mid = 0
    h.pool = [1, -1]
    h.held = []
    h.held_tt = {}
    h.dyn = False
    w = dict(var=4, apply=8, ite=3, quantify=2, cofactor=1, rename=1, hold=1, gc=1, swap=1)
    for _ in range(steps):
        h.step(w)
    for u in list(h.held):
        s.decref(0, u)
    return h


# ---------------------------------------------------------------------------
# C01
# ---------------------------------------------------------------------------

def _c01_exhaustive_shard(ctx):
    """Thorough tier, one shard: its slice of the FULL finite spaces of the property text —
    every ordered pair of the 256 functions of three variables for every alias, and every ITE
    triple, under every one of the 6 variable orders.  Work items are dealt round-robin to the
    shards; together the shards enumerate the spaces completely (`exhaustive`)."""
    sp = Space(ABC)
    perms = list(itertools.permutations(ABC))
    items = []
    for order in perms:
        for cn in CONNECTIVES:
            for al in ALIASES[cn]:
                items.append(('pairs', order, cn, al))
        for gs in range(8):
            items.append(('triples', order, gs))
    mine = [it for k, it in enumerate(items) if k % ctx.nshards == ctx.shard]
    done = getattr(ctx, '_c01_done', set())
    ctx._c01_done = done
    for it in mine:
        if it in done:
            continue
        if ctx.time_left() < 0.3 * ctx.budget_s:
            ctx.notes.append(f'exhaustive C01 items not reached in this shard: {len(mine) - len(done)}')
            return
        done.add(it)
        order = it[1]
        s = fresh(ctx, order)
        refs = all_functions(s, sp)
        tt = TT(s.mgr(0), ABC)
        if it[0] == 'pairs':
            _, _, cn, al = it
            f = CONNECTIVES[cn]
            bad = False
            for t1, r1 in refs.items():
                for t2, r2 in refs.items():
                    ans = s.op(0, 'apply', al, r1, r2)
                    r = s.val(ans)
                    if r is None or tt.of(r) != f(sp, t1, t2):
                        ctx.violation(f'apply({al!r}) wrong on order {order}', dict(
                            op='apply', alias=al, order=order, u_tt=t1, v_tt=t2, got=ans,
                            tags=dict(call='apply')))
                        bad = True
                        break
                if bad:
                    break
            ctx.evaluations += 65536
            ctx.count('exhaustive-pairs', 65536)
        else:
            _, _, gs = it
            keys = list(refs)
            bad = False
            for g in keys[gs::8]:
                for u in keys:
                    for v in keys:
                        ans = s.op(0, 'ite', refs[g], refs[u], refs[v])
                        r = s.val(ans)
                        if r is None or tt.of(r) != sp.ite(g, u, v):
                            ctx.violation('ite wrong', dict(
                                op='ite', order=order, g_tt=g, u_tt=u, v_tt=v, got=ans,
                                tags=dict(call='ite')))
                            bad = True
                            break
                    if bad:
                        break
                if bad:
                    break
            ctx.evaluations += 32 * 65536
            ctx.count('exhaustive-ite-triples', 32 * 65536)
        ctx.case(it)
        ctx.add_session(s, SECTIONS_L2, f'C01 exhaustive {it}')
        s.close()
        ctx.flush_model()
    ctx.exhaustive = True


def check_C01(ctx):
    rng = ctx.rng
    sp = Space(ABC)
    conns = list(CONNECTIVES)
    if ctx.tier == 'thorough' and ctx.nshards > 1:
        _c01_exhaustive_shard(ctx)
    if ctx.tier == 'quick':
        k = ctx.seed % len(conns)
        chosen = [conns[k], conns[(k + 1) % len(conns)]]
    else:
        chosen = conns
    # 1. exhaustive pairs over the 256 functions of three variables
    for order in orders_for(ctx, ABC):
        for cn in chosen:
            aliases = ALIASES[cn] if ctx.tier == 'thorough' else [ALIASES[cn][ctx.seed % len(ALIASES[cn])]]
            for al in aliases:
                s = fresh(ctx, order)
                if rng.random() < 0.5:
                    warm_up(ctx, s, ABC)
                    ctx.count('warm-manager')
                refs = all_functions(s, sp)
                tt = TT(s.mgr(0), ABC)
                f = CONNECTIVES[cn]
                for t1, r1 in refs.items():
                    for t2, r2 in refs.items():
                        ans = s.op(0, 'apply', al, r1, r2)
                        r = s.val(ans)
                        ctx.evaluations += 1
                        want = f(sp, t1, t2)
                        if r is None or tt.of(r) != want:
                            ctx.violation(
                                f'apply({al!r}) wrong on order {order}',
                                dict(op='apply', alias=al, order=order, u_tt=t1, v_tt=t2,
                                     expected_tt=want, got=ans, lines=s.lines[-3:],
                                     tags=dict(call='apply')))
                            break
                    else:
                        continue
                    break
                ctx.case(('pairs', cn, al, order))
                ctx.count('exhaustive-pairs', 65536)
                ctx.add_session(s, SECTIONS_L2, f'C01 pairs {al} {order}')
                s.close()
                if ctx.time_left() < 25:
                    ctx.notes.append('pair enumeration cut by time budget')
                    break
        # negation, all aliases, all functions
        s = fresh(ctx, order)
        refs = all_functions(s, sp)
        tt = TT(s.mgr(0), ABC)
        for al in NOT_ALIASES:
            for t1, r1 in refs.items():
                ans = s.op(0, 'apply', al, r1)
                r = s.val(ans)
                ctx.evaluations += 1
                if r is None or tt.of(r) != sp.neg(t1):
                    ctx.violation(f'apply({al!r}) wrong', dict(
                        op='apply', alias=al, u_tt=t1, got=ans, tags=dict(call='apply')))
                    break
        ctx.case(('neg', order))
        # ITE triples: sampled in quick, sharded elsewhere in thorough
        ntri = 20000 if ctx.tier == 'quick' else 400000
        keys = list(refs)
        for _ in range(ntri):
            g, u, v = rng.choice(keys), rng.choice(keys), rng.choice(keys)
            via_apply = rng.random() < 0.3
            if via_apply:
                ans = s.op(0, 'apply', 'ite', refs[g], refs[u], refs[v])
            else:
                ans = s.op(0, 'ite', refs[g], refs[u], refs[v])
            r = s.val(ans)
            ctx.evaluations += 1
            if r is None or tt.of(r) != sp.ite(g, u, v):
                ctx.violation('ite wrong', dict(
                    op='ite', order=order, g_tt=g, u_tt=u, v_tt=v, got=ans,
                    expected_tt=sp.ite(g, u, v), tags=dict(call='ite')))
                break
        ctx.case(('ite-triples', order, ntri))
        ctx.count('ite-triples', ntri)
        ctx.add_session(s, SECTIONS_L2, f'C01 neg/ite {order}')
        s.close()
    # 2. histories: every connective result checked against truth tables on a used manager
    nh = 60 if ctx.tier == 'quick' else 600
    for k in range(nh):
        if ctx.time_left() < 8:
            break
        nv = rng.randint(2, 8)
        names = [chr(ord('a') + i) for i in range(nv)]
        if k % 5 == 4:
            names = rng.sample(WIDE_NAMES, rng.randint(9, 10))
        h = History(ctx, names)
        _checked_history(ctx, h, rng.randint(10, 80))
        ctx.case(('history', k, len(h.s.lines)))
        h.finish(SECTIONS_L3, 'C01 history')
    # 2a. wide managers (30-80 variables, thousands of nodes)
    for _ in range(2 if ctx.tier == 'quick' else 12):
        if ctx.time_left() < 10:
            break
        big_history(ctx, 'C01').finish(SECTIONS_L3, 'C01 wide history')
    # 2b. results remembered across a collection for re-used node numbers
    stale_cache_templates(ctx, 100 if ctx.tier == 'quick' else 400, 'C01')
    # 3. the `Function` operators of dd.autoref
    _function_operators(ctx)


def _checked_history(ctx, h, steps):
    """Random history; each connective / ITE result is compared with the truth-table oracle."""
    rng = ctx.rng
    universe = sorted(set(h.names()) | {f'z{i}' for i in range(12)})
    sp = Space([n for n in universe if n in h.names()])
    for _ in range(steps):
        names = h.names()
        sp = Space(names) if set(names) != set(sp.names) else sp
        r = rng.random()
        if r < 0.45 and len(h.pool) > 1:
            tt = TT(h.b, sp.names)
            cn = rng.choice(list(CONNECTIVES))
            al = rng.choice(ALIASES[cn])
            u, v = h.pick(), h.pick()
            tu, tv = tt.of(u), tt.of(v)
            ans = h.s.op(0, 'apply', al, u, v)
            res = h.add(ans)
            ctx.evaluations += 1
            ctx.count('checked-apply')
            want = CONNECTIVES[cn](sp, tu, tv)
            if res is None or TT(h.b, sp.names).of(res) != want:
                ctx.violation(f'apply({al!r}) wrong after a history', dict(
                    op='apply', alias=al, lines=list(h.s.lines), got=ans,
                    tags=dict(call='apply')))
                return
        elif r < 0.6 and len(h.pool) > 1:
            tt = TT(h.b, sp.names)
            g, u, v = h.pick(), h.pick(), h.pick()
            want = sp.ite(tt.of(g), tt.of(u), tt.of(v))
            ans = h.s.op(0, 'ite', g, u, v)
            res = h.add(ans)
            ctx.evaluations += 1
            ctx.count('checked-ite')
            if res is None or TT(h.b, sp.names).of(res) != want:
                ctx.violation('ite wrong after a history', dict(
                    op='ite', lines=list(h.s.lines), got=ans, tags=dict(call='ite')))
                return
        else:
            h.step(dict(var=4, apply=2, foa=1, cofactor=1, compose=1, rename=1, quantify=2,
                        hold=5, release=1, gc=2, swap=2, sift=1, order=1, gcroots=1, pairs=0.5,
                        cube=0.5, image=0.5, preimage=0.5))


def checked_subst_history(ctx, h, steps, kinds):
    """Random history on a used manager (collections, re-used node numbers, swaps); every
    quantify / let result is compared with the truth-table semantics."""
    rng = ctx.rng
    # a small per-history menu of argument shapes, so that the same shape is asked again after
    # collections have freed and re-used node numbers (stale memo entries would then be hit)
    names0 = h.names()
    menu_q = [[v for v in names0 if rng.random() < 0.5] or names0[:1] for _ in range(2)]
    menu_c = [{v: rng.randint(0, 1) for v in names0 if rng.random() < 0.5} or {names0[0]: 1} for _ in range(2)]
    menu_r = [{v: rng.choice(names0) for v in names0 if rng.random() < 0.5} or {names0[0]: names0[-1]}
              for _ in range(2)]
    for _ in range(steps):
        names = h.names()
        if not names or len(names) > 12 or set(names) != set(names0):
            h.step(dict(var=3, apply=5, hold=3, gc=1))
            continue
        sp = Space(names)
        r = rng.random()
        if r < 0.5 and len(h.pool) > 1:
            kind = rng.choice(kinds)
            tt = TT(h.b, names)
            u = h.pick()
            tu = tt.of(u)
            if kind == 'quantify':
                q = rng.choice(menu_q) if rng.random() < 0.7 else [v for v in names if rng.random() < 0.4]
                fa = rng.randint(0, 1)
                ans = h.s.op(0, 'quantify', u, ','.join('n:' + v for v in q), fa)
                want = sp.forall(tu, q) if fa else sp.exists(tu, q)
            elif kind == 'cofactor':
                d = rng.choice(menu_c) if rng.random() < 0.7 else (
                    {v: rng.randint(0, 1) for v in names if rng.random() < 0.4} or {names[0]: 1})
                ans = h.s.op(0, rng.choice(['let_b', 'cofactor']), u, ','.join(f'n:{k}={v}' for k, v in d.items()))
                want = tu
                for k, v in d.items():
                    want = sp.cof(want, k, v)
            elif kind == 'rename':
                d = rng.choice(menu_r) if rng.random() < 0.7 else (
                    {v: rng.choice(names) for v in names if rng.random() < 0.5} or {names[0]: names[-1]})
                ans = h.s.op(0, rng.choice(['let_n', 'rename']), u, ','.join(f'{k}={v}' for k, v in d.items()))
                want = sp.rename(tu, d)
            else:
                ks = rng.sample(names, rng.randint(1, min(2, len(names))))
                gs = {k: h.pick() for k in ks}
                ans = h.s.op(0, rng.choice(['let_r', 'compose']), u, ','.join(f'{k}={g}' for k, g in gs.items()))
                want = sp.compose(tu, {k: tt.of(g) for k, g in gs.items()})
            res = h.add(ans)
            ctx.evaluations += 1
            ctx.count('checked-' + kind)
            if res is None or TT(h.b, names).of(res) != want:
                ctx.violation(f'{kind} wrong after a history', dict(
                    op=kind, lines=list(h.s.lines), got=ans, tags=dict(call=kind + '-history')))
                return
        else:
            h.step(dict(var=4, apply=6, ite=1, hold=3, release=4, gc=6, swap=0.5, order=0.5))
            h.prune()


def big_history(ctx, label, steps=None):
    """One history on a WIDE manager (30-80 variables, diagrams of hundreds to thousands of
    nodes, node numbers and counts well beyond the small cases): every connective / ITE result is
    compared on 128 random assignments (`SampledTT`), structure and counts after every few steps,
    exact state against the model at the end."""
    from lib import SampledTT
    rng = ctx.rng
    nv = rng.randint(30, 80)
    names = [f'y{i:02d}' for i in range(nv)]
    order = names[:]
    rng.shuffle(order)
    h = History(ctx, order)
    st = SampledTT(h.b, names, 128, rng)
    for n in rng.sample(names, min(nv, 24)):
        h.add(h.s.op(0, 'var', n))
    # one large diagram: a conjunction of equivalences between variables that are far apart in the
    # order (exponential in the number of pairs): thousands of nodes, held throughout
    m = rng.randint(9, 11) if ctx.tier == 'quick' else rng.randint(9, 13)
    if label in ('C03', 'C04'):
        m = 12      # a computed table of > 2**14 entries before the heavy operations start
    lv = sorted(order[:2 * m], key=order.index)
    eq = 1
    for i in range(m):
        a = h.s.val(h.s.op(0, 'var', lv[i]))
        b_ = h.s.val(h.s.op(0, 'var', lv[i + m]))
        e = h.s.val(h.s.op(0, 'apply', 'equiv', a, b_))
        eq = h.s.val(h.s.op(0, 'apply', 'and', eq, e))
    h.add(f'ok {eq}')
    h.hold(eq)
    ctx.count('big-history:peak-nodes', len(h.b._succ))
    ctx.count('big-history:cache-entries', len(h.b._ite_table))

    def sampled(u, fixed):
        """table of `u` on the sample assignments with some variables fixed to constants"""
        saved = dict(st.masks)
        try:
            for q, val in fixed.items():
                st.masks[q] = st.full if val else 0
            return st.fresh().of(u)
        finally:
            st.masks.update(saved)
            st.fresh()

    # heavy operations ON the large diagram (nested recursions that call `ite` thousands of times)
    heavy_kinds = {'C03': ['exists', 'forall'], 'C04': ['cofactor', 'compose', 'compose']}.get(
        label, ['exists', 'forall', 'cofactor', 'compose'])
    for _ in range(rng.randint(4, 6) if label in ('C03', 'C04') else rng.randint(2, 4)):
        kind = rng.choice(heavy_kinds)
        qs = rng.sample(lv, rng.randint(1, 3))
        if kind in ('exists', 'forall'):
            fa = kind == 'forall'
            want = 0 if not fa else st.full
            for bits in itertools.product([0, 1], repeat=len(qs)):
                t = sampled(eq, dict(zip(qs, bits)))
                want = (want & t) if fa else (want | t)
            ans = h.s.op(0, 'quantify', eq, ','.join('n:' + q for q in qs), int(fa))
        elif kind == 'cofactor':
            vals = {q: rng.randint(0, 1) for q in qs}
            want = sampled(eq, vals)
            ans = h.s.op(0, 'let_b', eq, ','.join(f'n:{q}={v}' for q, v in vals.items()))
        else:
            q = qs[0]
            g = rng.choice([x for x in h.pool if abs(x) in h.b._succ])
            tg = st.fresh().of(g)
            t1, t0 = sampled(eq, {q: 1}), sampled(eq, {q: 0})
            want = (tg & t1) | (st.neg(tg) & t0)
            ans = h.s.op(0, 'let_r', eq, f'{q}={g}')
        res = h.add(ans)
        ctx.evaluations += 1
        ctx.count('big-history:heavy-' + kind)
        if res is None or st.fresh().of(res) != want:
            ctx.violation(f'{kind} wrong on a large diagram', dict(
                nvars=nv, nodes=len(h.b._succ), cache=len(h.b._ite_table), lines=list(h.s.lines),
                got=ans, tags=dict(call=kind + '-wide')))
            return h
        if rng.random() < 0.5:
            h.hold(res)
    for i in range(steps or rng.randint(150, 400)):
        r = rng.random()
        h.prune()
        if len(h.pool) < 3:
            h.add(h.s.op(0, 'var', rng.choice(names)))
            continue
        if r < 0.55:
            cn = rng.choice(list(CONNECTIVES))
            al = rng.choice(ALIASES[cn])
            # prefer recent results: the diagrams grow
            u = rng.choice(h.pool[-12:]) if rng.random() < 0.7 else h.pick()
            v = h.pick()
            st.fresh()
            want = CONNECTIVES[cn](st, st.of(u), st.of(v)) & st.full
            ans = h.s.op(0, 'apply', al, u, v)
            res = h.add(ans)
            ctx.evaluations += 1
            if res is None or st.fresh().of(res) != want:
                ctx.violation(f'apply({al!r}) wrong on a wide manager', dict(
                    nvars=nv, nodes=len(h.b._succ), lines=list(h.s.lines), got=ans,
                    tags=dict(call='apply-wide')))
                return h
            if len(h.b._succ) > 20000:
                # keep it fast: drop what is not held
                h.s.op(0, 'gc')
                h.prune()
        elif r < 0.65:
            g, u, v = h.pick(), h.pick(), h.pick()
            st.fresh()
            tg = st.of(g)
            want = (tg & st.of(u)) | (st.neg(tg) & st.of(v))
            ans = h.s.op(0, 'ite', g, u, v)
            res = h.add(ans)
            ctx.evaluations += 1
            if res is None or st.fresh().of(res) != want:
                ctx.violation('ite wrong on a wide manager', dict(
                    nvars=nv, lines=list(h.s.lines), got=ans, tags=dict(call='ite-wide')))
                return h
        else:
            held_before = {u: st.fresh().of(u) for u in h.held if abs(u) in h.b._succ}
            h.step(dict(var=2, hold=6, release=3, gc=2, swap=3, sift=0.3, order=0.3, quantify=1,
                        cofactor=1))
            st.fresh()
            for u, t in held_before.items():
                if abs(u) in h.b._succ and h.ledger().get(abs(u), 0) > 0 and st.of(u) != t:
                    ctx.violation('a held reference changed its function on a wide manager', dict(
                        nvars=nv, ref=u, lines=list(h.s.lines), tags=dict(call='held-wide')))
                    return h
        if i % 25 == 24:
            bad = h.check()
            if bad:
                ctx.violation('wide manager damaged', dict(problems=bad[:4], lines=list(h.s.lines),
                                                           tags=dict(call='invariant-wide')))
                return h
    ctx.case((label, 'big-history', nv, len(h.s.lines)))
    ctx.count('big-history:nodes', len(h.b._succ))
    return h


def _function_operators(ctx):
    """`~ & | implies equiv <= < == !=` of dd.autoref.Function against truth tables."""
    import dd.autoref as _auto
    rng = ctx.rng
    sp = Space(ABC)
    order = orders_for(ctx, ABC)[0]
    bdd = _auto.BDD()
    bdd.declare(*order)
    # build all functions as Function objects
    fs = {}
    vs = {n: bdd.var(n) for n in ABC}
    for t in range(sp.full + 1):
        f = bdd.false
        for a in range(sp.size):
            if (t >> a) & 1:
                c = bdd.true
                for k, n in enumerate(sp.names):
                    c = c & (vs[n] if (a >> k) & 1 else ~vs[n])
                f = f | c
        fs[t] = f
    tt = TT(bdd._bdd, ABC)
    n = 4000 if ctx.tier == 'quick' else 65536
    keys = list(fs)
    pairs = (itertools.product(keys, keys) if ctx.tier == 'thorough'
             else ((rng.choice(keys), rng.choice(keys)) for _ in range(n)))
    for t1, t2 in pairs:
        f, g = fs[t1], fs[t2]
        checks = [
            ('~', tt.of((~f).node), sp.neg(t1)),
            ('&', tt.of((f & g).node), t1 & t2),
            ('|', tt.of((f | g).node), t1 | t2),
            ('implies', tt.of(f.implies(g).node), sp.neg(t1) | t2),
            ('equiv', tt.of(f.equiv(g).node), sp.neg(t1 ^ t2)),
            ('<=', f <= g, (t1 & sp.neg(t2)) == 0),
            ('<', f < g, (t1 & sp.neg(t2)) == 0 and t1 != t2),
            ('==', f == g, t1 == t2),
            ('!=', f != g, t1 != t2),
        ]
        ctx.evaluations += 1
        for name, got, want in checks:
            if got != want:
                ctx.violation(f'Function operator {name} wrong', dict(
                    op=name, u_tt=t1, v_tt=t2, order=order, tags=dict(call='Function.' + name)))
                return
    ctx.case(('function-operators', order))
    ctx.count('function-operator-pairs', n)
    del fs, vs, f, g


# ---------------------------------------------------------------------------
# C02
# ---------------------------------------------------------------------------

def canon_problems(b, names):
    """Two live references with the same function but different integers?"""
    tt = TT(b, names)
    seen = {}
    bad = []
    for u in b._succ:
        t = tt.of(u)
        for ref, tr in ((u, t), (-u, tt.full & ~t)):
            if tr in seen and seen[tr] != ref:
                bad.append(f'references {seen[tr]} and {ref} denote the same function')
            seen[tr] = ref
    return bad


def dnf_lines(sp, t):
    """Formula text of the DNF of `t`."""
    if t == 0:
        return 'FALSE'
    cubes = []
    for a in range(sp.size):
        if (t >> a) & 1:
            lits = [(n if (a >> k) & 1 else f'~ {n}') for k, n in enumerate(sp.names)]
            cubes.append('(' + r' /\ '.join(lits) + ')')
    return r' \/ '.join(cubes)


def check_C02(ctx):
    rng = ctx.rng
    sp = Space(ABC)
    # 1. every function by several routes, every order: same integer
    for order in orders_for(ctx, ABC, quick_n=2):
        s = fresh(ctx, order)
        s.new(1, list(reversed(order)))     # a second manager with another order
        refs = all_functions(s, sp)
        b = s.mgr(0)
        va = {n: s.val(s.op(0, 'var', n)) for n in ABC}
        s2refs = None
        for t in range(sp.full + 1):
            want = refs[t]
            # route: connectives (DNF by apply)
            acc = -1
            for a in range(sp.size):
                if (t >> a) & 1:
                    c = 1
                    for k, n in enumerate(sp.names):
                        lit = va[n] if (a >> k) & 1 else -va[n]
                        c = s.val(s.op(0, 'apply', 'and', c, lit))
                    acc = s.val(s.op(0, 'apply', 'or', acc, c))
            got = {'connectives': acc}
            # route: substitution — compose the function of (b,c,a) rotated, then rename back
            rot = {ABC[i]: ABC[(i + 1) % 3] for i in range(3)}
            t_rot = sp.rename(t, {v: k for k, v in rot.items()})
            r0 = refs[t_rot]
            got['rename'] = s.val(s.op(0, 'let_n', r0, ','.join(f'{k}={v}' for k, v in rot.items())))
            # route: cofactor of a bigger function: ite(a, f, g)[a := 1]
            other = refs[(t * 7 + 13) & sp.full]
            big = s.val(s.op(0, 'ite', va['a'], want, other))
            cof = s.val(s.op(0, 'let_b', big, 'n:a=1'))
            got['cofactor'] = cof if not sp.depends(t, 'a') else None
            # route: simultaneous substitution of two variables by functions that may mention
            # any variable; the result must be THE reference of the substituted function
            ks = rng.sample(ABC, 2)
            sub = {k: rng.randrange(sp.full + 1) for k in ks}
            src_t = rng.randrange(sp.full + 1)
            r_c = s.val(s.op(0, 'let_r', refs[src_t], ','.join(f'{k}={refs[g_]}' for k, g_ in sub.items())))
            want_c = refs[sp.compose(src_t, sub)]
            if r_c != want_c:
                ctx.violation('route compose gives another reference for the same function', dict(
                    route='compose', tt=src_t, substitution=sub, order=order, node_by_node=want_c,
                    other=r_c, tags=dict(call='route:compose')))
            # single-variable composition
            k1 = rng.choice(ABC)
            g1 = rng.randrange(sp.full + 1)
            r_c1 = s.val(s.op(0, 'let_r', refs[src_t], f'{k1}={refs[g1]}'))
            if r_c1 != refs[sp.compose(src_t, {k1: g1})]:
                ctx.violation('route compose (one variable) gives another reference', dict(
                    route='compose1', tt=src_t, var=k1, g=g1, order=order, tags=dict(call='route:compose1')))
            # route: parsing the DNF formula
            try:
                import checks_parse as _cp
                got['parse'] = s.val(s.op(0, 'add_expr', _cp.esc(dnf_lines(sp, t))))
            except ImportError:
                pass
            # route: copy from the other manager
            bld1 = getattr(s, '_bld1', None)
            if bld1 is None:
                bld1 = Builder(s, 1)
                s._bld1 = bld1
            r1 = bld1.build(sp, t)
            got['copy'] = s.val(s.op(1, 'copy', r1, 0))
            ctx.evaluations += 1
            for route, g in got.items():
                if g is not None and g != want:
                    ctx.violation(f'route {route} gives another reference for the same function', dict(
                        route=route, tt=t, order=order, node_by_node=want, other=g,
                        tags=dict(call='route:' + route)))
            ctx.count('functions-by-routes')
        probs = canon_problems(b, ABC) + check_invariants(b, s.ledger.get(0), probe=True)
        if probs:
            ctx.violation('manager not canonical', dict(problems=probs[:5], order=order,
                                                        tags=dict(call='invariant')))
        # true/false decide validity/unsat
        tt = TT(b, ABC)
        for u in list(b._succ):
            for ref in (u, -u):
                t = tt.of(ref)
                if (ref == 1) != (t == sp.full) or (ref == -1) != (t == 0):
                    ctx.violation('comparison with true/false wrong', dict(ref=ref, tt=t, tags=dict(call='const')))
        ctx.case(('routes', order))
        ctx.add_session(s, SECTIONS_L3, f'C02 routes {order}')
        s.close()
    # 2. interleavings: structure + canonicity after every step
    nh = 200 if ctx.tier == 'quick' else 800
    for k in range(nh):
        if ctx.time_left() < 6:
            break
        nv = rng.randint(1, 4)
        names = [chr(ord('a') + i) for i in range(nv)]
        if k % 6 == 5:
            names = rng.sample(WIDE_NAMES, rng.randint(9, 10))
        h = History(ctx, names)
        for _ in range(rng.randint(10, 70)):
            h.step()
            bad = h.check(probe=(rng.random() < 0.3))
            if not bad and len(h.names()) <= 6:
                bad = canon_problems(h.b, h.names())
            if bad:
                ctx.violation('manager not canonical after a history', dict(
                    problems=bad[:5], lines=list(h.s.lines), tags=dict(call='invariant')))
                break
            ctx.evaluations += 1
        ctx.case(('interleaving', k, len(h.s.lines)))
        h.finish(SECTIONS_L3, 'C02 interleaving')
    # 3. removal of unused variables under nodes created bottom-up: the unique table is re-derived
    #    while levels shift, so nodes with equal successors at neighbouring levels must stay apart
    for k in range(100 if ctx.tier == 'quick' else 400):
        if ctx.time_left() < 5:
            break
        nv = rng.randint(3, 7)
        names = [chr(ord('a') + i) for i in range(nv)]
        h = History(ctx, names)
        used = sorted(rng.sample(names, rng.randint(2, nv - 1)))
        creation = list(used)
        mode = rng.randrange(3)
        if mode == 0:
            creation.reverse()          # deepest variable first
        elif mode == 1:
            rng.shuffle(creation)
        for v in creation:
            r = h.add(h.s.op(0, 'var', v))
            if r is not None:
                h.hold(r)
        for _ in range(rng.randint(0, 6)):
            h.step(dict(apply=4, ite=1, hold=3))
        unused = [v for v in names if v not in used]
        if rng.random() < 0.5:
            h.s.op(0, 'undeclare')
        else:
            h.s.op(0, 'undeclare', ','.join(rng.sample(unused, rng.randint(1, len(unused)))))
        bad = h.check(probe=True) or canon_problems(h.b, h.names())
        for _ in range(rng.randint(0, 6)):
            if bad:
                break
            h.step(dict(var=4, apply=4, hold=2))
            bad = h.check(probe=True) or canon_problems(h.b, h.names())
        ctx.evaluations += 1
        if bad:
            ctx.violation('manager not canonical after removing unused variables', dict(
                problems=bad[:5], lines=list(h.s.lines), tags=dict(call='invariant-undeclare')))
        ctx.case(('undeclare-template', k, mode))
        h.finish(SECTIONS_L3, 'C02 undeclare template')
    # 4. a manager and its `copy.copy` side by side
    _manager_copies(ctx, 25 if ctx.tier == 'quick' else 250)
    # 5. wide managers
    for _ in range(1 if ctx.tier == 'quick' else 8):
        if ctx.time_left() < 10:
            break
        big_history(ctx, 'C02').finish(SECTIONS_L3, 'C02 wide history')


def _manager_copies(ctx, n):
    """`copy.copy(bdd)`: the copy is a manager of its own.  A used manager (warm computed table,
    held references) is copied; then both go on independently — each allocates node numbers on its
    own, so the same number soon names different functions in the two — and every connective / ITE
    result in either is compared with the truth tables; structure, counts and canonicity of both
    after every step; the final states of both are compared with the model."""
    rng = ctx.rng
    for k in range(n):
        if ctx.time_left() < 5:
            break
        names = [chr(ord('a') + i) for i in range(rng.randint(2, 4))]
        h0 = History(ctx, names)
        for _ in range(rng.randint(10, 40)):
            h0.step(dict(var=4, apply=8, ite=3, hold=4, release=1, gc=1, swap=0.5))
        s = h0.s
        ans = s.op(0, 'mcopy', 1)
        if not ans.startswith('ok'):
            ctx.violation('copy.copy(bdd) raised', dict(lines=list(s.lines), got=ans, tags=dict(call='mcopy')))
            s.close()
            continue
        s.ledger[1] = dict(s.ledger.get(0, {}))
        h1 = History.__new__(History)
        h1.ctx, h1.rng, h1.s, h1.mid, h1.dyn = ctx, rng, s, 1, False
        h1.pool, h1.held, h1.held_tt = list(h0.pool), list(h0.held), {}
        sp = Space(names)
        bad = h1.check(probe=True) or canon_problems(h1.b, names)
        asked = []
        for step in range(rng.randint(20, 60)):
            if bad:
                break
            h = h0 if rng.random() < 0.5 else h1
            other = h1 if h is h0 else h0
            h.prune()
            if len(h.pool) < 2:
                h.add(s.op(h.mid, 'var', rng.choice(names)))
                continue
            cur = h.names()
            if len(cur) > 8:
                h.step(dict(var=2, hold=3, release=1, gc=1))
                continue
            sp = Space(cur)
            tt = TT(h.b, cur)
            r = rng.random()
            if r < 0.25 and asked:
                # the question the OTHER manager was asked (same operand numbers if still nodes here)
                g, u, v = rng.choice(asked)
                if not all(abs(x) in h.b._succ for x in (g, u, v)):
                    continue
            elif r < 0.85:
                g, u, v = h.pick(), h.pick(), h.pick()
            else:
                h.step(dict(var=2, hold=3, release=1, gc=1, swap=2, sift=0.5, order=0.5, declare=0.5))
                # the OTHER manager must not notice (its order views still agree with each other)
                bad = h.check() or order_views_ok(other.b) or other.check() or []
                continue
            want = sp.ite(tt.of(g), tt.of(u), tt.of(v))
            ans = s.op(h.mid, 'ite', g, u, v)
            res = h.add(ans)
            asked.append((g, u, v))
            ctx.evaluations += 1
            if res is None or TT(h.b, cur).of(res) != want:
                ctx.violation('ite wrong in a manager and its copy working side by side', dict(
                    lines=list(s.lines), mgr=h.mid, got=ans, tags=dict(call='mcopy-ite')))
                bad = ['reported']
                break
            bad = (h.check(probe=(rng.random() < 0.2))
                   or (canon_problems(h.b, h.names()) if len(h.names()) <= 6 else [])
                   or other.check() or [])
        if bad and bad != ['reported']:
            ctx.violation('a manager or its copy is damaged', dict(
                problems=bad[:4], lines=list(s.lines), tags=dict(call='mcopy-invariant')))
        s.state(0)
        s.state(1)
        ctx.case(('mcopy', k, len(s.lines)))
        ctx.add_session(s, SECTIONS_L3, 'C02 manager copy')
        s.close()


# ---------------------------------------------------------------------------
# C03
# ---------------------------------------------------------------------------

def check_C03(ctx):
    rng = ctx.rng
    sp = Space(ABC)
    subsets = [list(c) for r in range(4) for c in itertools.combinations(ABC, r)]
    for order in orders_for(ctx, ABC, quick_n=2):
        for used in (False, True):
            s = fresh(ctx, order)
            if used:
                warm_up(ctx, s, ABC)
            refs = all_functions(s, sp)
            b = s.mgr(0)
            tt = TT(b, ABC)
            for t, r in refs.items():
                for q in subsets:
                    for fa in (0, 1):
                        form = rng.randrange(4)
                        if form == 0 or not q:
                            keys = ','.join('n:' + v for v in q)
                            ans = s.op(0, 'quantify', r, keys, fa)
                        elif form == 1:
                            keys = ','.join(f'l:{b.vars[v]}' for v in q)
                            ans = s.op(0, 'quantify', r, keys, fa)
                        elif form == 2:
                            # apply form: variables = support of the first operand
                            cube = s.val(s.op(0, 'cube', ','.join(f'{v}=1' for v in q)))
                            al = rng.choice(FORALL_ALIASES if fa else EXISTS_ALIASES)
                            ans = s.op(0, 'apply', al, cube, r)
                        else:
                            keys = ','.join('n:' + v for v in reversed(q))
                            ans = s.op(0, 'quantify', r, keys, fa)
                        got = s.val(ans)
                        want = sp.forall(t, q) if fa else sp.exists(t, q)
                        ctx.evaluations += 1
                        if got is None or tt.of(got) != want:
                            ctx.violation('quantification wrong', dict(
                                tt=t, qvars=q, forall=fa, order=order, form=form, got=ans,
                                expected_tt=want, tags=dict(call='quantify')))
                        elif (not q or not (set(q) & sp.support(t))) and got != r:
                            ctx.violation('quantifying nothing changed the reference', dict(
                                tt=t, qvars=q, got=ans, ref=r, tags=dict(call='quantify-noop')))
                ctx.case(('quantify', t, order, used))
            ctx.count('exhaustive-quantify', 256 * 8 * 2)
            ctx.add_session(s, SECTIONS_L2, f'C03 {order} used={used}')
            s.close()
            if ctx.time_left() < 10:
                break
    ctx.exhaustive = True
    # used managers: collections, re-used node numbers, swaps between quantifications
    for k in range(60 if ctx.tier == 'quick' else 600):
        if ctx.time_left() < 5:
            break
        names = [chr(ord('a') + i) for i in range(rng.randint(2, 5))]
        if k % 4 == 3:
            # wide manager: levels beyond 8 (iteration order of sets of levels matters there)
            names = rng.sample(WIDE_NAMES, rng.randint(9, 11))
        h = History(ctx, names)
        checked_subst_history(ctx, h, rng.randint(20, 80), ['quantify'])
        ctx.case(('quantify-history', k, len(h.s.lines)))
        h.finish(SECTIONS_L3, 'C03 history')
    _quantify_wide(ctx, 4 if ctx.tier == 'quick' else 40)
    for _ in range(1 if ctx.tier == 'quick' else 8):
        if ctx.time_left() < 10:
            break
        big_history(ctx, 'C03', steps=40).finish(SECTIONS_L3, 'C03 wide history')
    if ctx.tier == 'thorough':
        _quantify_four(ctx)


def _quantify_wide(ctx, n_mgr):
    """Quantification on managers with 9-12 variables: small supports at arbitrary levels."""
    rng = ctx.rng
    for k in range(n_mgr):
        if ctx.time_left() < 5:
            break
        s, order = wide_manager(ctx, 'C03')
        b = s.mgr(0)
        for _ in range(60):
            sp, sub, t, r = wide_function(ctx, s, order)
            tt = TT(b, sub)
            # quantified variables: some of the support, possibly some outside it
            q = [v for v in sub if rng.random() < 0.6]
            extra = [v for v in rng.sample(order, 2) if v not in sub and rng.random() < 0.5]
            fa = rng.randint(0, 1)
            qq = q + extra
            rng.shuffle(qq)
            form = rng.randrange(3)
            if form == 0 or not qq:
                ans = s.op(0, 'quantify', r, ','.join('n:' + v for v in qq), fa)
            elif form == 1:
                ans = s.op(0, 'quantify', r, ','.join(f'l:{b.vars[v]}' for v in qq), fa)
            else:
                cube = s.val(s.op(0, 'cube', ','.join(f'{v}=1' for v in qq)))
                al = rng.choice(FORALL_ALIASES if fa else EXISTS_ALIASES)
                ans = s.op(0, 'apply', al, cube, r)
            got = s.val(ans)
            want = sp.forall(t, q) if fa else sp.exists(t, q)
            ctx.evaluations += 1
            if got is None:
                ctx.violation('quantification failed (wide manager)', dict(
                    order=order, sub=sub, tt=t, qvars=qq, forall=fa, got=ans, tags=dict(call='quantify')))
                continue
            supp = set(s.op(0, 'support', got)[3:].split(',')) - {''}
            if not supp <= set(sub) - set(q) or tt.of(got) != want:
                ctx.violation('quantification wrong (wide manager)', dict(
                    order=order, sub=sub, tt=t, qvars=qq, forall=fa, form=form, got=ans,
                    support=sorted(supp), expected_tt=want, tags=dict(call='quantify')))
        ctx.case(('quantify-wide', tuple(order)))
        ctx.add_session(s, SECTIONS_L2, f'C03 wide {len(order)}')
        s.close()


def _quantify_four(ctx):
    rng = ctx.rng
    names = ['a', 'b', 'c', 'd']
    sp = Space(names)
    for order in itertools.permutations(names):
        if ctx.time_left() < 30:
            break
        s = fresh(ctx, order)
        bld = Builder(s)
        tt = TT(s.mgr(0), names)
        for _ in range(3000):
            t = rng.randrange(sp.full + 1)
            r = bld.build(sp, t)
            q = [v for v in names if rng.random() < 0.5]
            fa = rng.randint(0, 1)
            ans = s.op(0, 'quantify', r, ','.join('n:' + v for v in q), fa)
            got = s.val(ans)
            want = sp.forall(t, q) if fa else sp.exists(t, q)
            ctx.evaluations += 1
            if got is None or tt.of(got) != want:
                ctx.violation('quantification wrong (4 vars)', dict(
                    tt=t, qvars=q, forall=fa, order=order, got=ans, tags=dict(call='quantify')))
        ctx.case(('quantify4', order))
        ctx.add_session(s, SECTIONS_L2, f'C03 four {order}')
        s.close()


# ---------------------------------------------------------------------------
# C04
# ---------------------------------------------------------------------------

def check_C04(ctx):
    rng = ctx.rng
    sp = Space(ABC)
    partial = []
    for vals in itertools.product((None, 0, 1), repeat=3):
        d = {n: v for n, v in zip(ABC, vals) if v is not None}
        if d:
            partial.append(d)
    maps = []
    for tgt in itertools.product(ABC, repeat=3):
        full = dict(zip(ABC, tgt))
        maps.append(full)
    for order in orders_for(ctx, ABC, quick_n=2):
        s = fresh(ctx, order)
        if rng.random() < 0.5:
            warm_up(ctx, s, ABC)
        refs = all_functions(s, sp)
        b = s.mgr(0)
        tt = TT(b, ABC)
        for t, r in refs.items():
            # constants
            for d in partial:
                if rng.random() < 0.5:
                    arg = ','.join(f'n:{k}={v}' for k, v in d.items())
                else:
                    arg = ','.join(f'l:{b.vars[k]}={v}' for k, v in d.items())
                ans = s.op(0, 'let_b', r, arg)
                got = s.val(ans)
                want = t
                for k, v in d.items():
                    want = sp.cof(want, k, v)
                ctx.evaluations += 1
                if got is None or tt.of(got) != want:
                    ctx.violation('let with constants wrong', dict(
                        tt=t, values=d, order=order, got=ans, expected_tt=want,
                        tags=dict(call='let-cofactor')))
            # renaming: every map, a random sub-dictionary of it
            for full in (maps if ctx.tier == 'thorough' else rng.sample(maps, 9)):
                keys = [k for k in ABC if rng.random() < 0.7] or ['a']
                d = {k: full[k] for k in keys}
                ans = s.op(0, 'let_n', r, ','.join(f'{k}={v}' for k, v in d.items()))
                got = s.val(ans)
                want = sp.rename(t, d)
                ctx.evaluations += 1
                if got is None or tt.of(got) != want:
                    ctx.violation('let with names wrong', dict(
                        tt=t, renaming=d, order=order, got=ans, expected_tt=want,
                        tags=dict(call='let-rename')))
            # functions: sampled replacement tuples (they may mention replaced variables)
            for _ in range(3 if ctx.tier == 'quick' else 12):
                keys = rng.sample(ABC, rng.randint(1, 3))
                d = {k: rng.randrange(sp.full + 1) for k in keys}
                ans = s.op(0, 'let_r', r, ','.join(f'{k}={refs[g]}' for k, g in d.items()))
                got = s.val(ans)
                want = sp.compose(t, d)
                ctx.evaluations += 1
                if got is None or tt.of(got) != want:
                    ctx.violation('let with functions wrong', dict(
                        tt=t, substitution=d, order=order, got=ans, expected_tt=want,
                        tags=dict(call='let-compose')))
            # `u` itself unchanged
            if TT(b, ABC).of(r) != t:
                ctx.violation('let changed its operand', dict(tt=t, ref=r, tags=dict(call='let-operand')))
            ctx.case(('let', t, order))
        ctx.add_session(s, SECTIONS_L2, f'C04 {order}')
        s.close()
        if ctx.time_left() < 10:
            break
    # used managers: collections, re-used node numbers, swaps between substitutions
    for k in range(60 if ctx.tier == 'quick' else 600):
        if ctx.time_left() < 5:
            break
        names = [chr(ord('a') + i) for i in range(rng.randint(2, 5))]
        if k % 4 == 3:
            names = rng.sample(WIDE_NAMES, rng.randint(9, 10))
        h = History(ctx, names)
        checked_subst_history(ctx, h, rng.randint(20, 80), ['cofactor', 'rename', 'compose'])
        ctx.case(('let-history', k, len(h.s.lines)))
        h.finish(SECTIONS_L3, 'C04 history')
    for _ in range(1 if ctx.tier == 'quick' else 8):
        if ctx.time_left() < 10:
            break
        big_history(ctx, 'C04', steps=40).finish(SECTIONS_L3, 'C04 wide history')
    # empty dictionary: identity
    s = fresh(ctx, ABC)
    r = s.val(s.op(0, 'var', 'a'))
    for opn in ('let_b', 'let_r', 'let_n'):
        if s.val(s.op(0, opn, r, '')) != r:
            ctx.violation('let({}) is not the identity', dict(op=opn, tags=dict(call='let-empty')))
    ctx.add_session(s, SECTIONS_L2, 'C04 empty')
    s.close()


# ---------------------------------------------------------------------------
# C06
# ---------------------------------------------------------------------------

def gc_oracle(ctx, h, after_gc=False):
    """Counts exact; after a full collection exactly the reachable nodes remain."""
    b = h.b
    bad = check_invariants(b, h.ledger())
    if after_gc and not bad:
        held = [u for u, c in h.ledger().items() if c > 0]
        want = reachable(b, held) | {1}
        have = set(b._succ)
        if want != have:
            bad.append(f'after collect_garbage: nodes {sorted(have)} but reachable from held {sorted(want)}')
        if b._ite_table:
            bad.append('computed table not empty after collection')
        mf = min(k for k in range(2, len(have) + 3) if k not in have)
        if b._min_free != mf:
            bad.append(f'_min_free={b._min_free}, least unused={mf}')
    return bad


def stale_cache_templates(ctx, n, label):
    """warm cache -> drop -> gc -> re-create (node number re-used) -> re-ask the same integer triple"""
    rng = ctx.rng
    for k in range(n):
        names = ['a', 'b', 'c', 'd'][:rng.randint(2, 4)]
        h = History(ctx, names)
        sp = Space(names)
        s = h.s
        va = [h.add(s.op(0, 'var', n_)) for n_ in names]
        x = h.add(s.op(0, 'apply', rng.choice(['and', 'or', 'xor']), va[0], va[1]))
        y = h.add(s.op(0, 'apply', rng.choice(['and', 'or', 'xor']), x, rng.choice(va)))
        keep = rng.choice(va)
        h.hold(keep)
        if rng.random() < 0.5:
            h.hold(y)                     # the result stays alive, the operand `x` does not
        s.op(0, 'gc')                     # x (and perhaps y) freed; cache must be dropped
        h.prune()
        # re-create other functions that re-use the freed numbers, in another shape
        va = [h.add(s.op(0, 'var', n_)) for n_ in reversed(names)]
        x2 = h.add(s.op(0, 'apply', rng.choice(['or', 'xor', 'implies']), va[-1], -va[0]))
        tt = TT(h.b, names)
        for cn in ('and', 'or', 'xor'):
            for u in (x2, -x2):
                for v in va:
                    if abs(u) in h.b._succ and abs(v) in h.b._succ:
                        want = CONNECTIVES[cn](sp, tt.of(u), tt.of(v))
                        r = h.add(s.op(0, 'apply', cn, u, v))
                        ctx.evaluations += 1
                        if r is None or TT(h.b, names).of(r) != want:
                            ctx.violation('result remembered for a re-used node number', dict(
                                lines=list(s.lines), tags=dict(call='stale-cache')))
        if label == 'C06':
            bad = gc_oracle(ctx, h)
            if bad:
                ctx.violation('counts wrong in stale-cache template', dict(
                    problems=bad[:4], lines=list(s.lines), tags=dict(call='gc')))
        ctx.case(('stale-cache', k, tuple(s.lines[-3:])))
        h.finish(SECTIONS_L3, label + ' stale-cache')



def check_C06(ctx):
    rng = ctx.rng
    # 1. exhaustive short sequences over a small alphabet on two variables
    alphabet = ['var_a', 'var_b', 'and', 'xor', 'hold', 'release', 'gc', 'swap', 'not_or']
    depth = 5 if ctx.tier == 'quick' else 6
    count = 0
    seqs = itertools.product(alphabet, repeat=depth)
    if ctx.tier == 'quick':
        # a seed-dependent slice of the 9^5 sequences, plus all of depth 4
        allseq = list(itertools.product(alphabet, repeat=4))
        extra = list(itertools.product(alphabet, repeat=5))
        rng.shuffle(extra)
        seqs = allseq + extra[:6000]
    for seq in seqs:
        if ctx.time_left() < 25:
            ctx.notes.append('sequence enumeration cut by time budget')
            break
        h = History(ctx, ['a', 'b'])
        last = [1, -1]
        ok = True
        for letter in seq:
            s = h.s
            if letter == 'var_a':
                last.append(h.add(s.op(0, 'var', 'a')))
            elif letter == 'var_b':
                last.append(h.add(s.op(0, 'var', 'b')))
            elif letter == 'and':
                last.append(h.add(s.op(0, 'apply', 'and', last[-1], last[-2])))
            elif letter == 'xor':
                last.append(h.add(s.op(0, 'apply', 'xor', last[-1], last[-2])))
            elif letter == 'not_or':
                last.append(h.add(s.op(0, 'apply', 'or', -last[-1], last[-2])))
            elif letter == 'hold':
                h.hold(last[-1])
            elif letter == 'release':
                h.release()
            elif letter == 'gc':
                s.op(0, 'gc')
            elif letter == 'swap':
                s.op(0, 'swap', 'l:0', 'l:1')
            # held references keep their function
            bad = gc_oracle(ctx, h, after_gc=(letter == 'gc'))
            last = [u for u in last if u is not None and abs(u) in h.b._succ] or [1, -1]
            if len(last) < 2:
                last = [1, -1] + last
            if bad:
                ctx.violation('reference counts / collection wrong', dict(
                    problems=bad[:4], lines=list(h.s.lines), tags=dict(call='gc')))
                ok = False
                break
        count += 1
        ctx.case(('seq',) + tuple(seq), nontrivial=any(x in seq for x in ('and', 'xor', 'not_or')))
        h.finish(SECTIONS_L3, 'C06 seq')
        if not ok:
            break
    ctx.count('short-sequences', count)
    # 2. stale-cache template: warm cache -> drop -> gc -> re-create (number re-used) -> re-ask
    stale_cache_templates(ctx, 80 if ctx.tier == 'quick' else 300, 'C06')
    for _ in range(2 if ctx.tier == 'quick' else 12):
        if ctx.time_left() < 10:
            break
        big_history(ctx, 'C06').finish(SECTIONS_L3, 'C06 wide history')
    # 2b. every function of three variables (both signs) held through each adjacent swap,
    #     alone and together with a second held function: counts exact after the rooted collection
    sp3 = Space(ABC)
    for order in orders_for(ctx, ABC, quick_n=1):
        for t in range(sp3.full + 1):
            for lvl in (0, 1):
                h = History(ctx, list(order))
                bld = Builder(h.s)
                r = bld.build(sp3, t)
                h.hold(r if t % 2 else -r)
                if t % 3 == 0:
                    h.hold(bld.build(sp3, (t * 37 + 11) & sp3.full))
                if t % 5 == 0:
                    bld.build(sp3, (t * 91 + 5) & sp3.full)     # unreferenced nodes on the side
                h.s.op(0, 'swap', f'l:{lvl}', f'l:{lvl + 1}')
                bad = gc_oracle(ctx, h)
                if not bad:
                    h.release()
                    h.s.op(0, 'gc')
                    bad = gc_oracle(ctx, h, after_gc=True)
                ctx.evaluations += 1
                if bad:
                    ctx.violation('counts wrong after a swap', dict(
                        problems=bad[:4], lines=list(h.s.lines), tags=dict(call='gc-swap')))
                ctx.case(('swap-held', t, lvl, order))
                h.finish(SECTIONS_L3, 'C06 swap-held')
    ctx.count('swap-held-functions', 512)
    # 3. long random histories with ledger
    for k in range(100 if ctx.tier == 'quick' else 500):
        if ctx.time_left() < 6:
            break
        names = [chr(ord('a') + i) for i in range(rng.randint(2, 5))]
        if k % 6 == 5:
            names = rng.sample(WIDE_NAMES, rng.randint(9, 10))
        h = History(ctx, names)
        held_tt = {}
        for _ in range(rng.randint(30, 150)):
            n_before = len(h.s.lines)
            h.step(dict(var=3, apply=8, ite=3, quantify=1, cofactor=1, hold=4, release=3, gc=3,
                        swap=2, sift=1, order=1, foa=1, gcroots=2, pairs=0.5, image=0.5, preimage=0.5,
                        cube=0.5))
            was_gc = h.s.lines[-1].endswith('\tgc')
            bad = gc_oracle(ctx, h, after_gc=was_gc)
            # held nodes are never deleted and keep their function
            tt = TT(h.b, sorted(set(names) | set(h.names())))
            for u, c in h.ledger().items():
                if c > 0:
                    if u not in h.b._succ:
                        bad.append(f'held node {u} deleted')
                    else:
                        t = tt.of(u)
                        if u in held_tt and held_tt[u] != t:
                            bad.append(f'held node {u} changed its function')
                        held_tt[u] = t
            for u in list(held_tt):
                if h.ledger().get(u, 0) == 0:
                    del held_tt[u]
            ctx.evaluations += 1
            if bad:
                ctx.violation('reference counts / collection wrong in a long history', dict(
                    problems=bad[:4], lines=list(h.s.lines), tags=dict(call='gc')))
                break
        ctx.case(('long', k, len(h.s.lines)))
        h.finish(SECTIONS_L3, 'C06 long')


# ---------------------------------------------------------------------------
# C07
# ---------------------------------------------------------------------------

def order_views_ok(b):
    bad = []
    n = len(b.vars)
    if sorted(b.vars.values()) != list(range(n)):
        bad.append(f'vars not a bijection onto 0..n-1: {b.vars}')
    for v, l in b.vars.items():
        if b._level_to_var.get(l) != v or b.var_at_level(l) != v or b.level_of_var(v) != l:
            bad.append(f'order views disagree at {v}')
    if b.var_levels != b.vars:
        bad.append('var_levels != vars')
    return bad


def reorder_oracle(ctx, h, before, what):
    """`before` = dict(tts, refs, ledger, order) taken before the reordering call."""
    b = h.b
    bad = order_views_ok(b) + check_invariants(b, h.ledger(), probe=True)
    tt = TT(b, before['names'])
    for u, t in before['tts'].items():
        if u not in b._succ:
            bad.append(f'held node {u} deleted by {what}')
        elif tt.of(u) != t:
            bad.append(f'held node {u} denotes another function after {what}')
    if not bad:
        bad += canon_problems(b, before['names'])
    return bad


def snapshot(h):
    names = h.names()
    tt = TT(h.b, names)
    held = [u for u, c in h.ledger().items() if c > 0]
    return dict(names=names, tts={u: tt.of(u) for u in held},
                order=dict(h.b.vars), len=len(h.b))


def check_C07(ctx):
    rng = ctx.rng
    sp = Space(ABC)
    n_sets = 400 if ctx.tier == 'quick' else 2500
    # 1. sets of <= 3 held functions over three variables x adjacent pair x order
    for order in orders_for(ctx, ABC, quick_n=3):
        for k in range(n_sets):
            if ctx.time_left() < 30:
                break
            h = History(ctx, list(order))
            bld = Builder(h.s)
            fs = [rng.randrange(sp.full + 1) for _ in range(rng.randint(1, 3))]
            for t in fs:
                r = bld.build(sp, t)
                if rng.random() < 0.5:
                    r = -r
                h.hold(r)
            # garbage on the side
            if rng.random() < 0.5:
                bld.build(sp, rng.randrange(sp.full + 1))
            reps = rng.randint(1, 4)
            for _ in range(reps):
                before = snapshot(h)
                kind = rng.choice(['swap', 'swap', 'sift', 'order', 'pairs'])
                ctx.count('reorder:' + kind)
                if kind == 'swap':
                    i = rng.randrange(2)
                    x, y = h.b._level_to_var[i], h.b._level_to_var[i + 1]
                    if rng.random() < 0.5:
                        ans = h.s.op(0, 'swap', f'l:{i}', f'l:{i + 1}')
                    else:
                        ans = h.s.op(0, 'swap', f'n:{y}', f'n:{x}')
                    want = dict(before['order'])
                    want[x], want[y] = want[y], want[x]
                    if ans.startswith('ok') and dict(h.b.vars) != want:
                        ctx.violation('swap did not exchange the two levels', dict(
                            lines=list(h.s.lines), tags=dict(call='swap')))
                elif kind == 'sift':
                    h.s.op(0, 'gc')
                    n0 = len(h.b)
                    ans = h.s.op(0, 'reorder')
                    if ans.startswith('ok') and len(h.b) > n0:
                        ctx.violation('sifting ended with more nodes', dict(
                            lines=list(h.s.lines), before=n0, after=len(h.b), tags=dict(call='sift')))
                elif kind == 'order':
                    perm = list(ABC)
                    rng.shuffle(perm)
                    ans = h.s.op(0, 'reorder', ','.join(f'{v}={i}' for i, v in enumerate(perm)))
                    if ans.startswith('ok') and dict(h.b.vars) != {v: i for i, v in enumerate(perm)}:
                        ctx.violation('requested order not reached', dict(
                            lines=list(h.s.lines), tags=dict(call='reorder-order')))
                else:
                    x, y = rng.sample(ABC, 2)
                    ans = h.s.op(0, 'reorder_pairs', f'{x}={y}')
                    if ans.startswith('ok') and abs(h.b.vars[x] - h.b.vars[y]) != 1:
                        ctx.violation('requested pair not adjacent', dict(
                            lines=list(h.s.lines), tags=dict(call='reorder-pairs')))
                if not ans.startswith('ok'):
                    ctx.violation(f'{kind} raised', dict(lines=list(h.s.lines), got=ans,
                                                       tags=dict(call=kind + '-raises')))
                bad = reorder_oracle(ctx, h, before, kind)
                ctx.evaluations += 1
                if bad:
                    ctx.violation(f'{kind} broke a held reference or the manager', dict(
                        problems=bad[:4], lines=list(h.s.lines), tags=dict(call=kind)))
                    break
            ctx.case(('held-set', tuple(fs), order, k))
            h.finish(SECTIONS_L3, f'C07 sets {order}')
    # 2. four/five variables, more pairs, repetitions
    for k in range(120 if ctx.tier == 'quick' else 600):
        if ctx.time_left() < 8:
            break
        nv = rng.randint(4, 5)
        names = [chr(ord('a') + i) for i in range(nv)]
        if k % 6 == 5:
            names = rng.sample(WIDE_NAMES, rng.randint(9, 10))
        rng.shuffle(names)
        h = History(ctx, names)
        for _ in range(rng.randint(10, 40)):
            h.step(dict(var=4, apply=8, ite=2, hold=4, release=1))
        if k % 3 == 1 and h.held:
            # `bdd.roots` not empty, references of either sign (what dddmp.load and reduction leave)
            rs = [u if rng.random() < 0.5 else -u for u in rng.sample(h.held, min(len(h.held), 3))]
            h.s.op(0, 'set_roots', ','.join(map(str, sorted(set(rs)))))
            ctx.count('roots-set')
        for _ in range(rng.randint(1, 5)):
            before = snapshot(h)
            kind = rng.choice(['swap', 'sift', 'order', 'pairs'])
            ctx.count('reorder:' + kind)
            if kind == 'swap':
                i = rng.randrange(nv - 1)
                ans = h.s.op(0, 'swap', f'l:{i}', f'l:{i + 1}')
            elif kind == 'sift':
                h.s.op(0, 'gc')
                n0 = len(h.b)
                ans = h.s.op(0, 'reorder')
                if ans.startswith('ok') and len(h.b) > n0:
                    ctx.violation('sifting ended with more nodes', dict(
                        lines=list(h.s.lines), tags=dict(call='sift')))
            elif kind == 'order':
                perm = sorted(names)
                rng.shuffle(perm)
                ans = h.s.op(0, 'reorder', ','.join(f'{v}={i}' for i, v in enumerate(perm)))
                if ans.startswith('ok') and dict(h.b.vars) != {v: i for i, v in enumerate(perm)}:
                    ctx.violation('requested order not reached', dict(
                        lines=list(h.s.lines), tags=dict(call='reorder-order')))
            else:
                vs = rng.sample(sorted(names), 4)
                pairs = {vs[0]: vs[1], vs[2]: vs[3]} if rng.random() < 0.5 else {vs[0]: vs[1]}
                ans = h.s.op(0, 'reorder_pairs', ','.join(f'{x}={y}' for x, y in pairs.items()))
                if ans.startswith('ok'):
                    for x, y in pairs.items():
                        if abs(h.b.vars[x] - h.b.vars[y]) != 1:
                            ctx.violation('requested pair not adjacent', dict(
                                lines=list(h.s.lines), pairs=pairs, tags=dict(call='reorder-pairs')))
            if not ans.startswith('ok'):
                ctx.violation(f'{kind} raised', dict(lines=list(h.s.lines), got=ans,
                                                   tags=dict(call=kind + '-raises')))
            bad = reorder_oracle(ctx, h, before, kind)
            ctx.evaluations += 1
            if bad:
                ctx.violation(f'{kind} broke a held reference or the manager', dict(
                    problems=bad[:4], lines=list(h.s.lines), tags=dict(call=kind)))
                break
        ctx.case(('bigger', k, len(h.s.lines)))
        h.finish(SECTIONS_L3, 'C07 bigger')


    # 3. wide managers: swaps, sifting and reorder-to-order with thousands of nodes held
    for _ in range(1 if ctx.tier == 'quick' else 8):
        if ctx.time_left() < 10:
            break
        big_history(ctx, 'C07').finish(SECTIONS_L3, 'C07 wide history')
# ---------------------------------------------------------------------------
# C10
# ---------------------------------------------------------------------------

def check_C10(ctx):
    rng = ctx.rng
    sp = Space(ABC)
    for order in orders_for(ctx, ABC, quick_n=2):
        s = fresh(ctx, order)
        if rng.random() < 0.5:
            warm_up(ctx, s, ABC)
        refs = all_functions(s, sp)
        b = s.mgr(0)
        for t, r in refs.items():
            supp = sp.support(t)
            ans = s.op(0, 'support', r)
            if ans != 'ok ' + ','.join(sorted(supp)):
                ctx.violation('support wrong', dict(tt=t, order=order, got=ans, expected=sorted(supp),
                                                    tags=dict(call='support')))
            for v in ABC + ['nosuch']:
                ans = s.op(0, 'is_essential', r, v)
                if ans != 'ok ' + ('1' if v in supp else '0'):
                    ctx.violation('is_essential wrong', dict(tt=t, var=v, got=ans, tags=dict(call='is_essential')))
            k = len(supp)
            # the function over its support
            base = sp.count(t) >> (sp.n - k)
            for n in range(0, k + 4):
                ans = s.op(0, 'count', r, n)
                if n < k:
                    if not ans.startswith('err'):
                        ctx.violation('count accepted n below the support size', dict(
                            tt=t, n=n, got=ans, tags=dict(call='count-refuse')))
                else:
                    if ans != f'ok {base << (n - k)}':
                        ctx.violation('count wrong', dict(tt=t, n=n, order=order, got=ans,
                                                          expected=base << (n - k), tags=dict(call='count')))
            ans = s.op(0, 'count', r)
            if ans != f'ok {base}':
                ctx.violation('count(u) wrong', dict(tt=t, got=ans, expected=base, tags=dict(call='count')))
            # pick_iter: default care set
            care_sets = [None] + [list(c) for rr in range(4) for c in itertools.combinations(ABC + ['z9'][:0], rr)]
            for care in care_sets:
                if care is None:
                    ans = s.op(0, 'pick_iter', r)
                    cv = sorted(supp)
                else:
                    ans = s.op(0, 'pick_iter', r, ','.join(care)) if care else s.op(0, 'pick_iter', r, '')
                    cv = care
                ctx.evaluations += 1
                prob = _pick_problems(sp, t, supp, cv, care is None, ans)
                if prob:
                    ctx.violation('pick_iter wrong: ' + prob, dict(
                        tt=t, care=care, order=order, got=ans, tags=dict(call='pick_iter')))
            ctx.case(('sat', t, order))
        # pick (thin wrapper), directly on the manager
        for t, r in refs.items():
            p = b.pick(r)
            if (p is None) != (t == 0):
                ctx.violation('pick returns None exactly for false: violated', dict(tt=t, got=p, tags=dict(call='pick')))
            elif p is not None and sp.eval_partial(t, p) != {True}:
                ctx.violation('pick returned a non-model', dict(tt=t, got=p, tags=dict(call='pick')))
        ctx.add_session(s, SECTIONS_L2, f'C10 {order}')
        s.close()
        if ctx.time_left() < 10:
            break
    ctx.exhaustive = True
    # level gaps between support variables (5 variables, sampled)
    names = ['a', 'b', 'c', 'd', 'e']
    sp5 = Space(names)
    s = fresh(ctx, names)
    bld = Builder(s)
    for _ in range(300 if ctx.tier == 'quick' else 5000):
        t = rng.randrange(sp5.full + 1)
        # make it independent of two random variables
        for v in rng.sample(names, 2):
            t = sp5.cof(t, v, rng.randint(0, 1))
        r = bld.build(sp5, t)
        supp = sp5.support(t)
        k = len(supp)
        base = sp5.count(t) >> (sp5.n - k)
        n = k + rng.randint(0, 3)
        ans = s.op(0, 'count', r, n)
        ctx.evaluations += 1
        if ans != f'ok {base << (n - k)}':
            ctx.violation('count wrong with level gaps', dict(tt=t, n=n, got=ans, tags=dict(call='count')))
        ans = s.op(0, 'pick_iter', r)
        prob = _pick_problems(sp5, t, supp, sorted(supp), True, ans)
        if prob:
            ctx.violation('pick_iter wrong (5 vars): ' + prob, dict(tt=t, got=ans, tags=dict(call='pick_iter')))
    ctx.case(('gaps',))
    ctx.add_session(s, SECTIONS_L2, 'C10 gaps')
    s.close()
    # managers with 9-12 variables: small supports at arbitrary levels (levels >= 8 included)
    for k in range(4 if ctx.tier == 'quick' else 40):
        if ctx.time_left() < 5:
            break
        s, order = wide_manager(ctx, 'C10')
        for _ in range(80):
            sp, sub, t, r = wide_function(ctx, s, order)
            supp = sp.support(t)
            kk = len(supp)
            base = sp.count(t) >> (sp.n - kk)
            ans = s.op(0, 'support', r)
            if ans != 'ok ' + ','.join(sorted(supp)):
                ctx.violation('support wrong (wide manager)', dict(order=order, sub=sub, tt=t, got=ans,
                                                                   tags=dict(call='support')))
            n = kk + rng.randint(0, 3)
            ans = s.op(0, 'count', r, n)
            ctx.evaluations += 1
            if ans != f'ok {base << (n - kk)}':
                ctx.violation('count wrong (wide manager)', dict(order=order, sub=sub, tt=t, n=n, got=ans,
                                                                 expected=base << (n - kk), tags=dict(call='count')))
            ans = s.op(0, 'count', r)
            if ans != f'ok {base}':
                ctx.violation('count(u) wrong (wide manager)', dict(order=order, sub=sub, tt=t, got=ans,
                                                                    expected=base, tags=dict(call='count')))
            ans = s.op(0, 'pick_iter', r)
            prob = _pick_problems(sp, t, supp, sorted(supp), True, ans)
            if prob:
                ctx.violation('pick_iter wrong (wide manager): ' + prob, dict(
                    order=order, sub=sub, tt=t, got=ans, tags=dict(call='pick_iter')))
            care = sorted(set(sub) | set(rng.sample(order, 1)))
            ans = s.op(0, 'pick_iter', r, ','.join(care))
            full = Space(care)
            prob = _pick_problems(full, _tt_from_models(full, care, sp, sub, t), supp, care, False, ans)
            if prob:
                ctx.violation('pick_iter with care set wrong (wide manager): ' + prob, dict(
                    order=order, sub=sub, care=care, tt=t, got=ans, tags=dict(call='pick_iter')))
        ctx.case(('wide', tuple(order)))
        ctx.add_session(s, SECTIONS_L2, f'C10 wide {len(order)}')
        s.close()
    for _ in range(2 if ctx.tier == 'quick' else 10):
        if ctx.time_left() < 5:
            break
        _count_large(ctx)


def _count_large(ctx):
    """`count` is exact integer arithmetic: functions with 54-70 support variables (beyond the
    53-bit mantissa of a float) and very large `n` (beyond the float exponent range), against
    closed forms."""
    rng = ctx.rng
    nv = rng.randint(56, 70)
    names = [f'x{i:02d}' for i in range(nv)]
    s = fresh(ctx, names)
    vs = [s.val(s.op(0, 'var', n)) for n in names]
    k = rng.randint(54, nv)
    chosen = rng.sample(range(nv), k)
    disj, conj, par = -1, 1, -1
    for i in chosen:
        disj = s.val(s.op(0, 'apply', 'or', disj, vs[i]))
        conj = s.val(s.op(0, 'apply', 'and', conj, vs[i]))
        par = s.val(s.op(0, 'apply', 'xor', par, vs[i]))
    cases = [('or', disj, (1 << k) - 1), ('nor', -disj, 1), ('and', conj, 1),
             ('nand', -conj, (1 << k) - 1), ('parity', par, 1 << (k - 1)),
             ('true', 1, None), ('false', -1, 0)]
    for label, r, base in cases:
        kk = 0 if label in ('true', 'false') else k
        for n in (kk, kk + 1, kk + rng.randint(2, 40), 1023, 1024, 1100 + rng.randint(0, 50)):
            if n < kk:
                continue
            want = (1 << n) if label == 'true' else (base << (n - kk))
            ans = s.op(0, 'count', r, n)
            ctx.evaluations += 1
            if ans != f'ok {want}':
                ctx.violation('count is not exact for a wide function or a large n', dict(
                    what=label, support=kk, n=n, got=ans[:80], expected=str(want)[:80],
                    tags=dict(call='count-large')))
                break
        if label not in ('true', 'false'):
            ans = s.op(0, 'count', r)
            if ans != f'ok {base}':
                ctx.violation('count(u) is not exact for a wide function', dict(
                    what=label, support=kk, got=ans[:80], expected=str(base)[:80],
                    tags=dict(call='count-large')))
    ctx.case(('count-large', nv, k))
    ctx.add_session(s, SECTIONS_L2, f'C10 large {nv}/{k}')
    s.close()


def _tt_from_models(full, care, sp, sub, t):
    """truth table over `care` (a superset of `sub`) of the function with table `t` over `sub`"""
    def rec(tt, names):
        if not names:
            return full.full if tt else 0
        v = names[0]
        return full.ite(full.var(v), rec(sp.cof(tt, v, 1), names[1:]), rec(sp.cof(tt, v, 0), names[1:]))
    return rec(t, list(sub))


def _pick_problems(sp, t, supp, care, default, ans):
    if not ans.startswith('ok'):
        return 'raised ' + ans
    body = ans[3:]
    asgs = []
    if body:
        for item in body.split(','):
            d = {}
            for kv in item.split('&'):
                if kv and kv != '*':
                    k, v = kv.split('=')
                    d[k] = (v == '1')
            asgs.append(d)
    # each satisfies u however completed; mentions every care variable
    for d in asgs:
        if sp.eval_partial(t, d) != {True}:
            return f'assignment {d} does not force the function true'
        if not set(care) <= set(d):
            return f'assignment {d} misses a care variable'
    # never overlap
    for i in range(len(asgs)):
        for j in range(i + 1, len(asgs)):
            a, b_ = asgs[i], asgs[j]
            if all(a[k] == b_[k] for k in a if k in b_):
                return f'assignments {a} and {b_} overlap'
    # together cover all models
    covered = 0
    for d in asgs:
        m = sp.full
        for k, v in d.items():
            if k in sp.masks:
                m &= sp.masks[k] if v else sp.neg(sp.masks[k])
        covered |= m
    if covered != t:
        return 'assignments do not cover exactly the models'
    if default:
        for d in asgs:
            if set(d) != set(supp):
                return f'default care set: assignment {d} is not over the support'
        if len(asgs) != (sp.count(t) >> (sp.n - len(supp))):
            return 'default care set: wrong number of assignments'
    return None


# ---------------------------------------------------------------------------
# C14
# ---------------------------------------------------------------------------

def wide_manager(ctx, label):
    """A session whose manager declares 9-12 variables in a random order, and a generator of
    (Space over <= 4 of the names, truth table, reference): the functions' supports are small but
    lie at arbitrary levels, including levels >= 8."""
    rng = ctx.rng
    order = rng.sample(WIDE_NAMES, rng.randint(9, 12))
    s = fresh(ctx, order)
    return s, order


def wide_function(ctx, s, order):
    rng = ctx.rng
    k = rng.randint(1, 4)
    sub = rng.sample(order, k)
    if rng.random() < 0.7:
        # make sure a variable at level >= 8 is involved
        deep = order[8:]
        if deep and not (set(sub) & set(deep)):
            sub[0] = rng.choice(deep)
    sub = sorted(set(sub))
    sp = Space(sub)
    t = rng.randrange(sp.full + 1)
    r = Builder(s).build(sp, t)
    return sp, sub, t, r


def check_C14(ctx):
    rng = ctx.rng
    SMALL_POOL = ['p', 'q', 'r', 's', 't', 'u']
    pool_names = SMALL_POOL
    n_hist = 250 if ctx.tier == 'quick' else 3000
    for k in range(n_hist):
        if ctx.time_left() < 6:
            break
        s = Session(ctx)
        s.new(0, [])
        h = History.__new__(History)
        h.ctx, h.rng, h.s, h.mid, h.pool, h.held, h.held_tt, h.dyn = ctx, rng, s, 0, [1, -1], [], {}, False
        b = s.mgr(0)
        # one history in four works on a WIDE manager (9-12 variables: beyond the range in which
        # CPython iterates a set of small integers in increasing order)
        wide = (k % 4 == 3)
        pool_names = WIDE_NAMES if wide else SMALL_POOL
        if wide:
            first = rng.sample(WIDE_NAMES, rng.randint(9, 12))
            s.op(0, 'declare', ','.join(first))
        for _ in range(rng.randint(5, 40)):
            names = sorted(b.vars)
            before_order = dict(b.vars)
            held = [u for u, c in h.ledger().items() if c > 0 and abs(u) in b._succ]
            univ = sorted(set(pool_names))
            tts_before = {u: TT(b, univ).of(u) for u in held} if all(n in univ for n in names) else {}
            r = rng.random()
            if r < 0.3:
                nm = rng.choice(pool_names)
                mode = rng.randrange(4)
                if mode == 0:
                    # one name, or several with a repeat inside the same call
                    group = [nm] + [rng.choice(pool_names) for _ in range(rng.randint(0, 2))]
                    if rng.random() < 0.5:
                        group.append(rng.choice(group))
                    before_n = len(before_order)
                    fresh_names = []
                    for g_ in group:
                        if g_ not in before_order and g_ not in fresh_names:
                            fresh_names.append(g_)
                    ans = s.op(0, 'declare', ','.join(group))
                    expect_ok = True
                    if ans.startswith('ok') and dict(b.vars) != {
                            **before_order, **{g_: before_n + i for i, g_ in enumerate(fresh_names)}}:
                        ctx.violation('declare with several names (repeats included) gave wrong levels', dict(
                            lines=list(s.lines), got=dict(b.vars), tags=dict(call='declare-group')))
                    nm = fresh_names[0] if fresh_names else nm
                elif mode == 1:
                    ans = s.op(0, 'add_var', nm)
                    expect_ok = True
                elif mode == 2:
                    # explicit level: the next bottom level, or the level it already has
                    lvl = b.vars.get(nm, len(b.vars))
                    ans = s.op(0, 'add_var', nm, lvl)
                    expect_ok = True
                else:
                    # conflicting level (in use by another name, or different from its own)
                    if not b.vars:
                        continue
                    other = rng.choice(sorted(b.vars))
                    lvl = b.vars[other]
                    ans = s.op(0, 'add_var', nm, lvl)
                    expect_ok = (nm == other)
                ctx.count('declare')
                if expect_ok != ans.startswith('ok'):
                    ctx.violation('add_var accepted/refused wrongly', dict(
                        lines=list(s.lines), got=ans, tags=dict(call='add_var')))
                if ans.startswith('ok') and nm not in before_order:
                    if b.vars.get(nm) != len(before_order):
                        ctx.violation('new variable not at the next bottom level', dict(
                            lines=list(s.lines), tags=dict(call='add_var-level')))
                if {k2: v for k2, v in b.vars.items() if k2 in before_order} != before_order:
                    ctx.violation('declaration moved existing variables', dict(
                        lines=list(s.lines), tags=dict(call='add_var-moves')))
            elif r < (0.6 if wide else 0.45) and names:
                if rng.random() < 0.4:
                    s.op(0, 'gc')
                    h.prune()
                used_levels = {i for (i, v, w) in b._succ.values() if v is not None}
                unused = [n for n in names if b.vars[n] not in used_levels]
                mode = rng.randrange(4)
                if mode == 0:
                    req = []
                elif mode == 1 and unused:
                    req = rng.sample(unused, rng.randint(1, len(unused)))
                elif mode == 2:
                    req = [rng.choice(names)]
                else:
                    req = ['nosuch']
                # views that may be remembered per node (support, count) asked BEFORE the removal ...
                asked = [u for u in held if abs(u) != 1][:3]
                supp_before = {u: s.op(0, 'support', u) for u in asked}
                cnt_before = {u: s.op(0, 'count', u) for u in asked}
                ans = s.op(0, 'undeclare', ','.join(req)) if req else s.op(0, 'undeclare')
                ctx.count('undeclare')
                if ans.startswith('ok'):
                    # ... and AFTER it: names and counts of a held function do not change
                    for u in asked:
                        if s.op(0, 'support', u) != supp_before[u] or s.op(0, 'count', u) != cnt_before[u]:
                            ctx.violation('support / count of a held reference changed when unused '
                                          'variables were removed', dict(
                                              lines=list(s.lines), ref=u, tags=dict(call='undeclare-views')))
                            break
                should_fail = any((n not in before_order) or (before_order[n] in used_levels) for n in req)
                if should_fail == ans.startswith('ok'):
                    ctx.violation('undeclare_vars accepted/refused wrongly', dict(
                        lines=list(s.lines), got=ans, tags=dict(call='undeclare')))
                if ans.startswith('ok'):
                    removed = set(req) if req else set(unused)
                    got_removed = set(ans[3:].split(',')) - {''}
                    left = [n for n in sorted(before_order, key=before_order.get) if n not in removed]
                    if got_removed != removed or dict(b.vars) != {n: i for i, n in enumerate(left)}:
                        ctx.violation('undeclare_vars removed the wrong variables or broke the order', dict(
                            lines=list(s.lines), got=ans, expected_removed=sorted(removed),
                            tags=dict(call='undeclare-result')))
                elif dict(b.vars) != before_order:
                    ctx.violation('failed undeclare_vars changed the order', dict(
                        lines=list(s.lines), tags=dict(call='undeclare')))
            elif names:
                h.step(dict(var=5, apply=6, ite=1, hold=4, release=1, gc=1, swap=1, quantify=1))
            # oracles
            bad = order_views_ok(b) + check_invariants(b, h.ledger(), probe=(rng.random() < 0.3))
            if tts_before and all(n in univ for n in b.vars):
                tt = TT(b, univ)
                for u, t in tts_before.items():
                    if abs(u) in b._succ and h.ledger().get(abs(u), 0) > 0 and tt.of(u) != t:
                        bad.append(f'reference {u} changed its function')
            ctx.evaluations += 1
            if bad:
                ctx.violation('variable declaration/removal broke the manager', dict(
                    problems=bad[:4], lines=list(s.lines), tags=dict(call='vars-invariant')))
                break
        s.state(0)
        ctx.case(('vars-history', k, tuple(s.lines[1:6])))
        ctx.add_session(s, SECTIONS_L3, 'C14 history')
        s.close()
    # constructor / add_var with explicit levels given in any declaration order
    # (the constructor declares in dict order: transient gaps are normal there)
    pool_names = SMALL_POOL
    for k in range(60 if ctx.tier == 'quick' else 600):
        n = rng.randint(1, 5)
        names = pool_names[:n]
        decl = names[:]
        rng.shuffle(decl)
        lv = {v: i for i, v in enumerate(names)}
        s = Session(ctx)
        ans = s.op(0, 'new', ','.join(f'{v}={lv[v]}' for v in decl))
        s.ledger[0] = {}
        if not ans.startswith('ok'):
            ctx.violation('constructor refused a valid order', dict(lines=list(s.lines), got=ans,
                                                                    tags=dict(call='constructor')))
            s.close()
            continue
        b = s.mgr(0)
        bad = order_views_ok(b) + check_invariants(b, {}, probe=True)
        # the manager must be usable: build something on every variable and count it
        acc = 1
        for v in names:
            acc = s.val(s.op(0, 'apply', 'xor', acc, s.val(s.op(0, 'var', v))))
        ans = s.op(0, 'count', acc)
        if ans != f'ok {1 << (n - 1)}':
            bad.append(f'count of the parity function is {ans}')
        bad += check_invariants(b, {}, probe=True)
        ctx.evaluations += 1
        if bad:
            ctx.violation('manager built from an order declared out of level order is broken', dict(
                problems=bad[:4], lines=list(s.lines), tags=dict(call='constructor')))
        s.state(0)
        ctx.case(('constructor', tuple(decl)))
        ctx.add_session(s, SECTIONS_L3, 'C14 constructor')
        s.close()
    # idempotence of declare
    s = Session(ctx)
    s.new(0, [])
    s.op(0, 'declare', 'x,y')
    st = s.state(0)
    s.op(0, 'declare', 'x,y')
    s.op(0, 'declare', 'y')
    if s.state(0) != st:
        ctx.violation('declare is not idempotent', dict(lines=list(s.lines), tags=dict(call='declare')))
    ctx.add_session(s, SECTIONS_L3, 'C14 idempotent')
    s.close()


# ---------------------------------------------------------------------------
# C17
# ---------------------------------------------------------------------------

def malformed_calls(rng, h):
    """One rejected call of a random kind: (label, op, args)."""
    names = h.names()
    u = h.pick()
    bogus = 900 + rng.randrange(50)
    some = rng.choice(names) if names else 'a'
    n = len(names)
    kinds = [
        ('undeclared-var', 'var', ['nosuch']),
        ('unknown-node-apply', 'apply', ['and', u, bogus]),
        ('unknown-node-ite', 'ite', [bogus, u, -1]),
        ('unknown-node-ite2', 'ite', [u, u, -bogus]),
        ('unknown-operator', 'apply', ['nand', u, u]),
        ('wrong-arity-1', 'apply', ['and', u]),
        ('wrong-arity-2', 'apply', ['not', u, u]),
        ('wrong-arity-3', 'apply', ['ite', u, u]),
        ('wrong-arity-4', 'apply', ['or', u, u, u]),
        ('conflicting-level', 'add_var', [some, (h.b.vars.get(some, 0) + 1)]),
        ('level-in-use', 'add_var', ['fresh_name', 0]) if n else ('undeclared-var', 'var', ['nosuch']),
        ('bad-level-foa', 'foa', [n + 3, 1, -1]),
        ('negative-level-foa', 'foa', [-1, 1, -1]),
        ('unknown-node-foa', 'foa', [0, bogus, 1]),
        ('bad-swap', 'swap', ['l:0', f'l:{n + 2}']),
        ('bad-swap-nonadjacent', 'swap', ['l:0', 'l:2']),
        ('bad-swap-same', 'swap', ['l:0', 'l:0']),
        ('bad-order', 'reorder', [f'{some}=0']) if n > 1 else ('undeclared-var', 'var', ['nosuch']),
        # an order of the right length that misses a declared name: `KeyError` in the middle of the
        # bubble sort, possibly after some swaps (the order may have changed, nothing else)
        ('bad-order-missing-name', 'reorder',
         [','.join(f'{nm}={i}' for i, nm in enumerate(
             rng.sample([x if x != some else 'nosuch' for x in names], n)))]) if n > 1 else
        ('undeclared-var', 'var', ['nosuch']),
        # the public `swap` collects garbage, then refuses a name that is not declared
        ('bad-swap-unknown-name', 'swap', ['n:nosuch', f'n:{some}']),
        # the rooted collection of an integer that is no node: `KeyError` before anything is freed
        ('gc-unknown-root', 'gc_roots', [f'{u},{bogus}']),
        ('pairs-unknown-name', 'reorder_pairs', [f'{some}=nosuch']),
        ('pairs-with-itself', 'reorder_pairs', [f'{some}={some}']) if n else
        ('undeclared-var', 'var', ['nosuch']),
        ('image-undeclared-qvar', 'image', [u, u, '', 'n:nosuch', 0]),
        ('image-unknown-node', 'image', [u, bogus, '', '', 0]),
        ('preimage-unknown-node', 'preimage', [bogus, u, '', '', 1]),
        ('bad-swap-unknown-name-2', 'swap', [f'n:{some}', 'n:nosuch']),
        ('undeclare-unknown', 'undeclare', ['nosuch']),
        ('quantify-undeclared', 'quantify', [u, 'n:nosuch', 0]),
        ('cofactor-undeclared', 'let_b', [u, 'n:nosuch=1']),
        ('compose-undeclared', 'let_r', [u, f'nosuch={u}']),
        ('rename-undeclared', 'let_n', [u, f'{some}=nosuch']),
        ('count-too-few', 'count', [u, -1]),
        ('unknown-node-count', 'count', [bogus]),
        ('unknown-node-support', 'support', [bogus]),
        ('unknown-node-to_expr', 'to_expr', [bogus]),
        ('unknown-node-cofactor', 'let_b', [bogus, f'n:{some}=1']),
        ('unknown-node-rename', 'let_n', [bogus, f'{some}={some}']),
        ('cube-undeclared', 'cube', ['nosuch=1']),
        ('compose-unknown-node', 'let_r', [u, f'{some}={bogus}']),
        ('compose-unknown-node-2', 'let_r', [u, ','.join(f'{nm}={bogus if k == len(names) - 1 else h.pick()}'
                                                          for k, nm in enumerate(names))]) if n >= 2 else
        ('undeclared-var', 'var', ['nosuch']),
        ('cube-late-undeclared', 'cube', [','.join([f'{nm}=1' for nm in names] + ['nosuch=1'])]),
        ('unknown-node-pick', 'pick_iter', [bogus]),
        ('rooted-gc-unknown-node', 'gc_roots', [f'{u},{bogus}']),
        ('descendants-unknown-node', 'descendants', [f'{u},{bogus}']),
        ('to_nx-unknown-node', 'to_nx', [str(bogus)]),
        ('incref-unknown-node', 'incref', [bogus]),
        ('decref-unknown-node', 'decref', [-bogus]),
        ('negative-level-add_var', 'add_var', ['fresh_name', -1]),
        ('pairs-undeclared', 'reorder_pairs', [f'{some}=nosuch']) if n else ('undeclared-var', 'var', ['nosuch']),
        ('pairs-late-undeclared', 'reorder_pairs', [f'{names[0]}={names[-1]},{names[1]}=nosuch'])
        if n >= 3 else ('undeclared-var', 'var', ['nosuch']),
        ('pairs-same-variable', 'reorder_pairs', [f'{some}={some}']) if n else ('undeclared-var', 'var', ['nosuch']),
    ]
    used = [nm for nm in names if any(t[0] == h.b.vars[nm] for t in h.b._succ.values() if t[1] is not None)]
    unused = [nm for nm in names if nm not in used]
    extra = []
    if used:
        extra.append(('undeclare-used', 'undeclare', [rng.choice(used)]))
    if n < 2:
        # sifting fewer than two variables raises (after the collection `reorder` starts with)
        extra.append(('sift-few-vars', 'reorder', []))
    # a request that is partly valid: some removable variables next to one that is in use or
    # unknown (whatever order a set of the names is visited in, nothing may be removed)
    if unused:
        some_unused = rng.sample(unused, rng.randint(1, len(unused)))
        bad = rng.choice(used) if used and rng.random() < 0.7 else 'nosuch'
        mixed = some_unused + [bad]
        rng.shuffle(mixed)
        extra.append(('undeclare-mixed', 'undeclare', [','.join(mixed)]))
    # find_or_add with exactly one unknown successor, in either position, next to a valid one
    valid = [x for x in h.pool if abs(x) in h.b._succ]
    if valid and n:
        w = rng.choice(valid)
        extra.append(('unknown-high-foa', 'foa', [0, w, rng.choice([bogus, -bogus])]))
        extra.append(('unknown-low-foa', 'foa', [0, rng.choice([bogus, -bogus]), abs(w)]))
        extra.append(('unknown-high-foa-terminal', 'foa', [0, rng.choice([1, -1]), bogus]))
    if extra and rng.random() < 0.3:
        return rng.choice(extra)
    return rng.choice(kinds + extra)


def _full_manager(ctx, n):
    """`max_nodes` reached: the `RuntimeError` of a full manager must leave it as it was (oracle
    only: the model has no capacity limit).  Lower the limit to a few nodes above the current
    size, run node-creating operations until one is refused, check structure, exact counts and
    every held function; raise the limit, repeat the refused call (must now succeed and be
    right), collect, check again."""
    import sys as _sys
    import impl as implmod
    _b = implmod._bdd
    rng = ctx.rng
    for k in range(n):
        nv = rng.randint(3, 6)
        names = [chr(ord('a') + i) for i in range(nv)]
        b = _b.BDD()
        b.declare(*names)
        ledger = {}
        pool = []
        for v in names:
            u = b.var(v)
            b.incref(u)
            ledger[abs(u)] = ledger.get(abs(u), 0) + 1
            pool.append(u)
        for _ in range(rng.randint(0, 12)):
            u = b.apply(rng.choice(['and', 'or', 'xor', 'implies']), rng.choice(pool), -rng.choice(pool))
            pool.append(u)
            if rng.random() < 0.5 and abs(u) != 1:
                b.incref(u)
                ledger[abs(u)] = ledger.get(abs(u), 0) + 1
        b.collect_garbage()
        pool = [u for u in pool if abs(u) in b._succ]
        b.max_nodes = len(b) + rng.randint(0, 4)
        held_tt = {u: TT(b, names).of(u) for u in ledger}
        refused = None
        for _ in range(40):
            kind = rng.choice(['apply', 'ite', 'let', 'quantify', 'var'])
            u, v, w = rng.choice(pool), rng.choice(pool), rng.choice(pool)
            if kind == 'apply':
                call = ('apply', rng.choice(['and', 'or', 'xor', 'equiv']), u, -v)
            elif kind == 'ite':
                call = ('ite', u, v, -w)
            elif kind == 'let':
                call = ('let', {rng.choice(names): v}, u)
            elif kind == 'quantify':
                call = ('quantify', u, {rng.choice(names)}, rng.random() < 0.5)
            else:
                call = ('var', rng.choice(names))
            try:
                r = getattr(b, call[0])(*call[1:])
                pool.append(r)
            except RuntimeError:
                refused = call
                break
        ctx.evaluations += 1
        if refused is None:
            ctx.count('full:not-reached')
            continue
        ctx.count('full:refused-' + refused[0])
        tt = TT(b, names)
        bad = check_invariants(b, ledger, probe=False) + order_views_ok(b)
        for u, t in held_tt.items():
            if u not in b._succ or tt.of(u) != t:
                bad.append(f'held node {u} changed or disappeared')
        if b._min_free in b._succ:
            bad.append('_min_free names a stored node')
        if bad:
            ctx.violation('a full manager (max_nodes reached) was left damaged by the refused call', dict(
                problems=bad[:4], call=repr(refused), tags=dict(call='failed:full')))
            continue
        # go on after raising the limit: the refused call, collections, more calls
        b.max_nodes = _sys.maxsize
        try:
            r = getattr(b, refused[0])(*refused[1:])
            b.incref(r)
            ledger[abs(r)] = ledger.get(abs(r), 0) + 1
            u0 = next(iter(held_tt))
            b.decref(u0)
            ledger[u0] -= 1
            b.collect_garbage()
            for _ in range(5):
                pool2 = [x for x in ledger if ledger[x] > 0 and x in b._succ]
                b.apply('xor', rng.choice(pool2), -rng.choice(pool2))
            b.collect_garbage()
            bad = check_invariants(b, ledger, probe=True)
        except Exception as e:  # noqa: BLE001
            bad = [f'operation after the refused call raised {e!r}']
        if bad:
            ctx.violation('operations after a refused call on a full manager go wrong', dict(
                problems=bad[:4], call=repr(refused), tags=dict(call='after-failed:full')))
        ctx.case(('full', k, refused[0]))
        # neutralise before the manager dies
        b._ref = {1: 0}
        b._succ = {1: b._succ[1]}
        b._pred = {}


def check_C17(ctx):
    _full_manager(ctx, 40 if ctx.tier == 'quick' else 400)
    rng = ctx.rng
    n_hist = 300 if ctx.tier == 'quick' else 1500
    for k in range(n_hist):
        if ctx.time_left() < 6:
            break
        nv = rng.randint(1, 4)
        names = [chr(ord('a') + i) for i in range(nv)]
        if k % 6 == 5:
            names = rng.sample(WIDE_NAMES, rng.randint(9, 10))
        dyn = rng.random() < 0.4
        if rng.random() < 0.5:
            # a few more declared variables, so that some stay unused (removable)
            names = names + [f'u{i}' for i in range(rng.randint(1, 3))]
            rng.shuffle(names)
        h = History(ctx, names)
        if dyn:
            h.s.op(0, 'configure', 1)
            if rng.random() < 0.5:
                h.s.op(0, 'set_last_len', rng.randint(2, 8))
        w = dict(var=4, apply=8, ite=2, quantify=1, cofactor=1, rename=1, compose=1, hold=5,
                 release=1, gc=1, swap=1, sift=0.5, order=0.5, gcroots=1, pairs=0.5, cube=1,
                 image=(0 if dyn else 0.5), preimage=(0 if dyn else 0.5))
        inject_at = sorted(rng.sample(range(60), rng.randint(2, 6)))
        roots_at = rng.randrange(5, 25) if rng.random() < 0.4 else -1
        for i in range(rng.randint(15, 60)):
            if i == roots_at:
                # `bdd.roots` not empty: the reordering functions check (and must not keep) them
                mine = [u for u in h.held if abs(u) in h.b._succ]
                if mine:
                    h.s.op(0, 'set_roots', ','.join(map(str, sorted(set(rng.sample(mine, min(len(mine), 3)))))))
                    ctx.count('roots-set')
            if i in inject_at:
                b = h.b
                univ = h.names()
                held = [u for u, c in h.ledger().items() if c > 0]
                tts = {u: TT(b, univ).of(u) for u in held}
                order = dict(b.vars)
                was_enabled = b._last_len is not None
                label, op, args = malformed_calls(rng, h)
                if dyn and was_enabled and label in ('cube-late-undeclared', 'compose-unknown-node-2') \
                        and len(univ) >= 2 and rng.random() < 0.7:
                    # make a request fire inside the valid part of the call, before it fails
                    h.s.op(0, 'set_last_len', 1)
                ans = h.s.op(0, op, *args)
                ctx.count('rejected:' + label)
                ctx.count('error:' + ans)
                ctx.evaluations += 1
                if not ans.startswith('err'):
                    # not a rejected call after all (e.g. conflicting level happened to match)
                    ctx.count('not-rejected')
                    h.prune()
                    continue
                bad = order_views_ok(b) + check_invariants(b, h.ledger(), probe=not dyn)
                if dict(b.vars) != order and label not in ('bad-order-missing-name', 'pairs-late-undeclared'):
                    bad.append('variable order changed by a failed call')
                tt = TT(b, univ)
                for u, t in tts.items():
                    if u not in b._succ:
                        bad.append(f'held node {u} deleted by a failed call')
                    elif tt.of(u) != t:
                        bad.append(f'held node {u} changed by a failed call')
                if ans == 'err NeedsReordering':
                    bad.append('internal reordering signal raised to the caller')
                if b._reordering_context:
                    bad.append('reordering context flag left set')
                order_changed = dict(b.vars) != order
                if bad and order_changed and bad == ['variable order changed by a failed call'] and dyn:
                    # a reordering served before the failure is a legitimate, invisible event
                    bad = []
                if was_enabled and b._last_len is None:
                    bad.append('dynamic reordering was silently switched off by the failed call')
                if bad:
                    ctx.violation(f'failed call ({label}) left damage', dict(
                        problems=bad[:4], lines=list(h.s.lines), tags=dict(call='failed:' + label)))
                    break
                # subsequent operations behave normally: a checked connective + a collection
                h.prune()
                cands = [x for x in h.held if abs(x) in b._succ] if dyn else h.pool
                if len(cands) >= 1 and univ:
                    sp = Space(univ)
                    u, v = rng.choice(cands), rng.choice(cands)
                    want = TT(b, univ).of(u) & TT(b, univ).of(v)
                    r = h.add(h.s.op(0, 'apply', 'and', u, v))
                    if r is None or TT(b, univ).of(r) != want:
                        ctx.violation(f'operation after a failed call ({label}) is wrong', dict(
                            lines=list(h.s.lines), tags=dict(call='after-failed:' + label)))
            elif dyn and rng.random() < 0.04:
                # the switch is turned off and on again in the middle of the history
                h.s.op(0, 'configure', rng.randint(0, 1))
                ctx.count('op:configure')
            else:
                h.step(w)
                h.prune()
        ctx.case(('inject', k, tuple(h.s.lines[2:5])))
        h.finish(SECTIONS_L3, 'C17 history')
