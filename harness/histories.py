"""Random structured histories over the public surface of `dd.bdd.BDD`.

Every choice is drawn from the context's PRNG.  A history keeps a pool of
references known to be valid in the implementation, holds some of them with
`incref` (the only ones later required to keep their meaning), and mixes
constructions, reference events, collections, swaps, reorderings, declarations.
"""
from lib import Session, TT, check_invariants, SECTIONS_L3

BIN_OPS = ['or', r'\/', '|', '||', 'and', '/\\', '&', '&&', '#', 'xor', '^',
           '=>', '->', 'implies', '<=>', '<->', 'equiv', 'diff', '-']
UN_OPS = ['~', 'not', '!']
Q_OPS = [r'\A', 'forall', r'\E', 'exists']


class History:
    def __init__(self, ctx, names, mid=0, dyn=False):
        self.ctx = ctx
        self.rng = ctx.rng
        self.s = Session(ctx)
        self.mid = mid
        self.s.new(mid, names)
        self.pool = [1, -1]
        self.held = []          # references the harness holds (incref'd)
        self.held_tt = {}       # ref -> truth table at the time it was taken
        self.dyn = dyn

    # -- helpers -----------------------------------------------------------
    @property
    def b(self):
        return self.s.mgr(self.mid)

    def names(self):
        return sorted(self.b.vars)

    def pick(self):
        return self.rng.choice(self.pool)

    def live(self, u):
        return abs(u) in self.b._succ

    def prune(self):
        self.pool = [u for u in self.pool if self.live(u)]
        if not self.pool:
            self.pool = [1, -1]

    def add(self, ans):
        v = self.s.val(ans)
        if v is not None and v not in self.pool:
            self.pool.append(v)
        return v

    def hold(self, u):
        self.s.incref(self.mid, u)
        self.held.append(u)

    def release(self):
        if not self.held:
            return
        u = self.held.pop(self.rng.randrange(len(self.held)))
        self.s.decref(self.mid, u)

    # -- one random step ---------------------------------------------------
    def step(self, weights=None):
        rng = self.rng
        names = self.names()
        kinds = weights or dict(
            var=4, apply=8, neg=1, ite=4, foa=2, cofactor=2, compose=2,
            rename=2, quantify=3, cube=1, hold=4, release=2, gc=2, swap=2,
            sift=1, order=1, query=2, declare=1, undeclare=1, gcroots=1, pairs=0.5,
            image=0.5, preimage=0.5)
        k = rng.choices(list(kinds), weights=list(kinds.values()))[0]
        self.ctx.count('op:' + k)
        mid = self.mid
        s = self.s
        if k == 'var' and names:
            self.add(s.op(mid, 'var', rng.choice(names)))
        elif k == 'apply':
            self.add(s.op(mid, 'apply', rng.choice(BIN_OPS), self.pick(), self.pick()))
        elif k == 'neg':
            self.add(s.op(mid, 'apply', rng.choice(UN_OPS), self.pick()))
        elif k == 'ite':
            self.add(s.op(mid, 'ite', self.pick(), self.pick(), self.pick()))
        elif k == 'foa' and names:
            # respect the documented precondition: level above both children
            v, w = self.pick(), self.pick()
            lv = min(self.b._succ[abs(v)][0], self.b._succ[abs(w)][0])
            if lv > 0:
                self.add(s.op(mid, 'foa', rng.randrange(lv), v, w))
        elif k == 'cofactor' and names:
            vs = rng.sample(names, rng.randint(1, min(3, len(names))))
            d = ','.join(f'n:{v}={rng.randint(0, 1)}' for v in vs)
            self.add(s.op(mid, rng.choice(['let_b', 'cofactor']), self.pick(), d))
        elif k == 'compose' and names:
            vs = rng.sample(names, rng.randint(1, min(2, len(names))))
            d = ','.join(f'{v}={self.pick()}' for v in vs)
            self.add(s.op(mid, rng.choice(['let_r', 'compose']), self.pick(), d))
        elif k == 'rename' and names:
            vs = rng.sample(names, rng.randint(1, min(3, len(names))))
            d = ','.join(f'{v}={rng.choice(names)}' for v in vs)
            self.add(s.op(mid, rng.choice(['let_n', 'rename']), self.pick(), d))
        elif k == 'quantify' and names:
            vs = rng.sample(names, rng.randint(1, min(3, len(names))))
            q = ','.join('n:' + v for v in vs)
            self.add(s.op(mid, 'quantify', self.pick(), q, rng.randint(0, 1)))
        elif k == 'cube' and names:
            vs = rng.sample(names, rng.randint(1, min(3, len(names))))
            self.add(s.op(mid, 'cube', ','.join(f'{v}={rng.randint(0, 1)}' for v in vs)))
        elif k == 'hold':
            u = self.pick()
            self.hold(u)
        elif k == 'release':
            if rng.random() < 0.15:
                # a VOID release: `decref` of a node whose count is already 0 is documented to have
                # no effect ("with 0 as minimum value"); the ledger is not touched
                zero = [u for u in self.pool if abs(u) in self.b._succ and self.b._ref.get(abs(u)) == 0]
                if zero:
                    self.ctx.count('op:void-release')
                    s.decref(mid, rng.choice(zero))
                    return
            self.release()
        elif k == 'gc':
            if rng.random() < 0.3 and len(self.pool) > 1:
                # the public ROOTED collection: starts from the given nodes that are unreferenced;
                # roots of either sign, held ones, constants, repeats, possibly none
                rs = [rng.choice(self.pool) * rng.choice([1, -1]) for _ in range(rng.randint(0, 4))]
                if rng.random() < 0.3:
                    rs.append(rng.choice([1, -1]))
                if rs:
                    self.ctx.count('op:gc-rooted')
                    s.op(mid, 'gc_roots', ','.join(map(str, rs)))
                    self.prune()
                    return
            s.op(mid, 'gc')
            self.prune()
        elif k == 'swap' and len(names) >= 2:
            i = rng.randrange(len(names) - 1)
            if rng.random() < 0.5:
                s.op(mid, 'swap', f'l:{i}', f'l:{i + 1}')
            else:
                s.op(mid, 'swap', 'n:' + self.b._level_to_var[i + 1],
                     'n:' + self.b._level_to_var[i])
            self.prune()
        elif k == 'sift' and len(names) >= 2:
            s.op(mid, 'reorder')
            self.prune()
        elif k == 'order' and len(names) >= 2:
            perm = names[:]
            rng.shuffle(perm)
            s.op(mid, 'reorder', ','.join(f'{v}={i}' for i, v in enumerate(perm)))
            self.prune()
        elif k == 'gcroots':
            # the public rooted collection: only the count-0 cascade from these nodes is freed
            rs = [self.pick() for _ in range(rng.randint(1, 3))]
            s.op(mid, 'gc_roots', ','.join(map(str, rs)))
            self.prune()
        elif k == 'pairs' and len(names) >= 2:
            vs = rng.sample(names, 2 * rng.randint(1, len(names) // 2))
            s.op(mid, 'reorder_pairs', ','.join(f'{vs[2 * i]}={vs[2 * i + 1]}' for i in range(len(vs) // 2)))
            self.prune()
        elif k in ('image', 'preimage') and len(names) >= 2:
            # one pair of neighbours renamed, one of them quantified; operands from the pool (the
            # call may be refused by the code's own assertions: both sides must agree on that too)
            i = rng.randrange(len(names) - 1)
            x, xp = self.b._level_to_var[i], self.b._level_to_var[i + 1]
            if rng.random() < 0.5:
                x, xp = xp, x
            rn, q = (f'n:{xp}=n:{x}', f'n:{x}') if k == 'image' else (f'n:{x}=n:{xp}', f'n:{xp}')
            self.add(s.op(mid, k, self.pick(), self.pick(), rn, q, rng.randint(0, 1)))
        elif k == 'query':
            u = self.pick()
            q = rng.choice(['support', 'count', 'pick_iter', 'to_expr', 'descendants', 'len', 'succ'])
            if q == 'descendants':
                s.op(mid, q, ','.join(str(self.pick()) for _ in range(rng.randint(1, 3))))
            elif q == 'len':
                s.op(mid, q)
            else:
                s.op(mid, q, u)
        elif k == 'declare':
            nm = f'z{len(names)}'
            s.op(mid, 'declare', nm)
        elif k == 'undeclare' and names:
            s.op(mid, 'gc')
            self.prune()
            if rng.random() < 0.5:
                s.op(mid, 'undeclare')
            else:
                s.op(mid, 'undeclare', rng.choice(names))
        else:
            self.ctx.count('op:skipped')

    def ledger(self):
        return self.s.ledger.get(self.mid, {})

    def check(self, probe=False):
        """Structural invariants + exact counts on the real manager."""
        return check_invariants(self.b, self.ledger(), probe=probe)

    def finish(self, sections=SECTIONS_L3, label=''):
        self.s.state(self.mid)
        self.ctx.add_session(self.s, sections, label)
        lines = list(self.s.lines)
        self.s.close()
        return lines
