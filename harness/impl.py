"""Execute protocol lines on the real `dd` (in-process) and print canonical answers.

The format of answers is identical to the Lean driver's (`lean/DD/Driver.lean`).
Python `set` iteration orders that influence node numbering are recorded by
wrapping `BDD.swap`, `BDD._levels` and `dd.bdd._reorder_var`, and returned as the
schedule string to append to the line given to the model.
"""
import os
import sys
import warnings

REPO = os.environ.get('DD_REPO', '/repo')
if REPO not in sys.path:
    sys.path.insert(0, REPO)
sys.dont_write_bytecode = True

import logging
logging.disable(logging.CRITICAL)
sys.unraisablehook = lambda *a, **k: None
warnings.simplefilter('ignore')

import dd.bdd as _bdd  # noqa: E402


def err_name(e):
    if isinstance(e, _bdd._NeedsReordering):
        return 'NeedsReordering'
    for cls, name in (
            (NotImplementedError, 'NotImplementedError'),
            (KeyError, 'KeyError'),
            (ValueError, 'ValueError'),
            (TypeError, 'TypeError'),
            (AssertionError, 'AssertionError'),
            (RuntimeError, 'RuntimeError')):
        if isinstance(e, cls):
            return name
    return 'OtherError'


class Recorder:
    """Records the iteration orders the model must be told about."""

    def __init__(self):
        self.items = []
        self.active = True
        # levels found stale in the caller's `all_levels` dict (see `_stale_levels`)
        self.stale = []


REC = Recorder()
_orig_swap = _bdd.BDD.swap
_orig_levels = _bdd.BDD._levels
_orig_reorder_var = _bdd._reorder_var


def _fmt_levels(snap):
    return '/'.join(
        f'{j}:' + '.'.join(str(u) for u in us)
        for j, us in sorted(snap.items()))


def _stale_levels(self, all_levels):
    """Levels whose entry in the caller's dict is not (as a set) the set of nodes at that
    level: the invariant `LevelsOK` of lean/DDProofs/SwapLevelsEq.lean, on the REAL code.
    Every level is compared, not only the two that `swap` touches."""
    try:
        cur = _orig_levels(self)
    except Exception:  # noqa: BLE001  (a node whose level is no variable's level)
        return ['?']
    return sorted(
        j for j in set(cur) | set(all_levels)
        if set(all_levels.get(j, ())) != set(cur.get(j, ())))


def _swap_w(self, x, y, all_levels=None):
    if all_levels is not None:
        # the dict the caller computed once and earlier swaps patched: exact on entry ...
        bad = _stale_levels(self, all_levels)
        if bad:
            REC.stale.append(('before', bad))
        snap = {j: list(s) for j, s in all_levels.items()}
        REC.items.append('swap=' + _fmt_levels(snap))
        r = _orig_swap(self, x, y, all_levels)
        # ... and exact again, for ALL levels, after `all_levels[x] = newy; all_levels[y] = newx`
        bad = _stale_levels(self, all_levels)
        if bad:
            REC.stale.append(('after', bad))
        return r
    self._verif_snap = None
    self._verif_want_snap = True
    try:
        return _orig_swap(self, x, y, all_levels)
    finally:
        self._verif_want_snap = False
        if self._verif_snap is not None:
            REC.items.append('swap=' + _fmt_levels(self._verif_snap))


def _levels_w(self):
    r = _orig_levels(self)
    if getattr(self, '_verif_want_snap', False):
        self._verif_snap = {j: list(s) for j, s in r.items()}
        self._verif_want_snap = False
    return r


class _NamesProxy:
    pass


def _apply_sifting_names_hook(bdd, var, levels):
    # `_reorder_var` is called once per variable in `for var in names` order;
    # the first call of a sifting pass is marked by `_verif_sift_open`.
    if not getattr(bdd, '_verif_sift_open', False):
        bdd._verif_sift_open = True
        bdd._verif_sift_idx = len(REC.items)
        REC.items.append(['sift', [var]])
    else:
        REC.items[bdd._verif_sift_idx][1].append(var)
    return _orig_reorder_var(bdd, var, levels)


_orig_apply_sifting = _bdd._apply_sifting


def _apply_sifting_w(bdd):
    bdd._verif_sift_open = False
    try:
        return _orig_apply_sifting(bdd)
    finally:
        bdd._verif_sift_open = False


def install_recorders():
    _bdd.BDD.swap = _swap_w
    _bdd.BDD._levels = _levels_w
    _bdd._reorder_var = _apply_sifting_names_hook
    _bdd._apply_sifting = _apply_sifting_w


def take_schedule():
    items = REC.items
    REC.items = []
    out = []
    for it in items:
        if isinstance(it, list):
            out.append('sift=' + ','.join(it[1]))
        else:
            out.append(it)
    return ';'.join(out)


def parse_key(s):
    if s.startswith('n:'):
        return s[2:]
    if s.startswith('l:'):
        return int(s[2:])
    raise ValueError(s)


def split1(s, sep=','):
    return s.split(sep) if s else []


def parse_pairs(s):
    return [tuple(x.split('=', 1)) for x in split1(s)]


def show_bool(b):
    return '1' if b else '0'


def assignment_str(d):
    if not d:
        return '*'
    return '&'.join(sorted(f'{k}={show_bool(v)}' for k, v in d.items()))


def dump_state(b):
    vars_ = ','.join(f'{v}:{l}' for v, l in sorted(b.vars.items(), key=lambda kv: (kv[1], kv[0])))
    l2v = ','.join(f'{l}:{v}' for l, v in sorted(b._level_to_var.items()))
    succ = ','.join(
        f'{u}:{i}:{v}:{w}' for u, (i, v, w) in sorted(b._succ.items()) if u != 1)
    ref = ','.join(f'{u}:{c}' for u, c in sorted(b._ref.items()))
    pred = ','.join(
        f'{i}:{v}:{w}>{u}' for (i, v, w), u in sorted(
            ((t, u) for t, u in b._pred.items() if t[1] is not None),
            key=lambda tu: tu[1]))
    cache = ','.join(
        f'{g}:{u}:{v}>{w}' for (g, u, v), w in sorted(b._ite_table.items()))
    last_len = 'none' if b._last_len is None else str(b._last_len)
    roots = ','.join(str(r) for r in sorted(b.roots))
    # the terminal: `_succ[1]` must be `(len(vars), None, None)`, `_pred` must know it
    t1 = b._succ.get(1)
    term_ok = (t1 == (len(b.vars), None, None) and b._pred.get(t1) == 1)
    s = (f'vars={vars_}|l2v={l2v}|succ={succ}|ref={ref}|min_free={b._min_free}'
         f'|pred={pred}|cache={cache}|last_len={last_len}'
         f'|ctx={show_bool(b._reordering_context)}|roots={roots}')
    if not term_ok:
        s += '|TERMINAL-BROKEN'
    return s


SCRATCH = os.path.join(os.path.dirname(os.path.dirname(os.path.abspath(__file__))), '.work', 'scratch')


def graph_str(nodes, edges):
    ns = ','.join(f'{u}@{l}' for u, l in sorted(nodes))
    es = ','.join(f'{u}>{v}:{show_bool(val)}:{show_bool(c)}'
                  for u, v, val, c in sorted(edges, key=lambda e: (e[0], e[2])))
    return f'N={ns};E={es}'


def nx_graph_str(g):
    nodes = [(u, d['level']) for u, d in g.nodes(data=True)]
    edges = [(u, v, bool(d['value']), bool(d['complement']))
             for u, v, d in g.edges(data=True)]
    return graph_str(nodes, edges)


def parse_dot(text):
    """Abstract content of the DOT text written by `BDD.dump`:
    nodes `(id, level, label)`, edges `(src, dst, solid, complemented)`, root references."""
    import re
    nodes = {}
    edges = []
    roots = []
    ref_labels = {}
    level = None
    for line in text.split('\n'):
        line = line.strip()
        m = re.match(r'^"L(-?\d+)" \[', line)
        if m:
            level = int(m.group(1))
            continue
        m = re.match(r'^"ref(-?\d+)" \[label="@(-?\d+)"\];$', line)
        if m:
            continue
        m = re.match(r'^(\d+) \[label="([^"]*)"\];$', line)
        if m:
            nodes[int(m.group(1))] = (level, m.group(2))
            continue
        m = re.match(r'^(\d+) -> (\d+) \[(.*)\];$', line)
        if m:
            attrs = dict(re.findall(r'(\w+)="([^"]*)"', m.group(3)))
            edges.append((int(m.group(1)), int(m.group(2)),
                          attrs.get('style') == 'solid', attrs.get('taillabel') == '-1'))
            continue
        m = re.match(r'^"ref(-?\d+)" -> (\d+) \[(.*)\];$', line)
        if m:
            attrs = dict(re.findall(r'(\w+)="([^"]*)"', m.group(3)))
            roots.append((int(m.group(1)), int(m.group(2)), attrs.get('taillabel') == '-1'))
    # a reference node whose label names another root is reported under that label
    roots = [(ref_labels.get(r, r), t, c) for r, t, c in roots]
    return nodes, edges, roots


def dot_graph_str(text):
    nodes, edges, roots = parse_dot(text)
    rs = ','.join(f'{r}>{t}:{show_bool(c)}' for r, t, c in sorted(roots))
    return graph_str([(u, lv) for u, (lv, _lab) in nodes.items()], edges) + ';R=' + rs


# extension points for vertical slices (parser, MDD, dump/load, ...):
# EXT_OPS[op](impl, bdd, args) -> answer text for ops on an existing dd.bdd manager,
# EXT_LINE_OPS[op](impl, mgr_id, args) -> answer text for ops that manage their own objects
EXT_OPS = {}
EXT_LINE_OPS = {}


class Impl:
    def __init__(self):
        self.mgrs = {}
        self.objs = {}      # other objects of extension slices, by kind

    def reset(self):
        # let managers die quietly (their `__del__` asserts on live references)
        for b in self.mgrs.values():
            try:
                b._ref = {1: 0}
                b._succ = {1: b._succ[1]}
                b._pred = {}
            except Exception:
                pass
        self.mgrs = {}
        self.objs = {}

    def run(self, line):
        """Return `(answer, schedule)`."""
        REC.items = []
        REC.stale = []
        fields = line.split('\t')
        try:
            ans = self._run(fields)
            out = 'ok ' + ans
        except Exception as e:  # noqa: BLE001
            out = 'err ' + err_name(e)
        if REC.stale and not os.environ.get('VERIF_NO_LEVELS_CHECK'):
            # (the switch exists only to measure what the check adds: see seeded/C07j)
            # never an answer of the model: reported as a disagreement, like `SCHED-LEFT`
            out += ' LEVELS-STALE'
        return out, take_schedule()

    def _run(self, f):
        if f[0] == 'reset':
            self.reset()
            return '-'
        mid = int(f[0])
        op = f[1]
        a = f[2:]
        if op == 'new':
            levels = {k: int(v) for k, v in parse_pairs(a[0])} if a else {}
            b = _bdd.BDD(levels)
            self.mgrs[mid] = b
            return '-'
        h = EXT_LINE_OPS.get(op)
        if h is not None:
            return h(self, mid, a)
        if op == 'mcopy':
            import copy as _copymod
            self.mgrs[int(a[0])] = _copymod.copy(self.mgrs[mid])
            return '-'
        if op == 'copy':
            u, dst = int(a[0]), int(a[1])
            r = _bdd.copy_bdd(u, self.mgrs[mid], self.mgrs[dst])
            return str(r)
        b = self.mgrs[mid]
        return self._step(b, op, a)

    def _step(self, b, op, a):
        if op == 'declare':
            b.declare(*(split1(a[0]) if a else []))
            return '-'
        if op == 'add_var':
            if len(a) == 1:
                return str(b.add_var(a[0]))
            return str(b.add_var(a[0], int(a[1])))
        if op == 'var':
            return str(b.var(a[0]))
        if op == 'foa':
            return str(b.find_or_add(int(a[0]), int(a[1]), int(a[2])))
        if op == 'ite':
            return str(b.ite(int(a[0]), int(a[1]), int(a[2])))
        if op == 'apply':
            return str(b.apply(a[0], *map(int, a[1:])))
        if op in ('cofactor', 'let_b'):
            d = {parse_key(k): (v == '1') for k, v in parse_pairs(a[1])}
            if op == 'cofactor':
                return str(b.cofactor(int(a[0]), d))
            return str(b.let(d, int(a[0])))
        if op in ('compose', 'let_r'):
            d = {k: int(v) for k, v in parse_pairs(a[1])}
            if op == 'compose':
                return str(b.compose(int(a[0]), d))
            return str(b.let(d, int(a[0])))
        if op in ('rename', 'let_n'):
            d = dict(parse_pairs(a[1]))
            if op == 'rename':
                return str(b.rename(int(a[0]), d))
            return str(b.let(d, int(a[0])))
        if op == 'quantify':
            keys = shaped(map(parse_key, split1(a[1])), 1)
            return str(b.quantify(int(a[0]), keys, a[2] == '1'))
        if op == 'cube':
            d = {k: (v == '1') for k, v in parse_pairs(a[0])}
            return str(b.cube(d))
        if op == 'incref':
            b.incref(int(a[0]))
            return '-'
        if op == 'decref':
            b.decref(int(a[0]))
            return '-'
        if op == 'ref':
            return str(b.ref(int(a[0])))
        if op == 'gc':
            b.collect_garbage()
            return '-'
        if op == 'gc_roots':
            b.collect_garbage(shaped(map(int, split1(a[0])), 2))
            return '-'
        if op == 'swap':
            o, n = b.swap(parse_key(a[0]), parse_key(a[1]))
            return f'{o},{n}'
        if op == 'reorder':
            if a:
                _bdd.reorder(b, {k: int(v) for k, v in parse_pairs(a[0])})
            else:
                _bdd.reorder(b)
            return '-'
        if op == 'reorder_pairs':
            _bdd.reorder_to_pairs(b, dict(parse_pairs(a[0])))
            return '-'
        if op == 'undeclare':
            r = b.undeclare_vars(*(split1(a[0]) if a else []))
            return ','.join(sorted(r))
        if op == 'support':
            return ','.join(sorted(b.support(int(a[0]))))
        if op == 'support_levels':
            return ','.join(map(str, sorted(b.support(int(a[0]), as_levels=True))))
        if op == 'is_essential':
            return show_bool(b.is_essential(int(a[0]), a[1]))
        if op == 'count':
            if len(a) == 1:
                return str(b.count(int(a[0])))
            return str(b.count(int(a[0]), int(a[1])))
        if op == 'pick_iter':
            # `care_vars` is documented as a set (it is read more than once)
            care = None if len(a) == 1 else set(split1(a[1]))
            return ','.join(sorted(
                assignment_str(d) for d in b.pick_iter(int(a[0]), care)))
        if op == 'descendants':
            return ','.join(map(str, sorted(
                b.descendants(shaped(map(int, split1(a[0])), 4)))))
        if op == 'to_expr':
            return b.to_expr(int(a[0]))
        if op == 'len':
            return str(len(b))
        if op == 'contains':
            return show_bool(int(a[0]) in b)
        if op == 'succ':
            i, v, w = b.succ(int(a[0]))
            return f'{i},{v},{w}'
        if op == 'var_at_level':
            return b.var_at_level(int(a[0]))
        if op == 'level_of_var':
            return str(b.level_of_var(a[0]))
        if op in ('image', 'preimage'):
            rn = {parse_key(k): parse_key(v) for k, v in parse_pairs(a[2])}
            q = shaped(map(parse_key, split1(a[3])), 3)
            fn = _bdd.image if op == 'image' else _bdd.preimage
            return str(fn(int(a[0]), int(a[1]), rn, q, b, a[4] == '1'))
        if op == 'configure':
            if a:
                return show_bool(b.configure(reordering=(a[0] == '1'))['reordering'])
            return show_bool(b.configure()['reordering'])
        if op == 'set_last_len':
            b._last_len = None if a[0] == 'none' else int(a[0])
            return '-'
        if op == 'fire_in':
            set_fire(b, int(a[0]))
            return '-'
        if op == 'fire_off':
            set_fire(b, None)
            return '-'
        if op == 'set_roots':
            b.roots = set(map(int, split1(a[0])))
            return '-'
        if op == 'to_nx':
            roots = list(map(int, split1(a[0]))) if a else []
            g = _bdd.to_nx(b, roots)
            return nx_graph_str(g)
        if op in ('to_dot', 'to_dot_all'):
            roots = None if op == 'to_dot_all' else list(map(int, split1(a[0])))
            os.makedirs(SCRATCH, exist_ok=True)
            fn = os.path.join(SCRATCH, f'g{os.getpid()}.dot')
            try:
                b.dump(fn, roots=roots, filetype='dot')
                text = open(fn).read()
            finally:
                if os.path.exists(fn):
                    os.remove(fn)
            return dot_graph_str(text)
        if op == 'state':
            return dump_state(b)
        h = EXT_OPS.get(op)
        if h is not None:
            return h(self, b, a)
        raise RuntimeError('unknown op ' + op)


def shaped(items, salt):
    """The same elements in the same order, as one of several kinds of iterable — a list, a
    tuple, a one-shot generator, an iterator, a dict's key view: the public functions are
    documented to take an iterable, so callers pass all of these.  The kind is a function of the
    elements (reproducible, and the model never sees it)."""
    items = list(items)
    k = (sum(len(str(x)) + sum(map(ord, str(x))) for x in items) + salt) % 7
    if k == 5:
        return set(items)
    if k == 6:
        return frozenset(items)
    if k == 0:
        return OrderedKeys(items)
    if k == 1:
        return tuple(items)
    if k == 2:
        return (x for x in items)
    if k == 3:
        return iter(items)
    return dict.fromkeys(items).keys() if len(set(map(str, items))) == len(items) else OrderedKeys(items)


class OrderedKeys(list):
    """An iterable whose order is the order written on the protocol line.

    `dd` turns it into a `set`; for the one place where the first element of
    that set matters (`_map_to_level`), lines only carry homogeneous keys.
    """


# harness-controlled trigger of the reordering request -------------------------

_FIRE = {}
_orig_request = _bdd._request_reordering


def set_fire(b, k):
    if k is None:
        _FIRE.pop(id(b), None)
    else:
        _FIRE[id(b)] = k


def _request_w(bdd):
    k = _FIRE.get(id(bdd))
    if k is None:
        return _orig_request(bdd)
    if bdd._last_len is None:
        return
    if k <= 1:
        _FIRE.pop(id(bdd), None)
        raise _bdd._NeedsReordering()
    _FIRE[id(bdd)] = k - 1


def install_fire():
    _bdd._request_reordering = _request_w


install_recorders()
install_fire()
