#!/venv/bin/python
"""Entry point of every check:  vcheck.py <property> --tier quick|thorough [--replay file]

Exit codes: 0 property held on everything explored (KNOWN-FINDING lines allowed),
1 violation (with a `VIOLATION property=<id> replay=<path>` line), 2 tool error/timeout.
"""
import argparse
import json
import os
import sys
import traceback

HERE = os.path.dirname(os.path.abspath(__file__))
sys.path.insert(0, HERE)
os.environ.setdefault('PYTHONDONTWRITEBYTECODE', '1')

import lib  # noqa: E402

TRUSTED = [
    'Lean 4.33.0 kernel; axioms allowed in property theorems: propext, Classical.choice, Quot.sound (audited with #print axioms on every run)',
    'harness/extract.py (translator of apply tables, vocabulary, parser tables, constants into lean/Generated/Tables.lean)',
    'harness/impl.py + lean/DD/Driver.lean + the line-by-line diff (correspondence between the hand-written model and the code)',
    'modelling conventions: dict -> map lookups, unbounded ints, generators -> lists, exceptions -> Except with persistent state, set iteration orders recorded and passed as schedules',
    'independent truth-table / invariant / ledger oracles (harness/lib.py, funcs.py) used only for the failing-input search and as a cross-check',
]


def registry():
    import checks_core as cc
    reg = {
        'C01': (cc.check_C01, 'apply/ite/negation results vs truth-table oracle; exhaustive pairs over 256 functions of 3 variables, sampled ITE triples, random histories with warm cache / GC / swaps; distinct = distinct (kind, alias, order) enumerations and histories'),
        'C02': (cc.check_C02, 'every function of 3 variables by 5 routes x orders, canonicity + structure oracle after every step of random interleavings; distinct = route sets and histories'),
        'C03': (cc.check_C03, 'all 256 functions x 8 subsets x 2 quantifiers x orders x fresh/used managers x 4 call forms'),
        'C04': (cc.check_C04, 'all 256 functions x all partial assignments, renaming maps (all 27 in thorough), sampled replacement tuples, orders'),
        'C06': (cc.check_C06, 'all op sequences of length 4 (+ sample of length 5) over a 9-letter alphabet on 2 variables, stale-cache templates, long histories; ledger + reachability oracle'),
        'C07': (cc.check_C07, 'random sets of <=3 held functions over 3 variables x swap/sift/order/pairs x starting orders, 4-5 variable histories; exact state compared with recorded set orders'),
        'C10': (cc.check_C10, 'all 256 functions x support/is_essential/count(n)/pick_iter(care) x orders; 5-variable functions with level gaps'),
        'C14': (cc.check_C14, 'random interleavings of declare/add_var/undeclare_vars/constructions/collections/swaps over <=6 names'),
        'C17': (cc.check_C17, 'rejected calls of ~30 kinds injected at random positions of random histories, reordering off and on'),
    }
    import checks_more as cm
    reg.update({
        'C09': (cm.check_C09, 'each decorated operation on random scenarios with the reordering request fired at k = 1..K (until it no longer fires), compared with the reordering-disabled run; natural triggering at lowered thresholds in histories'),
        'C11': (cm.check_C11, 'all 256 functions of 3 variables x source/target order pairs, targets with extra variables and pre-existing nodes; dd._copy functions on dd.autoref'),
        'C13': (cm.check_C13, 'exhaustive one primed/unprimed pair (16x16 functions, both orders, all qvars, both quantifiers, names/levels); sampled 2-3 pairs, adjacent and (image) arbitrary orders'),
        'C18': (cm.check_C18, 'all 256 functions, both signs: to_nx / DOT text re-read and evaluated, descendants, len, succ; Function.low/high/var/negated traversal'),
    })
    # vertical slices register themselves: any harness/checks_*.py with a REGISTRY dict
    import glob
    import importlib
    for path in sorted(glob.glob(os.path.join(HERE, 'checks_*.py'))):
        name = os.path.basename(path)[:-3]
        if name in ('checks_core', 'checks_more'):
            continue
        mod = importlib.import_module(name)
        reg.update(getattr(mod, 'REGISTRY', {}))
    return reg


def _unknown_violations(ctx):
    known = lib.load_known()
    return [v for v in ctx.violations if lib.match_known(ctx.prop, v, known) is None]


def main():
    ap = argparse.ArgumentParser()
    ap.add_argument('prop')
    ap.add_argument('--tier', default=os.environ.get('VERIF_TIER', 'quick'))
    ap.add_argument('--replay')
    args = ap.parse_args()
    seed = int(os.environ.get('VERIF_SEED', '0') or 0)
    tier = args.tier if args.tier in ('quick', 'thorough') else 'quick'
    reg = registry()
    if args.prop not in reg:
        print(f'no check registered for {args.prop}')
        return 2
    if args.replay:
        with open(args.replay) as f:
            data = json.load(f)
        print(json.dumps(data, indent=1)[:4000])
        seed = data.get('seed', seed)
    fn, rule = reg[args.prop]
    ctx = lib.Ctx(args.prop, tier, seed)
    try:
        lean = lib.lean_side(args.prop, thorough=(tier == 'thorough'))
    except Exception:  # noqa: BLE001
        traceback.print_exc()
        return 2
    try:
        fn(ctx)
    except Exception:  # noqa: BLE001
        traceback.print_exc()
        return 2
    # a proof obligation or the correspondence broke and no failing input was seen yet:
    # search harder on the real code (the property's own thorough generators, bounded in time)
    ctx.flush_model()
    if (not lean['ok'] or ctx.disagreements) and not _unknown_violations(ctx):
        search_s = int(os.environ.get('VERIF_SEARCH_S', '90'))
        ctx2 = lib.Ctx(args.prop, 'thorough', seed + 7919)
        ctx2.budget_s = search_s
        ctx2.no_model = True
        try:
            fn(ctx2)
        except Exception:  # noqa: BLE001
            traceback.print_exc()
        ctx2.pending = []
        ctx.violations.extend(ctx2.violations)
        ctx.evaluations += ctx2.evaluations
        ctx.case_hashes |= ctx2.case_hashes
        ctx.notes.append(f'failing-input search ran {search_s}s budget: {ctx2.evaluations} more evaluations, '
                         f'{len(ctx2.violations)} oracle failures')
    code = lib.finish(ctx, lean, '', TRUSTED, rule)
    print(f'{args.prop} {tier} seed={seed}: evaluations={ctx.evaluations} '
          f'distinct={len(ctx.case_hashes)} lines={ctx.sessions_lines} '
          f'obligations={len(lean["obligations"])}/{len(lean["discharged"])} '
          f'violations={len(ctx.violations)} disagreements={len(ctx.disagreements)} '
          f'wall={round(__import__("time").time() - ctx.t0, 1)}s exit={code}')
    return code


if __name__ == '__main__':
    sys.exit(main())
