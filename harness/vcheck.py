#!/venv/bin/python
"""Entry point of every check:  vcheck.py <property> --tier quick|thorough [--replay file]

Exit codes: 0 property held on everything explored (KNOWN-FINDING lines allowed),
1 violation (with a `VIOLATION property=<id> replay=<path>` line), 2 tool error/timeout.
"""
import argparse
import json
import os
import sys
import traceback

HERE = os.path.dirname(os.path.abspath(__file__))
sys.path.insert(0, HERE)
os.environ.setdefault('PYTHONDONTWRITEBYTECODE', '1')

import lib  # noqa: E402

TRUSTED = [
    'Lean 4.33.0 kernel; axioms allowed in property theorems: propext, Classical.choice, Quot.sound (audited with #print axioms on every run)',
    'harness/extract.py (translator of apply tables, vocabulary, parser tables, constants into lean/Generated/Tables.lean)',
    'harness/impl.py + lean/DD/Driver.lean + the line-by-line diff (correspondence between the hand-written model and the code)',
    'modelling conventions: dict -> map lookups, unbounded ints, generators -> lists, exceptions -> Except with persistent state, set iteration orders recorded and passed as schedules',
    'independent truth-table / invariant / ledger oracles (harness/lib.py, funcs.py) used only for the failing-input search and as a cross-check',
]


EXTRA_TARGETS = {}


def registry():
    import checks_core as cc
    reg = {
        'C01': (cc.check_C01, 'apply/ite/negation results vs truth-table oracle; exhaustive pairs over 256 functions of 3 variables, sampled ITE triples, random histories with warm cache / GC / swaps; distinct = distinct (kind, alias, order) enumerations and histories'),
        'C02': (cc.check_C02, 'every function of 3 variables by 8 routes (node by node, connectives, rename, cofactor, two compositions, parsing a DNF formula, copy) x orders, canonicity + structure oracle after every step of random interleavings; distinct = route sets and histories', 'ddvparse'),
        'C03': (cc.check_C03, 'all 256 functions x 8 subsets x 2 quantifiers x orders x fresh/used managers x 4 call forms'),
        'C04': (cc.check_C04, 'all 256 functions x all partial assignments, renaming maps (all 27 in thorough), sampled replacement tuples, orders'),
        'C06': (cc.check_C06, 'all op sequences of length 4 (+ sample of length 5) over a 9-letter alphabet on 2 variables, stale-cache templates, long histories; ledger + reachability oracle'),
        'C07': (cc.check_C07, 'random sets of <=3 held functions over 3 variables x swap/sift/order/pairs x starting orders, 4-5 variable histories; exact state compared with recorded set orders'),
        'C10': (cc.check_C10, 'all 256 functions x support/is_essential/count(n)/pick_iter(care) x orders; 5-variable functions with level gaps'),
        'C14': (cc.check_C14, 'random interleavings of declare/add_var/undeclare_vars/constructions/collections/swaps over <=6 names'),
        'C17': (cc.check_C17, 'rejected calls of ~30 kinds injected at random positions of random histories, reordering off and on'),
    }
    import checks_more as cm
    reg.update({
        'C09': (cm.check_C09, 'each decorated operation (incl. add_expr) on random scenarios with the reordering request fired at k = 1..K (until it no longer fires), compared with the reordering-disabled run; natural triggering at lowered thresholds in histories', 'ddvparse'),
        'C11': (cm.check_C11, 'all 256 functions of 3 variables x source/target order pairs, targets with extra variables and pre-existing nodes; dd._copy functions on dd.autoref'),
        'C13': (cm.check_C13, 'exhaustive one primed/unprimed pair (16x16 functions, both orders, all qvars, both quantifiers, names/levels); sampled 2-3 pairs, adjacent and (image) arbitrary orders'),
        'C18': (cm.check_C18, 'all 256 functions, both signs: to_nx / DOT text re-read and evaluated, descendants, len, succ; Function.low/high/var/negated traversal'),
    })
    # vertical slices register themselves: any harness/checks_*.py with a REGISTRY dict
    import glob
    import importlib
    extras = {}
    for path in sorted(glob.glob(os.path.join(HERE, 'checks_*.py'))):
        name = os.path.basename(path)[:-3]
        if name in ('checks_core', 'checks_more'):
            continue
        mod = importlib.import_module(name)
        reg.update(getattr(mod, 'REGISTRY', {}))
        # several slices may extend the same property: `EXTRAS = {'Cxx': [fn, ...]}`; the
        # functions run after whichever check function is registered for the property
        for k, fns in getattr(mod, 'EXTRAS', {}).items():
            extras.setdefault(k, []).extend(fns)
            # an extra may replay its sessions on a driver of its own (it switches `ctx.driver`
            # around its sessions): `EXTRA_DRIVERS = [exe, ...]` are built with the property
            for d in getattr(mod, 'EXTRA_DRIVERS', []):
                if d not in EXTRA_TARGETS.setdefault(k, []):
                    EXTRA_TARGETS[k].append(d)
    for k, fns in extras.items():
        if k in reg:
            reg[k] = (_with_extras(reg[k][0], fns),) + tuple(reg[k][1:])
    return reg


def _with_extras(fn, fns):
    def run(ctx):
        fn(ctx)
        for f in fns:
            f(ctx)
    return run


def _unknown_violations(ctx):
    known = lib.load_known()
    return [v for v in ctx.violations if lib.match_known(ctx.prop, v, known) is None]


def replay(prop, data):
    """Re-execute a replay file: its protocol lines on the real code and on the model, side by
    side, then the structural oracle.  Returns an exit code, or None when the replay carries no
    op list (the check is then simply re-run with the replay's seed)."""
    print(json.dumps({k: v for k, v in data.items() if k != 'replay'}, indent=1)[:1500])
    rp = data.get('replay', {})
    lines = rp.get('lines')
    if not lines and data.get('broken'):
        for b in data['broken']:
            if b.get('lines'):
                lines = b['lines']
                break
    print(json.dumps({k: v for k, v in rp.items() if k != 'lines'}, indent=1, default=str)[:3000])
    if not lines:
        return None
    ctx = lib.Ctx(prop, 'quick', data.get('seed', 0))
    s = lib.Session(ctx)
    for ln in lines:
        if ln == 'reset':
            continue
        s._do(ln.split('\tS:')[0])
    try:
        out = lib.run_model(s.lines)
    except Exception as e:  # noqa: BLE001
        out = [f'(model driver failed: {e!r})'] * len(s.lines)
    bad = 0
    for ln, a, m in zip(s.lines, s.answers, out):
        same = lib.filter_state(a, lib.SECTIONS_L3) == lib.filter_state(m, lib.SECTIONS_L3)
        bad += (not same)
        print(('  ' if same else '!!'), ln.replace('\t', ' ')[:120], '|', a[:100], '' if same else '| MODEL: ' + m[:100])
    probs = []
    for mid, b in s.impl.mgrs.items():
        probs += [f'manager {mid}: {p}' for p in lib.check_invariants(b, None)]
    for p_ in probs[:10]:
        print('INVARIANT:', p_)
    s.close()
    print(f'replayed {len(lines)} lines: {bad} model/implementation differences, {len(probs)} invariant problems')
    return 1 if (bad or probs) else None


def run_shard(prop, fn, seed, k, n):
    """One shard of a thorough run: generators + correspondence, summary to .work/."""
    import json as _json
    ctx = lib.Ctx(prop, 'thorough', seed * 1009 + k)
    ctx.shard, ctx.nshards = k, n
    reg = registry()
    ctx.driver = reg[prop][2] if len(reg[prop]) > 2 else None
    ctx.budget_s = int(os.environ.get('VERIF_SHARD_S', '420'))
    rc = 0
    rounds = 0
    import random as _random
    try:
        # repeat the generators with fresh randomness until the shard's time budget is used
        while True:
            fn(ctx)
            ctx.flush_model()
            rounds += 1
            if (ctx.time_left() < 0.25 * ctx.budget_s or _unknown_violations(ctx) or ctx.disagreements
                    or rounds >= 200 or len(ctx.violations) > 5000):
                break
            ctx.rng = _random.Random((seed * 1009 + k) * 7919 + rounds)
    except Exception:  # noqa: BLE001
        # as in the quick tier: a generator that stops on unexpected behaviour of the
        # implementation is a broken tie, not a tool error
        tb = traceback.format_exc()
        sys.stderr.write(tb)
        ctx.disagreements.append(dict(kind='generator-stopped', error=tb[-2500:], shard=k))
    ctx.notes.append(f'shard {k}: {rounds} rounds')
    out = dict(rc=rc, evaluations=ctx.evaluations, hashes=sorted(ctx.case_hashes), samples=ctx.samples[:2],
               dist=ctx.dist, violations=ctx.violations[:50], n_violations=len(ctx.violations),
               disagreements=ctx.disagreements[:20], lines=ctx.sessions_lines, traces=ctx.traces,
               notes=ctx.notes, exhaustive=ctx.exhaustive)
    os.makedirs(lib.WORK, exist_ok=True)
    with open(os.path.join(lib.WORK, f'shard_{prop}_{k}.json'), 'w') as f:
        _json.dump(out, f, default=str)
    return rc


def run_shards(ctx, prop, seed):
    import json as _json
    import subprocess
    n = int(os.environ.get('VERIF_SHARDS', '12'))
    procs = []
    for k in range(n):
        env = dict(os.environ, VERIF_SHARD=str(k), VERIF_SHARDS=str(n), VERIF_SEED=str(seed),
                   PYTHONHASHSEED=str(((seed * 1009 + k) * 7919 + 17) % 4294967291))
        procs.append(subprocess.Popen(
            [sys.executable, os.path.abspath(__file__), prop, '--tier', 'thorough'], env=env,
            stdout=subprocess.DEVNULL, stderr=subprocess.PIPE, text=True))
    ok = True
    for k, p in enumerate(procs):
        _out, err = p.communicate()
        path = os.path.join(lib.WORK, f'shard_{prop}_{k}.json')
        if p.returncode != 0 or not os.path.exists(path):
            print(f'shard {k} failed (rc={p.returncode}):', (err or '')[-800:])
            ok = False
            continue
        with open(path) as f:
            d = _json.load(f)
        os.remove(path)
        ctx.evaluations += d['evaluations']
        ctx.case_hashes |= set(d['hashes'])
        ctx.samples.extend(d['samples'])
        for kk, v in d['dist'].items():
            ctx.dist[kk] = ctx.dist.get(kk, 0) + v
        ctx.violations.extend(d['violations'])
        ctx.disagreements.extend(d['disagreements'])
        ctx.sessions_lines += d['lines']
        ctx.traces += d['traces']
        ctx.notes.extend(x for x in d['notes'] if x not in ctx.notes)
        ctx.exhaustive = ctx.exhaustive or d['exhaustive']
    ctx.notes.append(f'thorough: {n} shards, sub-seeds {seed}*1009+k, {os.environ.get("VERIF_SHARD_S", "420")} s budget each')
    return ok


def main():
    ap = argparse.ArgumentParser()
    ap.add_argument('prop')
    ap.add_argument('--tier', default=os.environ.get('VERIF_TIER', 'quick'))
    ap.add_argument('--replay')
    args = ap.parse_args()
    seed = int(os.environ.get('VERIF_SEED', '0') or 0)
    if 'PYTHONHASHSEED' not in os.environ:
        # str hashing decides the iteration order of sets of names inside dd: derive it from the
        # seed so that a run (and the replay of what it finds) is reproducible
        hs = (seed * 7919 + 17) % 4294967291
        if args.replay:
            try:
                with open(args.replay) as f:
                    hs = json.load(f).get('hashseed', hs)
            except Exception:  # noqa: BLE001
                pass
        os.environ['PYTHONHASHSEED'] = str(hs)
        os.execv(sys.executable, [sys.executable] + sys.argv)
    tier = args.tier if args.tier in ('quick', 'thorough') else 'quick'
    reg = registry()
    if args.prop not in reg:
        print(f'no check registered for {args.prop}')
        return 2
    if args.replay:
        with open(args.replay) as f:
            data = json.load(f)
        seed = data.get('seed', seed)
        rc = replay(args.prop, data)
        if rc is not None:
            return rc
    fn, rule = reg[args.prop][:2]
    driver = reg[args.prop][2] if len(reg[args.prop]) > 2 else None
    shard = os.environ.get('VERIF_SHARD')
    if shard is not None:
        return run_shard(args.prop, fn, seed, int(shard), int(os.environ.get('VERIF_SHARDS', '1')))
    ctx = lib.Ctx(args.prop, tier, seed)
    ctx.driver = driver
    try:
        lean = lib.lean_side(args.prop, thorough=(tier == 'thorough'), driver=driver,
                             extra_targets=EXTRA_TARGETS.get(args.prop, ()))
    except Exception:  # noqa: BLE001
        traceback.print_exc()
        return 2
    ctx.t_gen = __import__('time').time()
    if tier == 'thorough' and os.environ.get('VERIF_NO_SHARDS') != '1':
        # thorough: the generators run as independent shards on all cores, each with its own
        # sub-seed and time budget; the parent aggregates what they covered and found
        if not run_shards(ctx, args.prop, seed):
            return 2
    else:
        try:
            fn(ctx)
        except Exception:  # noqa: BLE001
            # The generator met behaviour of the implementation it has no expectation for (it
            # never does on the tree it was validated on): the tie is broken.  Reported like a
            # correspondence failure (search, then VIOLATION … no-failing-input-found), with the
            # traceback and the last protocol lines in the replay.
            tb = traceback.format_exc()
            sys.stderr.write(tb)
            last = []
            try:
                for lines, _a, _s, _l in ctx.pending[-1:]:
                    last = lines[-30:]
            except Exception:  # noqa: BLE001
                pass
            ctx.disagreements.append(dict(kind='generator-stopped', error=tb[-2500:], last_lines=last))
    # a proof obligation or the correspondence broke and no failing input was seen yet:
    # search harder on the real code (the property's own thorough generators, bounded in time)
    ctx.flush_model()
    if (not lean['ok'] or ctx.disagreements) and not _unknown_violations(ctx):
        search_s = int(os.environ.get('VERIF_SEARCH_S', '90'))
        ctx2 = lib.Ctx(args.prop, 'thorough', seed + 7919)
        ctx2.driver = driver
        ctx2.budget_s = search_s
        ctx2.no_model = True
        try:
            fn(ctx2)
        except Exception:  # noqa: BLE001
            traceback.print_exc()
        ctx2.pending = []
        ctx.violations.extend(ctx2.violations)
        ctx.evaluations += ctx2.evaluations
        ctx.case_hashes |= ctx2.case_hashes
        ctx.notes.append(f'failing-input search ran {search_s}s budget: {ctx2.evaluations} more evaluations, '
                         f'{len(ctx2.violations)} oracle failures')
    code = lib.finish(ctx, lean, '', TRUSTED, rule)
    print(f'{args.prop} {tier} seed={seed}: evaluations={ctx.evaluations} '
          f'distinct={len(ctx.case_hashes)} lines={ctx.sessions_lines} '
          f'obligations={len(lean["obligations"])}/{len(lean["discharged"])} '
          f'violations={len(ctx.violations)} disagreements={len(ctx.disagreements)} '
          f'wall={round(__import__("time").time() - ctx.t0, 1)}s exit={code}')
    return code


if __name__ == '__main__':
    sys.exit(main())
