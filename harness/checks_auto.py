"""C08 — `dd.autoref`: live `Function`s stay valid, dropped ones release exactly
their reference.

Protocol lines of this slice address `Function` objects through handle ids
(`h3`); the ids of new handles follow a `->` field.  The real `Function` objects
live in `impl.objs['auto_h']` (one dict entry = the only strong reference);
`a_drop` removes the entry (and verifies that nothing else kept the object
alive), so that `Function.__del__` runs exactly then.  The Lean side is the exe
`ddvauto` (`lean/DD/Auto.lean`, `lean/DD/AutoDriver.lean`).
"""
import collections
import copy as _pycopy
import gc
import subprocess
import sys

import lib
import impl as implmod
from impl import (dump_state, parse_key, parse_pairs, split1, show_bool,
                  assignment_str, OrderedKeys, shaped)
from lib import Session, TT, check_invariants, reachable, SECTIONS_L3

import dd.autoref as _auto   # noqa: E402
import dd.bdd as _bdd        # noqa: E402
import dd._copy as _dcopy     # noqa: E402

SECTIONS_A = SECTIONS_L3 + ('handles',)

# events of `sys.unraisablehook` (an exception inside `Function.__del__` or
# `BDD.__del__` is reported there and otherwise lost)
UNRAISABLE = []
QUIET = [0]


def _hook(args):
    if QUIET[0]:
        return
    UNRAISABLE.append(f'{type(args.exc_value).__name__}: {args.exc_value!s:.80} in {getattr(args.object, "__qualname__", args.object)!s:.60}')


# ---------------------------------------------------------------------------
# the protocol on the real code
# ---------------------------------------------------------------------------

def _H(impl):
    return impl.objs.setdefault('auto_h', {})


def _A(impl):
    return impl.objs.setdefault('auto_m', {})


def _split_outs(a):
    if '->' in a:
        k = a.index('->')
        return a[:k], [int(x[1:]) for x in a[k + 1:]]
    return a, []


def _h(impl, s):
    return _H(impl)[int(s[1:])]


def _store(impl, hid, f, operands=()):
    """Register the result; `alias` when the method returned one of its operands."""
    if any(f is o for o in operands):
        return f'{f.node} alias'
    if hid in _H(impl):
        raise RuntimeError('handle id re-used')
    _H(impl)[hid] = f
    return str(f.node)


def op_auto(impl, mid, op, a):
    a, outs = _split_outs(a)
    H = _H(impl)
    if op == 'a_new':
        levels = {k: int(v) for k, v in parse_pairs(a[0])} if a else {}
        ab = _auto.BDD(levels)
        _A(impl)[mid] = ab
        impl.mgrs[mid] = ab._bdd
        return '-'
    ab = _A(impl)[mid]
    if op == 'a_var':
        return _store(impl, outs[0], ab.var(a[0]))
    if op == 'a_true':
        return _store(impl, outs[0], ab.true)
    if op == 'a_false':
        return _store(impl, outs[0], ab.false)
    if op == 'a_apply':
        return _store(impl, outs[0], ab.apply(a[0], *[_h(impl, x) for x in a[1:]]))
    if op == 'a_apply_uw':
        return _store(impl, outs[0], ab.apply(a[0], _h(impl, a[1]), None, _h(impl, a[2])))
    if op == 'a_ite':
        return _store(impl, outs[0], ab.ite(*[_h(impl, x) for x in a]))
    if op in ('a_let_b', 'a_let_r', 'a_let_n'):
        u = _h(impl, a[0])
        ps = parse_pairs(a[1]) if len(a) > 1 else []
        if op == 'a_let_b':
            d = {parse_key(k): (v == '1') for k, v in ps}
        elif op == 'a_let_r':
            d = {k: _h(impl, v) for k, v in ps}
        else:
            d = dict(ps)
        r = ab.let(d, u)
        d = None
        return _store(impl, outs[0], r, (u,))
    if op == 'a_quantify':
        keys = shaped(map(parse_key, split1(a[1])), 6)
        return _store(impl, outs[0], ab.quantify(_h(impl, a[0]), keys, a[2] == '1'))
    if op in ('a_exist', 'a_forall'):
        keys = shaped(map(parse_key, split1(a[0])), 7)
        fn = ab.exist if op == 'a_exist' else ab.forall
        return _store(impl, outs[0], fn(keys, _h(impl, a[1])))
    if op == 'a_cube':
        d = {k: (v == '1') for k, v in parse_pairs(a[0])} if a else {}
        return _store(impl, outs[0], ab.cube(d))
    if op == 'a_foa':
        return _store(impl, outs[0], ab.find_or_add(a[0], _h(impl, a[1]), _h(impl, a[2])))
    if op == 'a_add_int':
        return _store(impl, outs[0], ab._add_int(int(a[0])))
    if op in ('a_image', 'a_preimage'):
        rn = {parse_key(k): parse_key(v) for k, v in parse_pairs(a[2])}
        q = shaped(map(parse_key, split1(a[3])), 8)
        fn = _auto.image if op == 'a_image' else _auto.preimage
        return _store(impl, outs[0], fn(_h(impl, a[0]), _h(impl, a[1]), rn, q, a[4] == '1'))
    if op == 'a_succ':
        i, v, w = ab.succ(_h(impl, a[0]))
        if v is None:
            return f'{i},None,None'
        H[outs[0]] = v
        H[outs[1]] = w
        return f'{i},{v.node},{w.node}'
    if op == 'a_contains':
        return show_bool(_h(impl, a[0]) in ab)
    if op == 'a_count':
        if len(a) == 1:
            return str(ab.count(_h(impl, a[0])))
        return str(ab.count(_h(impl, a[0]), int(a[1])))
    if op == 'a_support':
        return ','.join(sorted(ab.support(_h(impl, a[0]))))
    if op == 'a_support_levels':
        return ','.join(map(str, sorted(ab.support(_h(impl, a[0]), as_levels=True))))
    if op == 'a_pick_iter':
        care = None if len(a) == 1 else set(split1(a[1]))
        return ','.join(sorted(assignment_str(d) for d in ab.pick_iter(_h(impl, a[0]), care)))
    if op == 'a_to_expr':
        return ab.to_expr(_h(impl, a[0]))
    if op == 'a_incref':
        ab.incref(_h(impl, a[0]))
        return '-'
    if op == 'a_decref':
        ab.decref(_h(impl, a[0]))
        return '-'
    if op == 'a_drop':
        hid = int(a[0][1:])
        f = H.pop(hid)
        # the dict entry was the only strong reference: `f` + the argument of getrefcount
        if sys.getrefcount(f) != 2:
            gc.collect()
            if sys.getrefcount(f) != 2:
                H[hid] = f
                raise RuntimeError('LINGERING-REFERENCE')
        node = f.node
        del f       # `Function.__del__` runs here
        return '-'
    if op == 'a_gc':
        ab.collect_garbage()
        return '-'
    if op == 'a_reorder':
        if a:
            ab.reorder({k: int(v) for k, v in parse_pairs(a[0])})
        else:
            ab.reorder()
        return '-'
    if op == 'a_configure':
        if a:
            return show_bool(ab.configure(reordering=(a[0] == '1'))['reordering'])
        return show_bool(ab.configure()['reordering'])
    if op == 'a_declare':
        ab.declare(*(split1(a[0]) if a else []))
        return '-'
    if op == 'a_add_var':
        if len(a) == 1:
            return str(ab.add_var(a[0]))
        return str(ab.add_var(a[0], int(a[1])))
    if op == 'a_len':
        return str(len(ab))
    if op == 'a_shutdown':
        # the manager's shutdown check, called explicitly (the interpreter calls it
        # again when the object dies; by then every count is zero or the manager has
        # been neutralised by `Impl.reset`)
        ab._bdd.__del__()
        return '-'
    if op in ('a_copy_bdd_same',):
        return _store(impl, outs[0], _auto.copy_bdd(_h(impl, a[0]), ab))
    if op == 'a_copy_same':
        u = _h(impl, a[0])
        return _store(impl, -1, ab.copy(u, ab), (u,))
    if op == 'a_copy':
        u = _h(impl, a[0])
        other = _A(impl)[int(a[1])]
        return _store(impl, outs[0], ab.copy(u, other), (u,))
    if op == 'a_copy_bdd':
        u = _h(impl, a[0])
        other = _A(impl)[int(a[1])]
        return _store(impl, outs[0], _auto.copy_bdd(u, other))
    if op == 'a_copy_vars':
        other = _A(impl)[int(a[0])]
        _auto.copy_vars(ab, other)
        return '-'
    if op == 'f_apply':
        s = _h(impl, a[1])
        o = _h(impl, a[2]) if len(a) > 2 else None
        k = a[0]
        if k == 'not':
            r = ~s
        elif k == 'and':
            if sum(map(ord, str(a[1]) + str(a[2]))) % 3 == 0:
                # the augmented form, on a second name for the same object: `Function` defines no
                # in-place operators, so this is `r = r & o` and the operand is left alone
                r = s
                r &= o
                if r is s:
                    raise RuntimeError('AUGMENTED-ASSIGNMENT-IN-PLACE')
            else:
                r = s & o
        elif k == 'or':
            if sum(map(ord, str(a[1]) + str(a[2]))) % 3 == 0:
                r = s
                r |= o
                if r is s:
                    raise RuntimeError('AUGMENTED-ASSIGNMENT-IN-PLACE')
            else:
                r = s | o
        elif k == 'implies':
            r = s.implies(o)
        elif k == 'equiv':
            r = s.equiv(o)
        else:
            r = s._apply(k, o)
        return _store(impl, outs[0], r)
    if op == 'f_copy':
        return _store(impl, outs[0], _pycopy.copy(_h(impl, a[0])))
    if op == 'f_eq':
        return show_bool(_h(impl, a[0]) == _h(impl, a[1]))
    if op == 'f_cmp_other':
        f = _h(impl, a[1])
        x = None if a[2] == 'None' else (7 if a[2] == 'int' else 'a')
        return show_bool({'eq': lambda: f == x, 'ne': lambda: f != x, 'le': lambda: f <= x,
                          'lt': lambda: f < x}[a[0]]())
    if op == 'f_xor':
        return str((_h(impl, a[0]) ^ _h(impl, a[1])).node)
    if op == 'f_ne':
        return show_bool(_h(impl, a[0]) != _h(impl, a[1]))
    if op == 'f_le':
        return show_bool(_h(impl, a[0]) <= _h(impl, a[1]))
    if op == 'f_lt':
        return show_bool(_h(impl, a[0]) < _h(impl, a[1]))
    if op in ('f_low', 'f_high'):
        s = _h(impl, a[0])
        r = s.low if op == 'f_low' else s.high
        if r is None:
            return 'None'
        return _store(impl, outs[0], r)
    if op == 'f_level':
        return str(_h(impl, a[0]).level)
    if op == 'f_var':
        return str(_h(impl, a[0]).var)
    if op == 'f_ref':
        return str(_h(impl, a[0]).ref)
    if op == 'f_negated':
        return show_bool(_h(impl, a[0]).negated)
    if op == 'f_int':
        return str(int(_h(impl, a[0])))
    if op == 'f_len':
        s = _h(impl, a[0])
        n = len(s)
        if s.dag_size != n:
            raise RuntimeError('dag_size != len')
        return str(n)
    if op == 'f_support':
        return ','.join(sorted(_h(impl, a[0]).support))
    if op == 'f_to_expr':
        return _h(impl, a[0]).to_expr()
    if op == 'a_state':
        hs = ','.join(f'h{k}:{f.node}' for k, f in sorted(H.items()) if f.bdd is ab)
        return dump_state(ab._bdd) + '|handles=' + hs
    raise RuntimeError('unknown op ' + op)


AUTO_OPS = [
    'a_new', 'a_var', 'a_true', 'a_false', 'a_apply', 'a_apply_uw', 'a_ite', 'a_let_b', 'a_let_r',
    'a_let_n', 'a_quantify', 'a_exist', 'a_forall', 'a_cube', 'a_foa', 'a_add_int', 'a_image',
    'a_preimage', 'a_succ', 'a_contains', 'a_count', 'a_support', 'a_support_levels', 'a_pick_iter',
    'a_to_expr', 'a_incref', 'a_decref', 'a_drop', 'a_gc', 'a_reorder', 'a_configure', 'a_declare',
    'a_add_var', 'a_len', 'a_shutdown', 'a_copy_bdd_same', 'a_copy_same', 'a_copy', 'a_copy_bdd',
    'a_copy_vars', 'f_apply', 'f_copy', 'f_cmp_other', 'f_xor', 'f_eq', 'f_ne', 'f_le', 'f_lt', 'f_low', 'f_high', 'f_level', 'f_var',
    'f_ref', 'f_negated', 'f_int', 'f_len', 'f_support', 'f_to_expr', 'a_state']


def _mk(op):
    def run(impl, mid, a):
        return op_auto(impl, mid, op, a)
    return run


for _op in AUTO_OPS:
    implmod.EXT_LINE_OPS[_op] = _mk(_op)


# `dd._copy.copy_bdd(u, target)` / `copy_bdds_from(roots, target)` over two autoref managers.
# Protocol: `a_xcopy <hu> <dst> [log] -> h`, `a_xcopy_from <hu,..> <dst> [log] -> h h ..`.
# Answer: the node(s); in `copy_bdds_from` a result that is the SAME `Function` object as the
# earlier result `j` is written `<node>@<j>` and gets no handle id of its own; with `log` the
# source's `_ref` seen at every `target.var(...)` of the recursion, as differences from its value
# before the call (`k:d;k:d/...`): the source's counters move DURING the call (`~u`, `u.low`, `u.high`
# are Functions of the source) and are back afterwards.

class _SrcLog:
    def __init__(self, src, dst, on):
        self.src, self.dst, self.on, self.log = src, dst, on, []

    def __enter__(self):
        if self.on:
            ref0 = dict(self.src._bdd._ref)
            orig = self.dst.var
            srcm = self.src._bdd
            log = self.log

            def hooked(name):
                log.append(';'.join(f'{k}:{v - ref0.get(k, 0)}' for k, v in sorted(srcm._ref.items())
                                    if v != ref0.get(k, 0)))
                return orig(name)
            self.dst.var = hooked
        return self

    def __exit__(self, *exc):
        if self.on:
            del self.dst.var
        return False

    def suffix(self):
        return (' log=' + '/'.join(self.log)) if self.on else ''


def _xcopy_args(impl, mid, a):
    a, outs = _split_outs(a)
    on = bool(a) and a[-1] == 'log'
    if on:
        a = a[:-1]
    return a, outs, _SrcLog(_A(impl)[mid], _A(impl)[int(a[1])], on)


def _line_xcopy(impl, mid, a):
    a, outs, lg = _xcopy_args(impl, mid, a)
    with lg:
        r = _dcopy.copy_bdd(_h(impl, a[0]), _A(impl)[int(a[1])])
    return _store(impl, outs[0], r) + lg.suffix()


def _line_xcopy_from(impl, mid, a):
    a, outs, lg = _xcopy_args(impl, mid, a)
    with lg:
        rs = _dcopy.copy_bdds_from([_h(impl, x) for x in implmod.split1(a[0])], _A(impl)[int(a[1])])
    out = []
    for i, (hid, r) in enumerate(zip(outs, rs)):
        j = next(k for k in range(i + 1) if rs[k] is r)
        out.append(_store(impl, hid, r) if j == i else f'{r.node}@{j}')
    rs = r = None
    return ','.join(out) + lg.suffix()


implmod.EXT_LINE_OPS['a_xcopy'] = _line_xcopy
implmod.EXT_LINE_OPS['a_xcopy_from'] = _line_xcopy_from


def xcopy_nodes(ans):
    """The nodes of an `a_xcopy` / `a_xcopy_from` answer (`None` per result when it raised) and the
    alias index of each."""
    if not ans.startswith('ok '):
        return None
    body = ans[3:].split(' ')[0]
    out = []
    for t in body.split(','):
        n, _, j = t.partition('@')
        out.append((int(n), int(j) if j else None))
    return out


# ---------------------------------------------------------------------------
# sessions and histories
# ---------------------------------------------------------------------------

class ASession(Session):
    def close(self):
        # let the Functions die before the managers are neutralised
        QUIET[0] += 1
        try:
            self.impl.objs.get('auto_h', {}).clear()
            self.impl.reset()
            gc.collect()
        finally:
            QUIET[0] -= 1


UNIVERSE = ['a', 'b', 'c', 'd', 'e', 'f', 'g', 'p', 'q']
BIN = ['or', 'and', 'xor', 'implies', 'equiv', 'diff', r'\/', '/\\', '#', '=>', '<=>', '-', '|', '&', '^']
F_BIN = ['and', 'or', 'implies', 'equiv']


class AHistory:
    """A random history over `dd.autoref` with the oracles of C08 after every step."""

    def __init__(self, ctx, names, nmgr=1, every_state=True):
        self.ctx = ctx
        self.rng = ctx.rng
        self.s = ASession(ctx)
        self.nmgr = nmgr
        self.every_state = every_state
        self.next_h = 1
        self.live = {}       # handle id -> (mgr id, node)
        self.tts = {}        # handle id -> truth table at creation
        self.manual = {}     # mgr id -> Counter of manual increfs (abs node)
        self.bad = []
        self.shut = set()
        for mid in range(nmgr):
            nm = list(names)
            if mid > 0:
                self.rng.shuffle(nm)
            self.s.op(mid, 'a_new', *([','.join(f'{v}={i}' for i, v in enumerate(nm))] if nm else []))
            self.manual[mid] = collections.Counter()
        UNRAISABLE.clear()

    # -- helpers -----------------------------------------------------------
    def b(self, mid=0):
        return self.s.mgr(mid)

    def names(self, mid=0):
        return sorted(self.b(mid).vars)

    def handles_of(self, mid):
        return [h for h, (m, _u) in self.live.items() if m == mid]

    def pick(self, mid=0):
        hs = self.handles_of(mid)
        if not hs:
            return self.new_const(mid)
        return self.rng.choice(hs)

    def fresh(self):
        h = self.next_h
        self.next_h += 1
        return h

    def new_const(self, mid):
        h = self.fresh()
        self.call(mid, 'a_true' if self.rng.random() < 0.5 else 'a_false', outs=[h])
        return h

    def call(self, mid, op, *args, outs=(), dst=None):
        """Run one line; register the handles it created.  Returns the answer."""
        fields = [str(x) for x in args]
        if outs:
            fields += ['->'] + [f'h{h}' for h in outs]
        ans = self.s.op(mid, op, *fields)
        tgt = mid if dst is None else dst
        if ans.startswith('ok ') and outs and not ans.endswith(' alias'):
            body = ans[3:]
            if op == 'a_succ':
                parts = body.split(',')
                if parts[1] != 'None':
                    self._register(outs[0], tgt, int(parts[1]))
                    self._register(outs[1], tgt, int(parts[2]))
            elif body != 'None':
                self._register(outs[0], tgt, int(body))
        self.ctx.count('op:' + op)
        self.after(mid, op, ans)
        if dst is not None and dst != mid:
            self.after(dst, op, ans, state=False)
        return ans

    def _register(self, h, mid, node):
        self.live[h] = (mid, node)
        self.tts[h] = TT(self.b(mid), UNIVERSE).of(node) if abs(node) in self.b(mid)._succ else None

    def ledger(self, mid):
        led = collections.Counter(self.manual[mid])
        for h, (m, u) in self.live.items():
            if m == mid:
                led[abs(u)] += 1
        return led

    # -- oracles -----------------------------------------------------------
    def after(self, mid, op, ans, state=True):
        b = self.b(mid)
        bad = []
        if UNRAISABLE:
            bad.append('exception inside __del__: ' + '; '.join(UNRAISABLE[:2]))
            UNRAISABLE.clear()
        if ans == 'err NeedsReordering':
            bad.append(f'{op}: the internal reordering signal reached the caller')
        if ans == 'err RuntimeError' and op == 'a_drop':
            bad.append('HARNESS: lingering reference to a Function')
        if mid in self.shut:
            led = self.ledger(mid)
        else:
            led = self.ledger(mid)
            bad += check_invariants(b, led)
        # the registry of the harness and the real objects agree
        H = self.s.impl.objs.get('auto_h', {})
        mine = {h for h, (m, _u) in self.live.items() if m == mid}
        real = {h for h, f in H.items() if f.manager is b}
        if mine != real:
            bad.append(f'handles {sorted(mine)} expected, objects {sorted(real)}')
        tt = TT(b, UNIVERSE)
        for h in mine & real:
            u = self.live[h][1]
            if H[h].node != u:
                bad.append(f'h{h}.node = {H[h].node}, was {u}')
            elif abs(u) not in b._succ:
                bad.append(f'live h{h}: node {u} deleted')
            elif self.tts[h] is not None and tt.of(u) != self.tts[h]:
                bad.append(f'live h{h} (node {u}) denotes another function than when it was created')
        if op == 'a_gc' and ans.startswith('ok') and not bad:
            want = reachable(b, [u for u, c in led.items() if c > 0]) | {1}
            if set(b._succ) != want:
                bad.append(f'after collect_garbage: nodes {sorted(b._succ)}, reachable from live handles {sorted(want)}')
        self.ctx.evaluations += 1
        if bad:
            self.bad += bad
            self.ctx.violation('autoref: ' + bad[0], dict(
                problems=bad[:4], lines=list(self.s.lines),
                tags=dict(call=op, dyn=(b._last_len is not None))))
        if state and self.every_state:
            self.s.op(mid, 'a_state')

    # -- one random step ---------------------------------------------------
    def step(self, weights, mid=0):
        rng = self.rng
        k = rng.choices(list(weights), weights=list(weights.values()))[0]
        names = self.names(mid)
        b = self.b(mid)
        P = lambda: f'h{self.pick(mid)}'   # noqa: E731
        if k == 'var' and names:
            self.call(mid, 'a_var', rng.choice(names), outs=[self.fresh()])
        elif k == 'const':
            self.new_const(mid)
        elif k == 'apply':
            r = rng.random()
            if r < 0.1:
                self.call(mid, 'a_apply', rng.choice(['~', 'not', '!']), P(), outs=[self.fresh()])
            elif r < 0.2:
                self.call(mid, 'a_apply', 'ite', P(), P(), P(), outs=[self.fresh()])
            elif r < 0.3:
                self.call(mid, 'a_apply', rng.choice([r'\A', r'\E', 'forall', 'exists']), P(), P(), outs=[self.fresh()])
            else:
                self.call(mid, 'a_apply', rng.choice(BIN), P(), P(), outs=[self.fresh()])
        elif k == 'ite':
            self.call(mid, 'a_ite', P(), P(), P(), outs=[self.fresh()])
        elif k == 'fop':
            if rng.random() < 0.2:
                self.call(mid, 'f_apply', 'not', P(), outs=[self.fresh()])
            else:
                self.call(mid, 'f_apply', rng.choice(F_BIN), P(), P(), outs=[self.fresh()])
        elif k == 'cmp':
            r = rng.random()
            if r < 0.1:
                # a non-`Function` operand: `== None` / `!= None` answer, everything else raises
                self.call(mid, 'f_cmp_other', rng.choice(['eq', 'ne', 'le', 'lt']), P(),
                          rng.choice(['None', 'None', 'int', 'str']))
            elif r < 0.15:
                self.call(mid, 'f_xor', P(), P())    # no `__xor__`: TypeError
            else:
                self.call(mid, rng.choice(['f_eq', 'f_ne', 'f_le', 'f_lt', 'f_le', 'f_lt']), P(), P())
        elif k == 'let' and names:
            r = rng.random()
            vs = rng.sample(names, rng.randint(1, min(3, len(names))))
            if r < 0.1:
                self.call(mid, rng.choice(['a_let_b', 'a_let_r', 'a_let_n']), P(), '', outs=[self.fresh()])
            elif r < 0.4:
                self.call(mid, 'a_let_b', P(), ','.join(f'n:{v}={rng.randint(0, 1)}' for v in vs), outs=[self.fresh()])
            elif r < 0.7:
                self.call(mid, 'a_let_r', P(), ','.join(f'{v}={P()}' for v in vs), outs=[self.fresh()])
            else:
                self.call(mid, 'a_let_n', P(), ','.join(f'{v}={rng.choice(names)}' for v in vs), outs=[self.fresh()])
        elif k == 'quantify' and names:
            vs = rng.sample(names, rng.randint(1, min(3, len(names))))
            q = ','.join('n:' + v for v in vs)
            r = rng.random()
            if r < 0.5:
                self.call(mid, 'a_quantify', P(), q, rng.randint(0, 1), outs=[self.fresh()])
            else:
                self.call(mid, 'a_exist' if r < 0.75 else 'a_forall', q, P(), outs=[self.fresh()])
        elif k == 'cube' and names:
            vs = rng.sample(names, rng.randint(1, min(3, len(names))))
            self.call(mid, 'a_cube', ','.join(f'{v}={rng.randint(0, 1)}' for v in vs), outs=[self.fresh()])
        elif k == 'foa' and names:
            lo, hi = self.pick(mid), self.pick(mid)
            lv = min(b._succ[abs(self.live[lo][1])][0], b._succ[abs(self.live[hi][1])][0])
            if lv > 0:
                self.call(mid, 'a_foa', b._level_to_var[rng.randrange(lv)], f'h{lo}', f'h{hi}', outs=[self.fresh()])
        elif k == 'dup':
            # a second Function on the node of a live one
            h = self.pick(mid)
            r = rng.random()
            if r < 0.35:
                self.call(mid, 'f_copy', f'h{h}', outs=[self.fresh()])
            elif r < 0.6:
                self.call(mid, 'a_add_int', self.live[h][1] * rng.choice([1, 1, -1]), outs=[self.fresh()])
            elif r < 0.8:
                self.call(mid, 'a_copy_bdd', f'h{h}', mid, outs=[self.fresh()])
            elif r < 0.9:
                self.call(mid, 'a_copy', f'h{h}', mid, outs=[self.fresh()])
            else:
                self.call(mid, 'a_copy_same', f'h{h}')
        elif k == 'succ':
            r = rng.random()
            if r < 0.4:
                self.call(mid, 'a_succ', P(), outs=[self.fresh(), self.fresh()])
            else:
                self.call(mid, 'f_low' if r < 0.7 else 'f_high', P(), outs=[self.fresh()])
        elif k == 'read':
            q = rng.choice(['a_count', 'a_support', 'a_support_levels', 'a_pick_iter', 'a_to_expr', 'a_contains',
                            'f_level', 'f_var', 'f_ref', 'f_negated', 'f_int', 'f_len', 'f_support', 'f_to_expr',
                            'a_len'])
            if q == 'a_len':
                self.call(mid, q)
            elif q == 'a_count' and rng.random() < 0.5:
                self.call(mid, q, P(), rng.randint(0, len(names) + 1))
            elif q == 'a_pick_iter' and names and rng.random() < 0.5:
                self.call(mid, q, P(), ','.join(rng.sample(names, rng.randint(1, len(names)))))
            else:
                self.call(mid, q, P())
        elif k == 'drop':
            hs = self.handles_of(mid)
            if hs:
                self.drop(rng.choice(hs))
        elif k == 'gc':
            self.call(mid, 'a_gc')
        elif k == 'sift' and len(names) >= 2:
            self.call(mid, 'a_reorder')
        elif k == 'order' and len(names) >= 2:
            perm = names[:]
            rng.shuffle(perm)
            self.call(mid, 'a_reorder', ','.join(f'{v}={i}' for i, v in enumerate(perm)))
        elif k == 'dyn':
            r = rng.random()
            if r < 0.25:
                self.call(mid, 'a_configure', 0)
            else:
                self.call(mid, 'a_configure', 1)
                # lower the threshold so that reordering really fires
                self.call(mid, 'set_last_len', rng.randint(1, max(2, len(b._succ) // 2 + 1)))
        elif k == 'declare':
            free = [v for v in UNIVERSE if v not in b.vars]
            if free and rng.random() < 0.7:
                self.call(mid, 'a_declare' if rng.random() < 0.5 else 'a_add_var', free[0])
            elif names:
                self.call(mid, 'a_add_var', rng.choice(names))
        elif k == 'manual':
            # explicit incref / decref through the wrapper, kept balanced by the harness
            held = [u for u, c in self.manual[mid].items() if c > 0]
            if held and rng.random() < 0.5:
                u = rng.choice(held)
                hs = [h for h in self.handles_of(mid) if abs(self.live[h][1]) == u]
                if hs:
                    self.manual[mid][u] -= 1
                    self.call(mid, 'a_decref', f'h{hs[0]}')
            else:
                h = self.pick(mid)
                self.manual[mid][abs(self.live[h][1])] += 1
                self.call(mid, 'a_incref', f'h{h}')
        elif k == 'image' and len(names) >= 2 and b._last_len is None:
            # (pre)image over one adjacent pair; the partner is quantified
            i = rng.randrange(len(names) - 1)
            x, y = b._level_to_var[i], b._level_to_var[i + 1]
            if rng.random() < 0.5:
                x, y = y, x
            if rng.random() < 0.5:
                rn, q = f'n:{x}=n:{y}', f'n:{y}'
            else:
                rn, q = f'l:{b.vars[x]}=l:{b.vars[y]}', f'l:{b.vars[y]}'
            self.call(mid, 'a_image' if rng.random() < 0.5 else 'a_preimage', P(), P(), rn, q,
                      rng.randint(0, 1), outs=[self.fresh()])
        elif k == 'reject':
            self.rejected(mid)
        elif k == 'xcopy' and self.nmgr > 1:
            dst = rng.choice([m for m in range(self.nmgr) if m != mid])
            r = rng.random()
            if r < 0.2:
                nm = list(self.b(mid).vars)
                self.call(mid, 'a_copy_vars', dst, ','.join(nm), dst=dst)
            elif set(self.b(mid).vars) <= set(self.b(dst).vars) and self.b(dst)._last_len is None:
                self.call(mid, 'a_copy' if r < 0.6 else 'a_copy_bdd', P(), dst, outs=[self.fresh()], dst=dst)
        else:
            self.ctx.count('op:skipped')

    def rejected(self, mid):
        """Calls that the wrapper itself must reject, leaving everything as it was."""
        rng = self.rng
        P = lambda: f'h{self.pick(mid)}'   # noqa: E731
        kinds = ['uw', 'undeclared', 'bad-int', 'arity']
        other = [m for m in range(self.nmgr) if m != mid]
        if other:
            kinds += ['foreign'] * 3
        k = rng.choice(kinds)
        if k == 'uw':
            ans = self.call(mid, 'a_apply_uw', 'ite', P(), P(), outs=[self.fresh()])
        elif k == 'undeclared':
            ans = self.call(mid, rng.choice(['a_var']), 'zz', outs=[self.fresh()])
        elif k == 'bad-int':
            big = max(self.b(mid)._succ) + rng.randint(1, 5)
            ans = self.call(mid, 'a_add_int', rng.choice([0, big, -big]), outs=[self.fresh()])
        elif k == 'arity':
            ans = self.call(mid, 'a_apply', rng.choice(['and', 'or']), P(), outs=[self.fresh()])
        else:
            fo = f'h{self.pick(other[0])}'
            form = rng.choice(['apply', 'ite', 'cmp', 'fop', 'contains', 'quantify', 'let', 'count'])
            if form == 'apply':
                ans = self.call(mid, 'a_apply', 'and', *rng.sample([P(), fo], 2), outs=[self.fresh()])
            elif form == 'ite':
                a = [P(), P(), fo]
                rng.shuffle(a)
                ans = self.call(mid, 'a_ite', *a, outs=[self.fresh()])
            elif form == 'cmp':
                ans = self.call(mid, rng.choice(['f_eq', 'f_ne', 'f_le', 'f_lt']), P(), fo)
            elif form == 'fop':
                ans = self.call(mid, 'f_apply', rng.choice(F_BIN), P(), fo, outs=[self.fresh()])
            elif form == 'contains':
                ans = self.call(mid, 'a_contains', fo)
            elif form == 'quantify':
                ans = self.call(mid, 'a_quantify', fo, '', 0, outs=[self.fresh()])
            elif form == 'let':
                ans = self.call(mid, 'a_let_b', fo, '', outs=[self.fresh()])
            else:
                ans = self.call(mid, 'a_count', fo)
        if not ans.startswith('err'):
            self.ctx.violation('autoref accepted a call it must reject', dict(
                kind=k, answer=ans, lines=list(self.s.lines), tags=dict(call='reject:' + k)))

    def drop(self, h):
        mid, _u = self.live.pop(h)
        self.tts.pop(h, None)
        ans = self.s.op(mid, 'a_drop', f'h{h}')
        self.ctx.count('op:a_drop')
        self.after(mid, 'a_drop', ans)

    def release_manual(self, mid):
        for u, c in list(self.manual[mid].items()):
            if c <= 0:
                continue
            hs = [h for h in self.handles_of(mid) if abs(self.live[h][1]) == u]
            if not hs:
                # every Function on the node is gone: the manual reference alone keeps it
                hs = [self.fresh()]
                self.call(mid, 'a_add_int', u, outs=hs)
            while c > 0:
                c -= 1
                self.manual[mid][u] -= 1
                self.call(mid, 'a_decref', f'h{hs[0]}')

    def end(self, mid=0, explicit_gc=True):
        """Drop everything in random order, collect, run the shutdown check."""
        self.release_manual(mid)
        hs = self.handles_of(mid)
        self.rng.shuffle(hs)
        for h in hs:
            self.drop(h)
        b = self.b(mid)
        bad = []
        if explicit_gc:
            self.call(mid, 'a_gc')
            if set(b._succ) != {1}:
                bad.append(f'all Functions dropped, collect_garbage leaves nodes {sorted(b._succ)}')
            if b._ref != {1: 1}:
                bad.append(f'all Functions dropped and collected: counts {b._ref}')
        self.shut.add(mid)
        ans = self.call(mid, 'a_shutdown')
        if ans != 'ok -':
            bad.append(f'shutdown check of the manager fails: {ans}')
        if set(b._succ) != {1} or any(b._ref.values()):
            bad.append(f'after shutdown: nodes {sorted(b._succ)} counts {b._ref}')
        if bad:
            self.ctx.violation('autoref: ' + bad[0], dict(
                problems=bad, lines=list(self.s.lines), tags=dict(call='shutdown')))

    def finish(self, label):
        self.ctx.add_session(self.s, SECTIONS_A, label)
        self.s.close()


W_STATIC = dict(var=5, const=1, apply=9, ite=2, fop=5, cmp=4, let=3, quantify=2, cube=1, foa=1, dup=4,
                succ=4, read=3, drop=9, gc=4, sift=1, order=1, declare=1, manual=1, reject=1, image=2)
W_DYN = dict(var=5, const=1, apply=10, ite=3, fop=6, cmp=5, let=3, quantify=2, cube=1, dup=3,
             succ=3, read=1, drop=7, gc=2, sift=1, order=1, dyn=2, foa=1)


def _build_driver():
    p = subprocess.run(['lake', 'build', 'ddvauto'], cwd=lib.LEAN, text=True,
                       stdout=subprocess.PIPE, stderr=subprocess.STDOUT, timeout=3000)
    if p.returncode != 0:
        raise RuntimeError('lake build ddvauto failed:\n' + p.stdout[-3000:])


def _copy_probe(ctx):
    """`copy.copy(f)` of a live Function is a second Function on the node: the count goes up
    by one, and when the copy dies the original still holds its node."""
    ab = _auto.BDD()
    ab.declare('x', 'y')
    f = ab.var('x') & ab.var('y')
    b = ab._bdd
    before = dict(b._ref)
    problems = []
    try:
        g = _pycopy.copy(f)
    except Exception as e:  # noqa: BLE001
        g = None
        problems.append(f'copy.copy(f) raises {e!r}')
    if g is not None:
        if g is f or g.node != f.node:
            problems.append('copy.copy(f) is not a new Function on the same node')
        elif b._ref[abs(f.node)] != before[abs(f.node)] + 1:
            problems.append(f'copy.copy(f) made a second Function on node {f.node} without taking a reference '
                            f'(count {b._ref[abs(f.node)]}, live Functions 2)')
    QUIET[0] += 1
    try:
        del g
        ab.collect_garbage()
        if abs(f.node) not in b._succ:
            problems.append('after the copy died and a collection, the node of the still live original is gone')
        elif b._ref[abs(f.node)] != before[abs(f.node)]:
            problems.append(f'after the copy died the count of node {f.node} is {b._ref[abs(f.node)]}, '
                            f'was {before[abs(f.node)]}')
        ctx.evaluations += 1
        ctx.case('copy.copy probe')
        if problems:
            ctx.violation('autoref: a shallow copy of a Function does not hold its own reference', dict(
                problems=problems,
                repro="ab=autoref.BDD(); ab.declare('x','y'); f=ab.var('x')&ab.var('y'); g=copy.copy(f); del g; "
                      "ab.collect_garbage(); f.support  # KeyError",
                tags=dict(call='copy.copy')))
            # neutralise
            b._ref = {1: 0}
            b._succ = {1: b._succ[1]}
            b._pred = {}
        del f
        gc.collect()
    finally:
        QUIET[0] -= 1


def xcopy_histories(ctx, n_max, floor_s):
    """`dd._copy.copy_bdd` / `copy_bdds_from` between two autoref managers with different orders:
    the target with dynamic reordering ENABLED and a low `_last_len` (the reordering fires inside
    `target.var` / `target.ite`, in the middle of the recursion, while the intermediate results are
    protected only by their `Function`s), or not enabled; roots with DUPLICATES (the memo returns the
    same `Function` object again), COMPLEMENTED roots (`~r`: a new object), CONSTANT roots; sources
    whose variables the target does not all declare (the call raises in the middle).  Oracles: the
    copies denote the same functions of the variable names; counts of BOTH managers = stored edges
    + live `Function`s after the call; the source's `_ref` after the call is what it was before;
    exact state of both managers, the aliasing of the results and the source's `_ref` at every
    `target.var(...)` DURING the call compared with the model."""
    rng = ctx.rng
    n = 0
    for k in range(n_max):
        if ctx.time_left() < floor_s:
            ctx.notes.append('xcopy histories cut by time budget')
            break
        names = UNIVERSE[:rng.randint(2, 5)]
        h = AHistory(ctx, names, nmgr=2, every_state=False)
        w = dict(var=5, const=1, apply=9, ite=2, fop=4, drop=2, gc=1)
        for _ in range(rng.randint(6, 30)):
            h.step(w, 0)
        for _ in range(rng.randint(0, 5)):
            h.step(w, 1)
        if rng.random() < 0.15:
            # a variable the target does not declare
            free = [v for v in UNIVERSE if v not in h.b(0).vars]
            h.call(0, 'a_declare', free[0])
            x = h.fresh()
            h.call(0, 'a_var', free[0], outs=[x])
            if h.handles_of(0):
                h.call(0, 'a_apply', 'xor', f'h{x}', f'h{h.pick(0)}', outs=[h.fresh()])
        dyn = rng.random() < 0.7
        if dyn:
            h.call(1, 'a_configure', 1)
            h.call(1, 'set_last_len', rng.randint(1, 3))
        for _ in range(rng.randint(1, 4)):
            if h.bad:
                break
            hs0 = h.handles_of(0)
            if not hs0:
                break
            b0, b1 = h.b(0), h.b(1)
            ref0 = dict(b0._ref)
            if dyn and rng.random() < 0.5:
                h.call(1, 'set_last_len', rng.randint(1, 2))
            if rng.random() < 0.4:
                xs = [rng.choice(hs0)]
                outs = [h.fresh()]
                ans = h.s.op(0, 'a_xcopy', f'h{xs[0]}', 1, 'log', '->', f'h{outs[0]}')
                opname = 'a_xcopy'
            else:
                pool = list(hs0)
                # complements and constants among the roots
                for _ in range(rng.randint(0, 2)):
                    t = h.fresh()
                    h.call(0, 'f_apply', 'not', f'h{rng.choice(hs0)}', outs=[t])
                    pool.append(t)
                if rng.random() < 0.5:
                    pool.append(h.new_const(0))
                ref0 = dict(b0._ref)
                xs = [rng.choice(pool) for _ in range(rng.randint(1, 6))]
                if rng.random() < 0.6:
                    xs += [rng.choice(xs) for _ in range(rng.randint(1, 3))]   # duplicates
                    rng.shuffle(xs)
                outs = [h.fresh() for _ in xs]
                ans = h.s.op(0, 'a_xcopy_from', ','.join(f'h{x}' for x in xs), 1, 'log', '->',
                             *[f'h{o}' for o in outs])
                opname = 'a_xcopy_from'
            ctx.count('op:' + opname)
            nodes = xcopy_nodes(ans)
            if nodes is not None:
                for o, (r, al) in zip(outs, nodes):
                    if al is None:
                        h._register(o, 1, r)
            h.after(0, opname, ans, state=False)
            h.after(1, opname, ans, state=False)
            ctx.evaluations += 1
            if dict(b0._ref) != ref0:
                ctx.violation('dd._copy.copy_bdd leaves the reference counts of the SOURCE manager changed', dict(
                    got=ans, lines=list(h.s.lines), tags=dict(call='_copy.copy_bdd', symptom='source-ref')))
            if nodes is not None:
                for x, (r, al) in zip(xs, nodes):
                    want = TT(b0, UNIVERSE).of(h.live[x][1])
                    if TT(b1, UNIVERSE).of(r) != want:
                        ctx.violation('dd._copy.copy_bdd gives another function of the variable names', dict(
                            got=ans, lines=list(h.s.lines), tags=dict(call='_copy.copy_bdd')))
                    if al is not None and (h.live[xs[al]][1] != h.live[x][1] or h.live[x][1] < 0):
                        ctx.violation('copy_bdds_from returns one Function object for two different roots', dict(
                            got=ans, lines=list(h.s.lines), tags=dict(call='_copy.copy_bdd', symptom='alias')))
            elif set(b0.vars) <= set(b1.vars):
                ctx.violation('dd._copy.copy_bdd raises although the target declares every variable', dict(
                    got=ans, lines=list(h.s.lines), tags=dict(call='_copy.copy_bdd', symptom='raises')))
            h.s.op(0, 'a_state')
            h.s.op(1, 'a_state')
        if not h.bad:
            h.end(0)
            h.end(1)
        ctx.case(('xcopy', k, dyn, tuple(names), len(h.s.lines)))
        h.finish('C08/C11 dd._copy.copy_bdd over autoref')
        n += 1
    ctx.count('histories:xcopy', n)


def extra_C11_xcopy(ctx):
    """The same generator under C11 (replayed on `ddvauto`)."""
    saved = ctx.driver
    ctx.flush_model()
    ctx.driver = 'ddvauto'
    _build_driver()
    old_hook = sys.unraisablehook
    sys.unraisablehook = _hook
    try:
        xcopy_histories(ctx, 25 if ctx.tier == 'quick' else 600, 2 if ctx.tier == 'quick' else 30)
    finally:
        sys.unraisablehook = old_hook
        ctx.flush_model()
        ctx.driver = saved


def check_C08(ctx):
    rng = ctx.rng
    ctx.driver = 'ddvauto'
    _build_driver()
    old_hook = sys.unraisablehook
    sys.unraisablehook = _hook
    quick = ctx.tier == 'quick'
    try:
        _copy_probe(ctx)
        # 1. reordering disabled: everything, incl. explicit collections and reorderings
        n = 0
        for k in range(160 if quick else 2500):
            if ctx.time_left() < (34 if quick else 200):
                ctx.notes.append('static histories cut by time budget')
                break
            nv = rng.randint(2, 5)
            two = rng.random() < 0.3
            h = AHistory(ctx, UNIVERSE[:nv], nmgr=2 if two else 1)
            w = dict(W_STATIC)
            if two:
                w['xcopy'] = 4
                w['reject'] = 3
            for _ in range(rng.randint(20, 90)):
                h.step(w, mid=(rng.randrange(2) if two and rng.random() < 0.3 else 0))
                if h.bad:
                    break
            if not h.bad:
                for mid in range(h.nmgr):
                    h.end(mid, explicit_gc=rng.random() < 0.7)
            ctx.case(('static', k, len(h.s.lines), tuple(h.s.lines[-3:])))
            h.finish('C08 static')
            n += 1
        ctx.count('histories:static', n)
        # 2. dynamic reordering on (threshold lowered so that it fires inside operations)
        n = 0
        for k in range(100 if quick else 1500):
            if ctx.time_left() < (24 if quick else 90):
                ctx.notes.append('dynamic histories cut by time budget')
                break
            nv = rng.randint(3, 7)
            h = AHistory(ctx, UNIVERSE[:nv])
            for v in UNIVERSE[:nv]:
                h.call(0, 'a_var', v, outs=[h.fresh()])
            h.call(0, 'a_configure', 1)
            h.call(0, 'set_last_len', rng.randint(1, 6))
            for _ in range(rng.randint(20, 70)):
                h.step(W_DYN)
                if h.bad:
                    break
                if h.b()._last_len is not None and rng.random() < 0.3:
                    h.call(0, 'set_last_len', rng.randint(1, max(2, len(h.b()._succ) // 2)))
            if not h.bad:
                h.end(0, explicit_gc=rng.random() < 0.5)
            ctx.case(('dyn', k, len(h.s.lines), tuple(h.s.lines[-3:])))
            h.finish('C08 dyn')
            n += 1
        ctx.count('histories:dyn', n)
        # 2b. `dd._copy.copy_bdd` / `copy_bdds_from` over autoref, target reordering or not
        xcopy_histories(ctx, 30 if quick else 800, 8 if quick else 40)
        # 3. shutdown with Functions still alive must be refused by the manager
        for k in range(5 if quick else 40):
            h = AHistory(ctx, UNIVERSE[:3])
            for _ in range(rng.randint(5, 20)):
                h.step(dict(var=4, apply=6, fop=3, drop=3, gc=1))
            alive = [hh for hh in h.handles_of(0)]
            h.shut.add(0)
            ans = h.call(0, 'a_shutdown')
            if alive and ans == 'ok -':
                ctx.violation('shutdown check passes although Functions are alive', dict(
                    lines=list(h.s.lines), tags=dict(call='shutdown-live')))
            ctx.case(('shutdown-live', k, len(alive)))
            h.finish('C08 shutdown-live')
    finally:
        sys.unraisablehook = old_hook


REGISTRY = {
    'C08': (check_C08,
            'random histories over dd.autoref (constructions, operators incl. <= < == !=, succ/low/high, '
            'second Functions on a node (copy.copy = Function.__copy__, _add_int, copy_bdd; copy.deepcopy and '
            'pickling of Functions are out of scope), drops in random order, collections, sifting and given orders, '
            'dynamic reordering off/on with lowered threshold, two managers, rejected calls; dd._copy.copy_bdd / '
            'copy_bdds_from into a target with reordering enabled and a low threshold, duplicate / complemented / '
            'constant roots, aliased results, the source counters during and after the call); after every '
            'step: truth table of every live Function, count = in-edges + live Functions (+1 terminal), '
            'registry vs real objects, no exception inside __del__; at the end: drop all, collect, shutdown '
            'check; exact state (counts, handles) compared with the Lean model after every operation'),
}

# the `dd._copy` generator also runs under C11 (replayed on this slice's driver)
EXTRAS = {'C11': [extra_C11_xcopy]}
EXTRA_DRIVERS = ['ddvauto']
