"""C17 extension (slice c17dyn): rejected calls of the DECORATED operations with dynamic
reordering enabled, the reordering request forced at every node-creation position.

For a manager with held functions and each kind of invalid argument of each decorated operation
(`ite`, `apply`, `var`, `quantify`, `let` in its three forms, `cube`, `copy_bdd`, `add_expr`):

* reference run with reordering disabled (the call is rejected: exception class recorded);
* reordering enabled, the request fired at the k-th eligible `find_or_add`, k = 1, 2, ... until
  it no longer fires.  When it fires, the first attempt is aborted, sifting runs, and the call is
  rejected in the RETRY (the path of defect F11); when it does not, the call is rejected in the
  first attempt before the k-th request.  The invalid part of the argument is placed so that valid
  work (node creations) precedes the failure wherever the operation allows it.

Oracle after every such call, on the real code: the exception is not the internal signal
`_NeedsReordering`; reordering is still enabled; the context flag is cleared; every held
reference is there with the same truth table BY NAME; the counts are exact for the ledger; the
structural invariants and the four views of the variable order hold; then a connective on held
references gives the right function and a collection keeps everything held.  Every session is
replayed on the Lean model (exact state, `SECTIONS_L3`).  Theorems: `DD.C17_*_dyn`.
"""
import checks_core as cc
import checks_more as cm
import impl as implmod
from lib import TT, check_invariants, SECTIONS_L3

try:
    import checks_parse as _cp
except ImportError:  # pragma: no cover
    _cp = None

SIGNAL = 'err NeedsReordering'


def _bad_calls(rng, held, names, b, other_mid):
    """(label, op, args, op_mid) — `op_mid` is the manager the protocol line addresses."""
    u, v, w = (rng.choice(held) for _ in range(3))
    bogus = 900 + rng.randrange(50)
    some = rng.choice(names)
    allv = list(names)
    rng.shuffle(allv)
    # the invalid item LAST, after valid ones that create nodes
    cube_late = ','.join([f'{x}={rng.randint(0, 1)}' for x in allv] + ['nosuch=1'])
    compose_late = ','.join(
        [f'{x}={rng.choice(held)}' for x in sorted(names, key=lambda x: -b.vars[x])[:-1]]
        + [f'{min(names, key=lambda x: b.vars[x])}={bogus}'])
    kinds = [
        ('ite-unknown-cond', 'ite', [bogus, u, v]),
        ('ite-unknown-else', 'ite', [u, v, -bogus]),
        ('apply-unknown-operator', 'apply', ['nand', u, v]),
        ('apply-arity-few', 'apply', ['and', u]),
        ('apply-arity-many', 'apply', ['or', u, v, w]),
        ('apply-arity-not', 'apply', ['not', u, v]),
        ('apply-unknown-operand', 'apply', [rng.choice(['and', 'xor', 'implies']), u, bogus]),
        ('apply-ite-unknown-operand', 'apply', ['ite', u, v, bogus]),
        ('apply-quant-unknown', 'apply', [rng.choice([r'\A', r'\E']), u, bogus]),
        ('var-undeclared', 'var', ['nosuch']),
        ('quantify-undeclared', 'quantify', [u, 'n:nosuch', rng.randint(0, 1)]),
        # (no mixed declared/undeclared set: `_map_to_level(set(qvars))` looks at an arbitrary first
        # element, so the exception class would depend on the hash order)
        ('quantify-unknown-node', 'quantify', [bogus, f'n:{some}', rng.randint(0, 1)]),
        ('cofactor-undeclared', 'let_b', [u, f'n:{some}=1,n:nosuch=0']),
        ('cofactor-unknown-node', 'let_b', [bogus, f'n:{some}=1']),
        ('compose-undeclared', 'let_r', [u, f'nosuch={v}']),
        ('compose-unknown-node-1', 'let_r', [u, f'{some}={bogus}']),
        ('compose-unknown-node-late', 'let_r', [u, compose_late]),
        ('compose-unknown-function', 'let_r', [bogus, f'{some}={v}']),
        ('rename-undeclared', 'let_n', [u, f'{some}=nosuch']),
        ('rename-unknown-node', 'let_n', [bogus, f'{some}={rng.choice(names)}']),
        ('cube-undeclared', 'cube', ['nosuch=1']),
        ('cube-late-undeclared', 'cube', [cube_late]),
    ]
    kinds = [(a, b_, c, 0) for a, b_, c in kinds]
    if other_mid is not None:
        kinds += [
            # manager 0 is the TARGET (reordering enabled there); the line addresses the source
            ('copy-unknown-node', 'copy', [bogus, 0], other_mid),
            ('copy-undeclared-variable', 'copy', ['@SRC', 0], other_mid),
        ]
    if _cp is not None:
        f1 = ' /\\ '.join(allv)
        kinds += [
            ('add_expr-syntax-late', 'add_expr', [_cp.esc(f'({f1}) \\/ ( {some} /\\ ')], 0),
            ('add_expr-syntax-operator', 'add_expr', [_cp.esc(f'({f1}) /\\ \\/ {some}')], 0),
            ('add_expr-undeclared-late', 'add_expr', [_cp.esc(f'({f1}) /\\ nosuch')], 0),
            ('add_expr-unknown-node', 'add_expr', [_cp.esc(f'({f1}) /\\ @{bogus}')], 0),
            ('add_expr-quantify-undeclared', 'add_expr', [_cp.esc(f'\\E nosuch: ({f1})')], 0),
        ]
    return kinds


def _source_manager(ctx, lines, names):
    """Append a SOURCE manager 1 declaring one variable more than manager 0 and a function that
    depends on it; returns (lines, reference of that function in manager 1)."""
    rng = ctx.rng
    order = list(names) + ['zz']
    rng.shuffle(order)
    probe = cm.replay_lines(ctx, lines + ['1\tnew\t' + ','.join(f'{x}={i}' for i, x in enumerate(order))])
    refs = [probe.val(probe.op(1, 'var', x)) for x in order]
    r = refs[0]
    for x in refs[1:]:
        r = probe.val(probe.op(1, 'apply', rng.choice(['and', 'xor', 'or']), r, x))
    probe.incref(1, r)
    out = [ln.split('\tS:')[0] for ln in probe.lines]
    probe.close()
    return out, r


def _oracle(ctx, s, b, names, held_tt, ans, label, k, was_enabled):
    bad = []
    tags = dict(call='dyn-failed:' + label)
    if ans == SIGNAL:
        bad.append('the internal reordering signal was raised to the caller')
        tags['symptom'] = 'signal-escapes'
    if was_enabled and b._last_len is None:
        bad.append('dynamic reordering was switched off by the rejected call')
        tags.setdefault('symptom', 'disabled')
    if b._reordering_context:
        bad.append('reordering context flag left set')
        tags.setdefault('symptom', 'context-flag')
    tt = TT(b, names)
    for u, t in held_tt.items():
        if abs(u) not in b._succ:
            bad.append(f'held reference {u} deleted')
            tags.setdefault('symptom', 'held-deleted')
        elif tt.of(u) != t:
            bad.append(f'held reference {u} denotes another function')
            tags.setdefault('symptom', 'held-changed')
    ibad = cc.order_views_ok(b) + check_invariants(b, s.ledger.get(0, {}))
    if ibad:
        tags.setdefault('symptom', 'invariant')
    return bad + ibad, tags


def _after(ctx, s, b, names, held, held_tt, label, k):
    """subsequent operations behave normally"""
    rng = ctx.rng
    u, v = rng.choice(held), rng.choice(held)
    want = held_tt[u] & held_tt[v]
    r = s.val(s.op(0, 'apply', 'and', u, v))
    ok = r is not None and abs(r) in b._succ and TT(b, names).of(r) == want
    s.op(0, 'gc')
    tt = TT(b, names)
    ok2 = all(abs(x) in b._succ and tt.of(x) == t for x, t in held_tt.items())
    if not (ok and ok2) or check_invariants(b, s.ledger.get(0, {})):
        ctx.violation(f'{label}: operation after the rejected call (request {k}) is wrong', dict(
            k=k, lines=list(s.lines), tags=dict(call='after-dyn-failed:' + label)))


def _sweep_one(ctx, lines, held, names, label, op, args, op_mid):
    # ---- reference: reordering not enabled
    ref = cm.replay_lines(ctx, lines)
    b0 = ref.mgr(0)
    held_tt = {u: TT(b0, names).of(u) for u in held}
    ans0 = ref.op(op_mid, op, *args)
    bad, tags = _oracle(ctx, ref, b0, names, held_tt, ans0, label, 0, False)
    ctx.count('reference:' + ('rejected' if ans0.startswith('err') else 'accepted'))
    ctx.count('class:' + ans0.split(':')[0][:40] if ans0.startswith('err') else 'class:ok')
    if bad:
        ctx.violation(f'{label}: rejected call (reordering off) left damage', dict(
            problems=bad[:4], op=op, args=args, lines=list(ref.lines), tags=tags))
    ctx.add_session(ref, SECTIONS_L3, f'C17dyn {label} reference')
    ref.close()
    ctx.evaluations += 1
    # ---- reordering enabled, request at the k-th eligible node creation
    k = 1
    while k <= 40:
        s = cm.replay_lines(ctx, lines)
        b = s.mgr(0)
        s.op(0, 'configure', 1)
        s.op(0, 'fire_in', k)
        ans = s.op(op_mid, op, *args)
        fired = id(b) not in implmod._FIRE
        s.op(0, 'fire_off')
        bad, tags = _oracle(ctx, s, b, names, held_tt, ans, label, k, True)
        tags['k'] = k
        ctx.evaluations += 1
        rejected = ans.startswith('err')
        if fired:
            ctx.count('phase:rejected-in-retry' if rejected else 'phase:accepted-after-reordering')
        else:
            ctx.count('phase:rejected-before-request' if rejected else 'phase:accepted')
        if rejected and ans0.startswith('err') and ans.split(':')[0] != ans0.split(':')[0]:
            ctx.count('exception-class-differs-after-reordering')
        if bad:
            ctx.violation(f'{label}: rejected call with the reordering request at {k} left damage', dict(
                problems=bad[:4], k=k, fired=fired, op=op, args=args, answer=ans,
                lines=list(s.lines), tags=tags))
        else:
            _after(ctx, s, b, names, held, held_tt, label, k)
        s.state(0)
        ctx.add_session(s, SECTIONS_L3, f'C17dyn {label} k={k}')
        s.close()
        ctx.case(('dyn-failed', label, k, fired, tuple(lines[-2:]), tuple(map(str, args))))
        if not fired:
            break
        k += 1


def extra_C17(ctx):
    rng = ctx.rng
    n_scen = 24 if ctx.tier == 'quick' else 300
    reserve = 22 if ctx.tier == 'quick' else 60
    for k in range(n_scen):
        if ctx.time_left() < reserve:
            break
        nv = rng.randint(2, 5)
        lines, held, names = cm.build_scenario(ctx, nv)
        held = [u for u in held if abs(u) != 1] or held
        lines = [ln.split('\tS:')[0] for ln in lines]
        lines, src = _source_manager(ctx, lines, names)
        probe = cm.replay_lines(ctx, lines)
        calls = _bad_calls(rng, held, names, probe.mgr(0), 1)
        probe.close()
        for label, op, args, op_mid in calls:
            if ctx.time_left() < reserve:
                break
            args = [src if a == '@SRC' else a for a in args]
            _sweep_one(ctx, lines, held, names, label, op, args, op_mid)
        if k % 2 == 1:
            ctx.flush_model()
    ctx.notes.append('C17dyn: rejected decorated calls with the reordering request forced at every '
                     'node-creation position (rejected in the retry / before the request)')


def check_C17(ctx):
    cc.check_C17(ctx)
    extra_C17(ctx)


REGISTRY = {
    'C17': (check_C17,
            'rejected calls of ~30 kinds injected at random positions of random histories, '
            'reordering off and on; each decorated operation (ite, apply, var, quantify, let x3, '
            'cube, copy_bdd, add_expr) x each kind of invalid argument with the reordering request '
            'forced at every node-creation position k (rejected in the retry after sifting / '
            'before the request): not the internal signal, reordering still enabled, held '
            'references same truth table by name, ledger exact, invariants, next call normal',
            'ddvparse'),
}
