"""Line-structured reader of the Cython back ends (`dd/cudd.pyx`, `dd/cudd_zdd.pyx`,
`dd/sylvan.pyx`, `dd/buddy.pyx`) for property C19.

Nothing is compiled or executed.  The reader

1. splits a `.pyx` text into logical lines (string- and bracket-aware),
2. finds the `def` / `cpdef` / `cdef` functions by their header lines and
   indentation (classes, `property x:` blocks, module level),
3. rewrites the few Cython-only constructs of a function *body* (`cdef`
   declarations, `<T>` casts, `&x`, `sizeof(T *)`, `1LL`) so that Python's `ast`
   can parse it -- a body that still does not parse is reported as not covered,
4. interprets `apply` symbolically once per operator spelling (`sym_apply`), and
5. enumerates the explicit control-flow paths of every function that touches C
   nodes and records the reference events along each path (`ref_traces`),
   including the references kept in containers: a C array from
   `<DdRef *> PyMem_Malloc(…)` until its `PyMem_Free`, a Python `dict()` that
   nodes are stored into or that is handed down a recursion, a container
   parameter (`DdRef *vector`, `table: dict`, `DdHashTable * hash`); events
   `alloc`/`cnew`/`cparam`, `store`, `load`, `passC`, `free`, and `derefAll` for a
   loop that is recognised BY ITS SHAPE as "dereference every element once"
   (`Tracer.release_loop`); the path condition `x.ref <= 0` (`refNonPos`); stores
   into the `next` field of a node (`setField`).

Whatever is not recognised becomes an explicit `unknown` (apply) or puts the
function on the `uncovered` list (traces); it is never silently dropped.
"""
import ast
import builtins
import os
import re

BACKENDS = (
    # (tag, file, manager class, module prefix of the C API, declaration file or None)
    ('cudd', 'cudd.pyx', 'BDD', '', None),
    ('cuddZdd', 'cudd_zdd.pyx', 'ZDD', '', None),
    ('sylvan', 'sylvan.pyx', 'BDD', 'sy', 'c_sylvan.pxd'),
    ('buddy', 'buddy.pyx', 'BDD', 'buddy', 'buddy_.pxd'),
)

# ---------------------------------------------------------------------------
# 1. logical lines
# ---------------------------------------------------------------------------

_OPEN = '([{'
_CLOSE = ')]}'


class LLine:
    """One logical line: first physical line number, indentation, code without
    comments (physical lines joined by one blank), and the same text with every
    string literal blanked out (`mask`, same length)."""
    __slots__ = ('lineno', 'indent', 'text', 'mask', 'end')

    def __init__(self, lineno, indent, text, mask, end):
        self.lineno = lineno
        self.indent = indent
        self.text = text
        self.mask = mask
        self.end = end

    def __repr__(self):
        return f'<{self.lineno}:{self.indent}:{self.text[:60]}>'


def logical_lines(src):
    """String- and bracket-aware splitting into logical lines (comments dropped)."""
    out = []
    i = 0
    n = len(src)
    line = 1
    cur = []          # pieces of the current logical line
    depth = 0
    start_line = 1
    indent = 0
    fresh = True      # at the start of a physical line, outside brackets, nothing collected

    def flush(end_line):
        nonlocal cur
        text = ''.join(cur).strip()
        if text:
            out.append(LLine(start_line, indent, text, _mask_of(text), end_line))
        cur = []

    while i < n:
        ch = src[i]
        if fresh:
            col = 0
            while i < n and src[i] in ' \t':
                col += 1 if src[i] == ' ' else 8 - (col % 8)
                i += 1
            fresh = False
            if i >= n:
                break
            ch = src[i]
            if ch not in '\n#':
                indent = col
                start_line = line
        if ch == '#':
            while i < n and src[i] != '\n':
                i += 1
            continue
        if ch == '\n':
            line += 1
            i += 1
            cont = cur and cur[-1] == '\\'
            if cont:
                cur.pop()
            if depth > 0 or cont:
                if cur:
                    cur.append(' ')
                    while i < n and src[i] in ' \t':
                        i += 1
                    continue
                fresh = True
                continue
            flush(line - 1)
            fresh = True
            continue
        if ch in '"\'':
            q = src[i:i + 3] if src[i:i + 3] in ('"""', "'''") else ch
            j = i + len(q)
            while j < n:
                if src[j] == '\\':
                    j += 2
                    continue
                if src.startswith(q, j):
                    j += len(q)
                    break
                if src[j] == '\n' and len(q) == 1:
                    break
                j += 1
            lit = src[i:j]
            line += lit.count('\n')
            cur.append(lit)
            i = j
            continue
        if ch in _OPEN:
            depth += 1
        elif ch in _CLOSE:
            depth = max(0, depth - 1)
        cur.append(ch)
        i += 1
    flush(line)
    return out


def _segments(text):
    """[(is_string, start, end)] covering `text`."""
    segs = []
    i = 0
    n = len(text)
    last = 0
    while i < n:
        ch = text[i]
        if ch in '"\'':
            q = text[i:i + 3] if text[i:i + 3] in ('"""', "'''") else ch
            j = i + len(q)
            while j < n:
                if text[j] == '\\':
                    j += 2
                    continue
                if text.startswith(q, j):
                    j += len(q)
                    break
                j += 1
            j = min(j, n)
            if i > last:
                segs.append((False, last, i))
            segs.append((True, i, j))
            i = j
            last = j
            continue
        i += 1
    if n > last:
        segs.append((False, last, n))
    return segs


def _mask_of(text):
    """Blank out the string literals of a logical line (same length)."""
    out = []
    for is_str, a, b in _segments(text):
        if is_str:
            out.append('"' + ' ' * (b - a - 2) + '"' if b - a >= 2 else ' ' * (b - a))
        else:
            out.append(text[a:b])
    return ''.join(out)


# ---------------------------------------------------------------------------
# 2. functions
# ---------------------------------------------------------------------------

_HEAD = re.compile(r'^(def|cpdef|cdef)\s+(.*?)([A-Za-z_]\w*)\s*\($')


class Func:
    def __init__(self):
        self.kind = ''        # def / cpdef / cdef
        self.ret = ''         # declared return type text ('' if none)
        self.name = ''
        self.qual = ''        # Class.name / Class.prop.__get__ / name
        self.cls = None
        self.lineno = 0
        self.end = 0
        self.params = []      # [(name, type text, has_default)]
        self.trailer = ''     # text after the closing parenthesis (`except NULL`, `-> T`)
        self.body = []        # [LLine]
        self.decorators = []


def _split_top(s, mask, sep=','):
    parts = []
    depth = 0
    last = 0
    for k, ch in enumerate(mask):
        if ch in _OPEN:
            depth += 1
        elif ch in _CLOSE:
            depth -= 1
        elif ch == sep and depth == 0:
            parts.append(s[last:k])
            last = k + 1
    parts.append(s[last:])
    return [p.strip() for p in parts if p.strip()]


def _parse_param(p):
    """`name`, `name: T`, `name: T = d`, `T *name`, `T name`, `*args: T`, `**kw`."""
    m = _mask_of(p)
    default = False
    # default value: top-level `=`
    depth = 0
    for k, ch in enumerate(m):
        if ch in _OPEN:
            depth += 1
        elif ch in _CLOSE:
            depth -= 1
        elif ch == '=' and depth == 0 and m[k:k + 2] != '==' and (k == 0 or m[k - 1] not in '!<>='):
            p = p[:k].strip()
            default = True
            break
    if ':' in _mask_of(p):
        k = _mask_of(p).index(':')
        return p[:k].strip().lstrip('*'), ' '.join(p[k + 1:].split()), default
    toks = re.findall(r'[A-Za-z_][\w.]*|\*+', p)
    if not toks:
        return p, '', default
    name = toks[-1]
    typ = ' '.join(toks[:-1])
    return name, typ, default


def functions(lls):
    """All functions of a module, in source order."""
    funcs = []
    scopes = []   # [(indent, kind, name)] of enclosing class / property blocks
    decorators = []
    k = 0
    n = len(lls)
    while k < n:
        ll = lls[k]
        while scopes and ll.indent <= scopes[-1][0]:
            scopes.pop()
        t = ll.text
        m = ll.mask
        if t.startswith('@'):
            decorators.append(t)
            k += 1
            continue
        mc = re.match(r'^(?:cdef\s+)?class\s+([A-Za-z_]\w*)', t)
        if mc and m.rstrip().endswith(':'):
            scopes.append((ll.indent, 'class', mc.group(1)))
            decorators = []
            k += 1
            continue
        mp = re.match(r'^property\s+([A-Za-z_]\w*)\s*:$', t)
        if mp:
            scopes.append((ll.indent, 'property', mp.group(1)))
            decorators = []
            k += 1
            continue
        f = None
        inline = None
        if re.match(r'^(def|cpdef|cdef)\s', t) and '(' in m \
                and not re.match(r'^cdef\s+(class|extern|enum|struct|union)\b', t):
            # header: keyword [type] name ( params ) trailer : [statement on the same line]
            op = m.index('(')
            depth = 0
            cl = None
            for j in range(op, len(m)):
                if m[j] in _OPEN:
                    depth += 1
                elif m[j] in _CLOSE:
                    depth -= 1
                    if depth == 0:
                        cl = j
                        break
            colon = None
            if cl is not None:
                depth = 0
                for j in range(cl + 1, len(m)):
                    if m[j] in _OPEN:
                        depth += 1
                    elif m[j] in _CLOSE:
                        depth -= 1
                    elif m[j] == ':' and depth == 0:
                        colon = j
                        break
                    elif m[j] == '=' and depth == 0:
                        break       # `cdef T x = f(...)`: a declaration, not a header
            hm = _HEAD.match(t[:op + 1]) if colon is not None else None
            if hm and cl is not None and t[colon + 1:].strip():
                # `def f(u): Cudd_Ref(u.node)`: the body is the rest of the line
                rest = t[colon + 1:].strip()
                inline = LLine(ll.lineno, ll.indent + 4, rest, _mask_of(rest), ll.end)
                t = t[:colon + 1]
                m = m[:colon + 1]
            if hm and cl is not None:
                f = Func()
                f.kind = hm.group(1)
                f.ret = ' '.join(hm.group(2).replace('inline', '').split())
                f.name = hm.group(3)
                f.lineno = ll.lineno
                f.params = [_parse_param(p) for p in _split_top(t[op + 1:cl], m[op + 1:cl])]
                f.trailer = t[cl + 1:].rstrip().rstrip(':').strip()
                f.decorators = decorators
                names = [s[2] for s in scopes]
                f.cls = next((s[2] for s in scopes if s[1] == 'class'), None)
                f.qual = '.'.join(names + [f.name])
        decorators = []
        if f is None:
            k += 1
            continue
        # body: following lines with greater indentation
        j = k + 1
        while j < n and lls[j].indent > ll.indent:
            j += 1
        f.body = ([inline] if inline is not None else []) + lls[k + 1:j]
        f.end = lls[j - 1].end if j > k + 1 else ll.end
        funcs.append(f)
        # nested functions are rare (one `def mapper` in cudd.dump); they stay part of the body
        k = j
    return funcs


# ---------------------------------------------------------------------------
# 3. body -> Python ast
# ---------------------------------------------------------------------------

_CAST = re.compile(r'<\s*((?:unsigned\s+)?[A-Za-z_][\w.]*)\s*(\**)\s*>')
NODE_TYPES = ('DdRef', 'DdNode *', 'sy.BDD', 'BDD')


def _subst_outside_strings(text, fn):
    """Apply `fn` to the maximal segments of `text` that are not inside string literals."""
    return ''.join(text[a:b] if is_str else fn(text[a:b]) for is_str, a, b in _segments(text))


def _sanitize_code(seg):
    # sizeof(T *) -> sizeof()
    seg = re.sub(r'\bsizeof\s*\([^()]*\)', 'sizeof()', seg)
    # C integer suffix
    seg = re.sub(r'\b(\d+)LL\b', r'\1', seg)

    def cast(m):
        t = m.group(1)
        if t == 'DdRef' and not m.group(2):
            return '+'          # marker: unary plus = cast to a node pointer
        if t == 'DdRef' and m.group(2) == '*':
            return '-'          # marker: unary minus = cast to an array of node pointers
        return ''
    seg = _CAST.sub(cast, seg)
    # address-of in argument position
    seg = re.sub(r'([(,])\s*&(?=[A-Za-z_])', r'\1', seg)
    return seg


_CDEF_DECL = re.compile(r'^cdef\s+(.*)$')


def sanitize_line(ll):
    t = ll.text.rstrip().rstrip(';').rstrip()
    m = _mask_of(t)
    md = _CDEF_DECL.match(t)
    if md and not re.match(r'^cdef\s+(class|extern)\b', t):
        rest = md.group(1)
        rm = _mask_of(rest)
        eq = None
        depth = 0
        for k, ch in enumerate(rm):
            if ch in _OPEN:
                depth += 1
            elif ch in _CLOSE:
                depth -= 1
            elif ch == '=' and depth == 0 and rm[k:k + 2] != '==':
                eq = k
                break
        if eq is None:
            return 'pass'
        lhs = rest[:eq]
        toks = re.findall(r'[A-Za-z_]\w*', lhs)
        if not toks:
            return 'pass'
        t = f'{toks[-1]} = {rest[eq + 1:].strip()}'
        m = _mask_of(t)
    return _subst_outside_strings(t, _sanitize_code)


def body_ast(f):
    """Parse the (sanitised) body of a function; returns (list of stmts, None) or (None, error)."""
    if not f.body:
        return [], None
    base = f.body[0].indent
    lines = []
    lineno_of = {}
    k = 0
    for ll in f.body:
        ind = max(0, ll.indent - base)
        t = ' ' * ind + sanitize_line(ll)
        lines.append(t)
        for _ in range(t.count('\n') + 1):
            k += 1
            lineno_of[k] = ll.lineno
    src = '\n'.join(lines) + '\n'
    try:
        tree = ast.parse(src)
    except SyntaxError as e:
        return None, f'syntax (line {lineno_of.get(e.lineno, f.lineno)}): {e.msg}'
    for node in ast.walk(tree):
        if hasattr(node, 'lineno'):
            node.lineno = lineno_of.get(node.lineno, f.lineno)
    return tree.body, None


# ---------------------------------------------------------------------------
# declarations: which C functions return a node
# ---------------------------------------------------------------------------

_DECL = re.compile(r'^(DdRef|DdNode\s*\*|BDD|BDDSET|BDDMAP)\s*\*?\s*([A-Za-z_]\w*)\s*\(')


def node_returning(lls, funcs):
    """Names declared (in `cdef extern` blocks / `.pxd`) or defined (`cdef DdRef f(`)
    with a node return type."""
    ext = set()
    for ll in lls:
        m = _DECL.match(ll.text)
        if m and m.group(1) not in ('BDDSET', 'BDDMAP'):
            ext.add(m.group(2))
    local = set()
    for f in funcs:
        if f.kind == 'cdef' and f.ret in ('DdRef', 'DdNode *'):
            local.add(f.name)
    return ext, local


_DEF_TOKEN = re.compile(r'^(?:async\s+)?(?:def|cpdef)\s+[A-Za-z_]')
_CDEF_FN_TOKEN = re.compile(r'^cdef\s+(?!class\b|extern\b|enum\b|struct\b|union\b|cppclass\b|fused\b)[^=(]*\(')


def count_def_tokens(lls):
    """Number of logical lines that START a function definition, counted from the keyword alone
    (`def` / `cpdef` / `async def`; `cdef … (` with no `=` before the parenthesis), whatever the rest
    of the line looks like.  Independent of `functions()`: compared with what that found
    (`allFunctionsSeen`)."""
    n = 0
    for ll in lls:
        m = ll.mask
        if _DEF_TOKEN.match(m):
            n += 1
        elif _CDEF_FN_TOKEN.match(m) and not re.match(r'^cdef\s+[^(]*\(\s*\*', m):
            n += 1
    return n


def read_module(repo, fname):
    src = open(os.path.join(repo, 'dd', fname)).read()
    lls = logical_lines(src)
    return lls, functions(lls)


# ---------------------------------------------------------------------------
# 4. symbolic execution of `apply`, once per operator spelling
# ---------------------------------------------------------------------------

class Unknown(Exception):
    def __init__(self, text):
        super().__init__(text)
        self.text = text


class _Raise(Exception):
    def __init__(self, exc, lineno):
        super().__init__(exc)
        self.exc = exc
        self.lineno = lineno


class _Return(Exception):
    def __init__(self, value, lineno):
        super().__init__('return')
        self.value = value
        self.lineno = lineno


# symbolic values
class V:
    pass


class VNode(V):          # a C node given by an expression tree
    def __init__(self, e, line=0):
        self.e = e
        self.line = line


class VHandle(V):        # a `Function` wrapping a node
    def __init__(self, e, param=None, line=0):
        self.e = e
        self.param = param
        self.line = line


class VNone(V):
    pass


class VNull(V):
    pass


class VMgr(V):           # manager pointer / manager object: dropped from C calls
    pass


class VInt(V):
    def __init__(self, n):
        self.n = n


class VVars(V):          # `self.support(<operand>)`: the variables of an operand
    def __init__(self, e):
        self.e = e


class VOp(V):            # the operator string
    pass


class VOther(V):
    def __init__(self, text):
        self.text = text


def _dotted(node):
    if isinstance(node, ast.Name):
        return node.id
    if isinstance(node, ast.Attribute):
        b = _dotted(node.value)
        return None if b is None else b + '.' + node.attr
    return None


def _src(node):
    try:
        return ' '.join(ast.unparse(node).split())
    except Exception:  # noqa: BLE001
        return '<?>'


class ApplySym:
    """Abstract interpreter of one `apply` body for one operator spelling."""

    def __init__(self, backend, prefix, func, stmts, node_fns, module_consts, arity_fn):
        self.backend = backend
        self.prefix = prefix
        self.func = func
        self.stmts = stmts
        self.node_fns = node_fns
        self.consts = module_consts
        self.arity_fn = arity_fn
        self.guards = []

    # -- entry ---------------------------------------------------------------
    def run(self, op, given, binding=None):
        """`given`: set of operand names passed as non-None ('u' always).
        `binding`: parameter name -> operand letter (default: the parameters `u`, `v`, `w`)."""
        self.op = op
        self.env = {}
        self.guards = []
        pnames = [p[0] for p in self.func.params]
        if binding is None:
            binding = {x: x for x in ('u', 'v', 'w')}
        self.env['self'] = VMgr()
        for p in pnames:
            if p in binding:
                o = binding[p]
                self.env[p] = VHandle(('arg', o), param=o) if o in given else VNone()
            elif p == 'self':
                continue
            elif p == 'op':
                self.env[p] = VOp()
            else:
                self.env[p] = VOther(p)
        self.has = set(pnames)
        try:
            self.block(self.stmts)
        except _Return as r:
            v = r.value
            if isinstance(v, VHandle):
                return ('ret', v.e, v.line or r.lineno)
            return ('unknown', f'returns {type(v).__name__}', r.lineno)
        except _Raise as r:
            return ('raises', r.exc, r.lineno)
        except Unknown as u:
            return ('unknown', u.text, self.func.lineno)
        return ('unknown', 'falls off the end', self.func.end)

    # -- statements ------------------------------------------------------------
    def block(self, stmts):
        for st in stmts:
            self.stmt(st)

    def stmt(self, st):
        if isinstance(st, ast.Expr):
            v = st.value
            if isinstance(v, ast.Constant):
                return
            d = _dotted(v)
            if d is not None and d.endswith('LACE_ME_WRAP'):
                return
            if isinstance(v, ast.Call):
                fn = _dotted(v.func)
                if fn is not None and fn.endswith('assert_operator_arity'):
                    return self.arity_call(v, st.lineno)
            raise Unknown(_src(st))
        if isinstance(st, ast.Pass):
            return
        if isinstance(st, ast.AnnAssign):
            if st.value is None:
                return
            if isinstance(st.target, ast.Name):
                self.env[st.target.id] = self.expr(st.value)
                return
            raise Unknown(_src(st))
        if isinstance(st, ast.Assign):
            if len(st.targets) == 1 and isinstance(st.targets[0], ast.Name):
                self.env[st.targets[0].id] = self.expr(st.value)
                return
            raise Unknown(_src(st))
        if isinstance(st, ast.If):
            c = self.cond(st.test)
            if c is None:
                # residual condition: acceptable only as an error guard
                if not st.orelse and self.only_raises(st.body):
                    self.guards.append(_src(st.test))
                    return
                raise Unknown('condition ' + _src(st.test))
            return self.block(st.body if c else st.orelse)
        if isinstance(st, ast.Raise):
            raise _Raise(self.exc_name(st), st.lineno)
        if isinstance(st, ast.Return):
            raise _Return(self.expr(st.value) if st.value is not None else VNone(), st.lineno)
        raise Unknown(_src(st))

    def only_raises(self, body):
        """The block ends in `raise` and before that only binds names to plain calls."""
        if not body or not isinstance(body[-1], ast.Raise):
            return False
        for st in body[:-1]:
            if not (isinstance(st, ast.Assign) and len(st.targets) == 1
                    and isinstance(st.targets[0], ast.Name)):
                return False
        return True

    def exc_name(self, st):
        e = st.exc
        if isinstance(e, ast.Call):
            e = e.func
        return _dotted(e) or 'Exception'

    def arity_call(self, call, lineno):
        args = call.args
        ok = (len(args) == 4 and all(isinstance(a, ast.Name) for a in args[:3])
              and [a.id for a in args[:3]] == ['op', 'v', 'w']
              and isinstance(args[3], ast.Constant) and args[3].value == 'bdd')
        if not ok:
            raise Unknown(_src(call))
        v = None if isinstance(self.env.get('v'), VNone) else object()
        w = None if isinstance(self.env.get('w'), VNone) else object()
        try:
            self.arity_fn(self.op, v, w, 'bdd')
        except ValueError:
            raise _Raise('ValueError', lineno)

    # -- conditions --------------------------------------------------------------
    def cond(self, t):
        """True / False / None (residual)."""
        if isinstance(t, ast.BoolOp):
            vals = [self.cond(x) for x in t.values]
            if isinstance(t.op, ast.And):
                if any(v is False for v in vals):
                    return False
                return True if all(v is True for v in vals) else None
            if any(v is True for v in vals):
                return True
            return False if all(v is False for v in vals) else None
        if isinstance(t, ast.UnaryOp) and isinstance(t.op, ast.Not):
            v = self.cond(t.operand)
            return None if v is None else (not v)
        if isinstance(t, ast.Compare) and len(t.ops) == 1:
            left, op, right = t.left, t.ops[0], t.comparators[0]
            if isinstance(left, ast.Name) and left.id == 'op':
                vals = self.str_set(right)
                if vals is None:
                    raise Unknown('operator test ' + _src(t))
                if isinstance(op, ast.In):
                    return self.op in vals
                if isinstance(op, ast.NotIn):
                    return self.op not in vals
                if isinstance(op, ast.Eq) and len(vals) == 1 and isinstance(right, ast.Constant):
                    return self.op == right.value
                if isinstance(op, ast.NotEq) and len(vals) == 1 and isinstance(right, ast.Constant):
                    return self.op != right.value
                raise Unknown('operator test ' + _src(t))
            if (isinstance(left, ast.Name) and left.id in ('v', 'w', 'u')
                    and isinstance(right, ast.Constant) and right.value is None):
                val = self.env.get(left.id)
                isnone = isinstance(val, VNone)
                if isinstance(op, ast.Is):
                    return isnone
                if isinstance(op, ast.IsNot):
                    return not isnone
            return None
        return None

    def str_set(self, node):
        if isinstance(node, (ast.Tuple, ast.List, ast.Set)):
            if all(isinstance(e, ast.Constant) and isinstance(e.value, str) for e in node.elts):
                return [e.value for e in node.elts]
            return None
        if isinstance(node, ast.Constant) and isinstance(node.value, str):
            return [node.value]
        if isinstance(node, ast.Name) and node.id in self.consts:
            return self.consts[node.id]
        return None

    # -- expressions ---------------------------------------------------------------
    def expr(self, e):
        if isinstance(e, ast.Constant):
            if e.value is None:
                return VNone()
            if isinstance(e.value, int) and not isinstance(e.value, bool):
                return VInt(e.value)
            return VOther(_src(e))
        if isinstance(e, ast.Name):
            if e.id == 'NULL':
                return VNull()
            if e.id in self.env:
                return self.env[e.id]
            if e.id == 'mgr':
                return VMgr()
            raise _Raise('UnboundLocalError', e.lineno)
        if isinstance(e, ast.Attribute):
            d = _dotted(e)
            base = e.value
            if e.attr == 'node':
                b = self.expr(base)
                if isinstance(b, VHandle):
                    return VNode(b.e, b.line)
                if isinstance(b, VNone):
                    raise _Raise('AttributeError', e.lineno)
                raise Unknown(_src(e))
            if e.attr in ('manager', 'zdd', 'bdd'):
                b = self.expr(base)
                if isinstance(b, (VHandle, VMgr)):
                    return VMgr()
                if isinstance(b, VNone):
                    raise _Raise('AttributeError', e.lineno)
                raise Unknown(_src(e))
            if d is not None:
                return VOther(d)
            raise Unknown(_src(e))
        if isinstance(e, ast.Call):
            return self.call(e)
        raise Unknown(_src(e))

    def call(self, c):
        fn = _dotted(c.func)
        if fn is None or c.keywords:
            raise Unknown(_src(c))
        if (fn.endswith('.apply') and c.args and isinstance(c.args[0], ast.Constant)
                and isinstance(c.args[0].value, str) and getattr(self, 'apply_rows', None) is not None):
            # `self.zdd.apply('<=>', self, other)`: inline the row of the same back end's `apply`
            base = self.expr(c.func.value)
            ops = [self.expr(a) for a in c.args[1:]]
            row = self.apply_rows.get(c.args[0].value)
            if isinstance(base, VMgr) and row is not None and row[0] == 'ret' \
                    and all(isinstance(o, VHandle) for o in ops) and len(ops) <= 3:
                sub = dict(zip('uvw', [o.e for o in ops]))
                return VHandle(_subst(row[1], sub), line=c.lineno)
            raise Unknown(_src(c))
        args = [self.expr(a) for a in c.args]
        # wrap(self, r) / Function(r)
        if fn == 'wrap' and len(args) == 2 and isinstance(args[0], VMgr):
            return self.wrap(args[1], c)
        if fn == 'Function' and len(args) == 1:
            return self.wrap(args[0], c)
        if fn == 'self.support' and len(args) == 1 and isinstance(args[0], VHandle):
            return VVars(args[0].e)
        if fn == 'self.configure' and not args:
            return VOther(fn)
        cname = fn
        if self.prefix and fn.startswith(self.prefix + '.'):
            cname = fn[len(self.prefix) + 1:]
        elif self.prefix:
            raise Unknown(_src(c))
        if cname == '_dict_to_zdd' and len(args) == 2 and isinstance(args[0], VVars) \
                and isinstance(args[1], VMgr):
            return VHandle(('call', '_dict_to_zdd', [('call', 'support', [args[0].e])]), line=c.lineno)
        if cname not in self.node_fns:
            raise Unknown('call of ' + _src(c.func))
        # a C call returning a node
        k = 0
        if args and isinstance(args[0], VMgr):
            k = 1
        name = cname
        sub = []
        for a in args[k:]:
            if isinstance(a, VNode):
                sub.append(a.e)
            elif isinstance(a, VInt):
                name += f'/{a.n}'
            else:
                raise Unknown('argument of ' + _src(c))
        if len(sub) > 3:
            raise Unknown(_src(c))
        return VNode(('call', name, sub), c.lineno)

    def wrap(self, a, c):
        if isinstance(a, VNode):
            return VHandle(a.e, line=a.line)
        if isinstance(a, VNull):
            raise _Raise('ValueError', c.lineno)
        raise Unknown(_src(c))


def _subst(e, sub):
    if e[0] == 'arg':
        if e[1] not in sub:
            raise Unknown('operand ' + e[1] + ' not supplied')
        return sub[e[1]]
    if e[0] == 'call':
        return ('call', e[1], [_subst(x, sub) for x in e[2]])
    return e


def module_str_consts(lls):
    """Module-level `NAME = Literal[...]` aliases and `NAME = set(get_args(ALIAS))`."""
    lits = {}
    consts = {}
    for ll in lls:
        if ll.indent != 0:
            continue
        m = re.match(r'^([A-Za-z_]\w*)\s*(?::[^=]*)?=\s*(.*)$', ll.text)
        if not m:
            continue
        name, rhs = m.group(1), m.group(2)
        ml = re.match(r'^_ty\.Literal\[(.*)\]$', rhs)
        if ml:
            try:
                vals = ast.literal_eval('[' + ml.group(1) + ']')
            except Exception:  # noqa: BLE001
                continue
            if all(isinstance(v, str) for v in vals):
                lits[name] = vals
            continue
        ms = re.match(r'^set\(\s*_ty\.get_args\(\s*([A-Za-z_]\w*)\s*\)\s*\)$', rhs)
        if ms and ms.group(1) in lits:
            consts[name] = list(lits[ms.group(1)])
    return consts


def string_literals(stmts):
    out = []
    for st in stmts:
        for node in ast.walk(st):
            if isinstance(node, ast.Compare) and isinstance(node.left, ast.Name) and node.left.id == 'op':
                for c in node.comparators:
                    for e in ast.walk(c):
                        if isinstance(e, ast.Constant) and isinstance(e.value, str):
                            out.append(e.value)
    return out


# ---------------------------------------------------------------------------
# apply tables of the four back ends
# ---------------------------------------------------------------------------

def _abc_vocab(repo):
    import importlib
    import sys
    if repo not in sys.path:
        sys.path.insert(0, repo)
    abc_ = importlib.import_module('dd._abc')
    utils = importlib.import_module('dd._utils')
    return abc_, utils


def load_backend(repo, tag):
    """(logical lines, functions, node-returning C names, locally defined node-returning names)."""
    _t, fname, cls, prefix, decl = next(b for b in BACKENDS if b[0] == tag)
    lls, funcs = read_module(repo, fname)
    ext, local = node_returning(lls, funcs)
    consts = set()
    dl = []
    if decl:
        dl = logical_lines(open(os.path.join(repo, 'dd', decl)).read())
        e2, _ = node_returning(dl, [])
        ext |= e2
        for ll in dl:
            m = re.match(r'^(?:stdint\.uint64_t|BDD)\s+(sylvan_(?:true|false|invalid))$', ll.text)
            if m:
                consts.add(m.group(1))
    return dict(tag=tag, file=fname, cls=cls, prefix=prefix, lls=lls, funcs=funcs,
                ext=ext, local=local, node_consts=consts, decl_lls=dl)


def arity_of(op, abc_):
    if op in abc_.UNARY_OPERATOR_SYMBOLS:
        return 1
    if op in abc_.TERNARY_OPERATOR_SYMBOLS:
        return 3
    return 2


def docstring_spellings(stmts):
    """Spellings quoted as `'…'` / `r'…'` inside backticks in the method's docstring (data only)."""
    if not (stmts and isinstance(stmts[0], ast.Expr) and isinstance(stmts[0].value, ast.Constant)
            and isinstance(stmts[0].value.value, str)):
        return []
    out = []
    for m in re.finditer(r"`(r?'(?:[^'\\]|\\.)*')`", stmts[0].value.value):
        try:
            v = ast.literal_eval(m.group(1))
        except Exception:  # noqa: BLE001
            continue
        if isinstance(v, str) and v not in out:
            out.append(v)
    return out


def apply_table(repo, mod):
    """Rows `(alias, outcome, line)` of one back end's `apply`."""
    abc_, utils = _abc_vocab(repo)
    allops = sorted(abc_.BDD_OPERATOR_SYMBOLS)
    f = next((f for f in mod['funcs'] if f.qual == mod['cls'] + '.apply'), None)
    res = dict(tag=mod['tag'], file='dd/' + mod['file'], line=0, rows=[], declared=[],
               documented=[], via_abc=False, guards=[])
    if f is None:
        res['rows'] = [(op, ('unknown', 'no method apply', 0)) for op in allops]
        return res
    res['line'] = f.lineno
    stmts, err = body_ast(f)
    if stmts is None:
        res['rows'] = [(op, ('unknown', err, f.lineno)) for op in allops]
        return res
    consts = module_str_consts(mod['lls'])
    sym = ApplySym(mod['tag'], mod['prefix'], f, stmts, mod['ext'] | mod['local'], consts,
                   utils.assert_operator_arity)
    # declared vocabulary
    via_abc = any(
        isinstance(st, ast.Expr) and isinstance(st.value, ast.Call)
        and (_dotted(st.value.func) or '').endswith('assert_operator_arity')
        for st in stmts)
    declared = list(allops) if via_abc else []
    if not via_abc:
        # `if op not in NAME: raise` at the top, NAME a module-level set of literals
        for st in stmts:
            if (isinstance(st, ast.If) and isinstance(st.test, ast.Compare)
                    and isinstance(st.test.left, ast.Name) and st.test.left.id == 'op'
                    and isinstance(st.test.ops[0], ast.NotIn)
                    and isinstance(st.test.comparators[0], ast.Name)
                    and st.test.comparators[0].id in consts):
                declared = sorted(consts[st.test.comparators[0].id])
                break
    universe = sorted(set(allops) | set(string_literals(stmts)) | set(declared))
    pnames = {p[0] for p in f.params}
    guards = []
    for op in universe:
        ar = arity_of(op, abc_)
        given = {'u', 'v', 'w'} if ar == 3 else {'u', 'v'} if ar == 2 else {'u'}
        given &= pnames
        if ar == 3 and 'w' not in pnames:
            # the method cannot even be called with three operands
            out = ('raises', 'TypeError', f.lineno)
        else:
            out = sym.run(op, given)
        for g in sym.guards:
            if g not in guards:
                guards.append(g)
        res['rows'].append((op, out))
    res['declared'] = declared
    res['documented'] = docstring_spellings(stmts)
    res['via_abc'] = via_abc
    res['guards'] = guards
    return res


# quantifier functions as the reader understands them: (universal, index of the quantified
# node, index of the variable cube) among the node arguments.  lean/DD/CWrap.lean has its own
# table (`cQuantSig`); `cTables_consistent` proves that the two agree on the current source.
QUANT_SIG = {
    'Cudd_bddUnivAbstract': (True, 0, 1), 'Cudd_bddExistAbstract': (False, 0, 1),
    'sylvan_forall': (True, 0, 1), 'sylvan_exists': (False, 0, 1),
    'bdd_forall': (True, 0, 1), 'bdd_exist': (False, 0, 1),
    '_forall_root': (True, 0, 1), '_exist_root': (False, 0, 1),
}


def roles_of(e):
    """(universal, operand supplying the variables, quantified operand, mode) or None."""
    if e[0] == 'call' and e[1] in QUANT_SIG and len(e[2]) == 2:
        fa, bi, ci = QUANT_SIG[e[1]]
        body, cube = e[2][bi], e[2][ci]
        if body[0] != 'arg':
            return None
        if cube[0] == 'arg':
            return (fa, cube[1], body[1], 'cubeArg')
        if (cube[0] == 'call' and cube[1] == '_dict_to_zdd' and len(cube[2]) == 1
                and cube[2][0][0] == 'call' and cube[2][0][1] == 'support'
                and cube[2][0][2] and cube[2][0][2][0][0] == 'arg'):
            return (fa, cube[2][0][2][0][1], body[1], 'supportOf')
    return None


# operator methods of the handles and of the managers: (qualified name, parameter binding,
# the spelling of `apply` they must agree with)
OPERATOR_METHODS = (
    ('Function.__invert__', {'self': 'u'}, 'not'),
    ('Function.__and__', {'self': 'u', 'other': 'v'}, 'and'),
    ('Function.__or__', {'self': 'u', 'other': 'v'}, 'or'),
    ('Function.__xor__', {'self': 'u', 'other': 'v'}, 'xor'),
    ('Function.implies', {'self': 'u', 'other': 'v'}, 'implies'),
    ('Function.equiv', {'self': 'u', 'other': 'v'}, 'equiv'),
    ('{cls}.ite', {'g': 'u', 'u': 'v', 'v': 'w'}, 'ite'),
)


def operator_table(repo, mod, apply_tab):
    """Rows `(method, spelling, outcome)` for the operator methods that exist in the module."""
    _abc2, utils = _abc_vocab(repo)
    rows = []
    arows = {op: out for op, out in apply_tab['rows']}
    for qual, binding, spelling in OPERATOR_METHODS:
        qual = qual.format(cls=mod['cls'])
        f = next((f for f in mod['funcs'] if f.qual == qual), None)
        if f is None:
            continue
        stmts, err = body_ast(f)
        if stmts is None:
            rows.append((qual, spelling, ('unknown', err, f.lineno)))
            continue
        pn = [p[0] for p in f.params]
        if not set(binding) <= set(pn):
            rows.append((qual, spelling, ('unknown', 'unexpected parameters ' + ', '.join(pn), f.lineno)))
            continue
        sym = ApplySym(mod['tag'], mod['prefix'], f, stmts, mod['ext'] | mod['local'], {},
                       utils.assert_operator_arity)
        sym.apply_rows = arows
        rows.append((qual, spelling, sym.run(None, set(binding.values()), binding)))
    return rows


# ---------------------------------------------------------------------------
# Lean text
# ---------------------------------------------------------------------------

def _ls(s):
    out = ['"']
    for ch in s:
        if ch == '\\':
            out.append('\\\\')
        elif ch == '"':
            out.append('\\"')
        elif ch == '\n':
            out.append('\\n')
        elif ch == '\t':
            out.append('\\t')
        else:
            out.append(ch)
    out.append('"')
    return ''.join(out)


def lean_cexpr(e):
    if e[0] == 'arg':
        return f'(.arg .{e[1]})'
    if e[0] == 'call':
        name, sub = e[1], e[2]
        if len(sub) == 0:
            return f'(.c0 {_ls(name)})'
        if len(sub) <= 3:
            return f'(.c{len(sub)} {_ls(name)} ' + ' '.join(lean_cexpr(x) for x in sub) + ')'
    return f'(.unknown {_ls(repr(e))})'


def lean_outcome(out):
    if out[0] == 'ret':
        return f'.ret {lean_cexpr(out[1])}'
    if out[0] == 'raises':
        return f'.raises {_ls(out[1])}'
    return f'.unknown {_ls(str(out[1]))}'


def lean_apply_table(t):
    rows = ',\n    '.join(
        f'⟨{_ls(op)}, {lean_outcome(out)}, {out[2]}⟩' for op, out in t['rows'])
    return ('{ backend := .' + t['tag'] + ', file := ' + _ls(t['file']) + f', line := {t["line"]},\n'
            '  rows := [\n    ' + rows + '],\n'
            '  declared := [' + ', '.join(_ls(x) for x in t['declared']) + '],\n'
            '  declaredViaAbc := ' + ('true' if t['via_abc'] else 'false') + ',\n'
            '  guards := [' + ', '.join(_ls(x) for x in t['guards']) + '] }')


# ---------------------------------------------------------------------------
# 5. reference traces
# ---------------------------------------------------------------------------

REF_FNS = ('Cudd_Ref', 'cuddRef', 'sylvan_ref', 'bdd_addref')
DEREF_FNS = ('Cudd_RecursiveDeref', 'Cudd_RecursiveDerefZdd', 'Cudd_IterDerefBdd',
             'Cudd_Deref', 'cuddDeref', 'sylvan_deref', 'bdd_delref')
REF_METHODS = ('_incref', 'incref')
DEREF_METHODS = ('_decref', 'decref')
MAX_PATHS = 3000

# Containers of node references.  A C array obtained from `PyMem_Malloc` is followed from its
# allocation to its `PyMem_Free`; a Python `dict()` / `{}` becomes a tracked container when a node
# is stored into it, loaded from it, or when it is handed to a node-returning function of the same
# module; a parameter of one of the types below is a container owned by the caller.
# (only arrays of node pointers, `<DdRef *> PyMem_Malloc(…)`, are followed; `int *`, `char **` are not)
ALLOC_FNS = ('PyMem_Malloc',)
FREE_FNS = ('PyMem_Free', 'FREE')
CONT_PARAM_TYPES = ('DdRef *', 'DdNode **', 'DdHashTable *', 'dict')
PYCONT_CALLS = ('dict',)
# fields of CUDD's `DdNode` that hold a node pointer without a reference (collision chain of
# the unique table, used as a traversal mark by `_support` / `_clear_markers`)
NODE_LINK_FIELDS = ('next',)
# the counter of a CUDD `Function`: the number of library references the handle owns
REF_FIELD = '_ref'


class Uncovered(Exception):
    pass


class _PathEnd(Exception):
    """The current path ends inside an expression (unbound local)."""

    def __init__(self, ev):
        super().__init__(ev)
        self.ev = ev


class PState:
    __slots__ = ('env', 'events', 'nid', 'names', 'nullness', 'done', 'loopctl', 'conds', 'ntok', 'origin')

    def __init__(self):
        self.env = {}
        self.events = []
        self.nid = 0
        self.names = {}
        self.nullness = {}     # node id -> True (NULL) / False (not NULL)
        self.done = False
        self.loopctl = None    # 'break' / 'continue'
        self.conds = {}        # source of a test over plain local names -> its value on this path
        self.ntok = 0          # Python containers created so far on this path
        self.origin = {}       # local name -> text of the call whose result it was bound to

    def copy(self):
        p = PState()
        p.env = dict(self.env)
        p.events = list(self.events)
        p.nid = self.nid
        p.names = dict(self.names)
        p.nullness = dict(self.nullness)
        p.done = self.done
        p.loopctl = self.loopctl
        p.conds = dict(self.conds)
        p.ntok = self.ntok
        p.origin = dict(self.origin)
        return p

    def new(self, name):
        x = self.nid
        self.nid += 1
        self.names[x] = name
        return x


def _has_relevant_call(node, tr):
    for n in ast.walk(node):
        if isinstance(n, ast.Call):
            fn = _dotted(n.func)
            if fn is None:
                if not isinstance(n.func, ast.Attribute):
                    return True      # `[Cudd_Ref][0](r)`, `getattr(self, 'incref')(f)`
                fn = '?.' + n.func.attr
            c = tr.cname(fn)
            if c in tr.node_fns or c in REF_FNS or c in DEREF_FNS or fn == 'wrap':
                return True
            # the wrappers' own reference methods, and callees the reader has to look at: a local
            # name (an alias), a name that is neither declared nor defined nor a builtin
            if fn.rsplit('.', 1)[-1] in REF_METHODS + DEREF_METHODS:
                return True
            if '.' not in fn and (fn in tr.locals or (fn not in tr.known_callees and not hasattr(builtins, fn))):
                return True
    return False


class Tracer:
    def __init__(self, mod, func, stmts, has_wrap_fn):
        self.mod = mod
        self.prefix = mod['prefix']
        self.node_fns = mod['ext'] | mod['local']
        self.node_consts = mod['node_consts']
        self.declared_c = mod.get('declared_c', set())
        self.func = func
        self.stmts = stmts
        self.has_wrap_fn = has_wrap_fn
        self.params = [p[0] for p in func.params]
        self.cont_params = {p[0] for p in func.params if p[1] in CONT_PARAM_TYPES}
        self.role = role_of(func)
        self.known_callees = mod.get('known_callees', set())
        self.always_raise = mod.get('always_raise', set())
        self.returns_node = func.kind == 'cdef' and func.ret in ('DdRef', 'DdNode *')
        self.locals = set()
        for st in stmts:
            for n in ast.walk(st):
                if isinstance(n, ast.Name) and isinstance(n.ctx, ast.Store):
                    self.locals.add(n.id)
        # places where an exception raised INSIDE a callee (or by a subscript of a Python object) may
        # leave the function: numbered per label in source order, `callee#k`
        self.c_names = mod.get('c_names', set())
        self.noraise_local = mod.get('noraise_local', set())
        self.cptrs = c_pointer_names(func)
        self.typed = typed_locals(func, stmts)
        self.pending = []       # exceptional exits met while evaluating the current expression
        self.loop_depth = 0
        self.site = {}
        sites = []
        for st in stmts:
            for n in ast.walk(st):
                if isinstance(n, (ast.Call, ast.Subscript, ast.ListComp, ast.SetComp, ast.DictComp,
                                  ast.GeneratorExp)):
                    sites.append(n)
                elif isinstance(n, ast.Name) and isinstance(n.ctx, ast.Store) and n.id in self.typed:
                    sites.append(n)
        sites.sort(key=lambda n: (n.lineno, n.col_offset, -(n.end_lineno or 0), -(n.end_col_offset or 0)))
        seen = {}
        for n in sites:
            lab = _call_label(n, self.cname)
            k = seen.get(lab, 0)
            seen[lab] = k + 1
            self.site[id(n)] = f'{lab}#{k}'

    def cname(self, fn):
        if self.prefix and fn.startswith(self.prefix + '.'):
            return fn[len(self.prefix) + 1:]
        return fn

    # -- exceptions raised inside callees -------------------------------------------
    def may_raise(self, n):
        """The call / subscript `n` may raise a Python exception (by its NAME only: C functions and
        the module's `cdef` functions that provably cannot raise are exempt)."""
        if isinstance(n, ast.Call):
            fn = _dotted(n.func)
            if fn is None:
                return True
            cn = self.cname(fn)
            last = fn.rsplit('.', 1)[-1]
            if '.' not in cn and cn in self.c_names and (not self.prefix or fn != cn or cn in ('sizeof',)
                                                         or cn in self.mod.get('cimported', ())):
                return False
            if '.' not in fn and fn in self.locals:
                return True
            if fn in NORAISE_BUILTINS:
                return False
            if ('.' not in fn or fn == 'self.' + last) and last in self.noraise_local:
                return False
            if last in self.always_raise:
                return False        # the statement itself ends the path with `raise`
            return True
        if isinstance(n, ast.Subscript):
            root = n.value
            while isinstance(root, (ast.Attribute, ast.Subscript)):
                root = root.value
            if isinstance(root, ast.Name) and root.id in self.cptrs:
                return False        # C pointer arithmetic
            if isinstance(root, ast.UnaryOp):
                return False        # a cast
            return True
        if isinstance(n, ast.Name):
            return n.id in self.typed
        return any(self.may_raise(x) for x in ast.walk(n) if isinstance(x, (ast.Call, ast.Subscript)) and x is not n)

    def raise_point(self, n, p):
        """An exception raised inside the callee at `n` leaves the current path here: the arguments
        were evaluated, the call had no effect on the references of THIS function."""
        if p.done or not self.may_raise(n):
            return
        q = p.copy()
        q.events.append(('raiseIn', self.site.get(id(n), '<?>#0'), n.lineno))
        q.done = True
        self.pending.append(q)

    def first_raising(self, nodes):
        """First call / subscript (source order) among the statements `nodes` that may raise."""
        best = None
        for s_ in nodes:
            for n in ast.walk(s_):
                if (isinstance(n, (ast.Call, ast.Subscript)) or (
                        isinstance(n, ast.Name) and isinstance(n.ctx, ast.Store))) and self.may_raise(n):
                    key = (n.lineno, n.col_offset)
                    if best is None or key < best[0]:
                        best = (key, n)
        return None if best is None else best[1]

    def take_exits(self):
        out, self.pending = self.pending, []
        return out

    # -- driver -----------------------------------------------------------------
    def paths(self):
        start = PState()
        out = self.block(self.stmts, [start])
        res = []
        for p in out:
            if not p.done:
                p.events.append(('retHandle',))
                p.done = True
            res.append(p)
        return res

    def block(self, stmts, states):
        for st in stmts:
            nxt = []
            for p in states:
                if p.done or p.loopctl:
                    nxt.append(p)
                    continue
                try:
                    nxt.extend(self.stmt(st, p))
                except _PathEnd as e:
                    p.events.append(e.ev)
                    p.done = True
                    nxt.append(p)
                nxt.extend(self.take_exits())
            states = nxt
            if len(states) > MAX_PATHS:
                raise Uncovered('too many paths')
        return states

    # -- statements ---------------------------------------------------------------
    def stmt(self, st, p):
        if isinstance(st, (ast.Pass, ast.Global, ast.Nonlocal, ast.Import, ast.ImportFrom)):
            return [p]
        if isinstance(st, ast.Expr) and isinstance(st.value, ast.IfExp):
            # `f(x) if c else g(x)` as a statement is `if c: f(x)` / `else: g(x)`
            v = st.value
            new = ast.If(test=v.test, body=[ast.Expr(value=v.body)], orelse=[ast.Expr(value=v.orelse)])
            for n in (new, new.body[0], new.orelse[0]):
                ast.copy_location(n, st)
            return self.if_(new, p)
        if isinstance(st, ast.Expr) and isinstance(st.value, ast.BoolOp) and len(st.value.values) >= 2:
            # `a and f(x)` as a statement is `if a: f(x)`; `a or f(x)` is `if not a: f(x)`
            v = st.value
            rest = v.values[1] if len(v.values) == 2 else ast.BoolOp(op=v.op, values=v.values[1:])
            test = v.values[0] if isinstance(v.op, ast.And) else ast.UnaryOp(op=ast.Not(), operand=v.values[0])
            new = ast.If(test=test, body=[ast.Expr(value=rest)], orelse=[])
            for n in (new, new.body[0], test, rest):
                ast.copy_location(n, st)
            return self.if_(new, p)
        if isinstance(st, ast.Expr):
            self.ev(st.value, p)
            if isinstance(st.value, ast.Call):
                fn = _dotted(st.value.func) or ''
                if fn.rsplit('.', 1)[-1] in self.always_raise:
                    # `_utils._raise_runtimerror_about_ref_count(…)`: every path of the helper raises
                    p.events.append(('raise', 'RuntimeError'))
                    p.done = True
            return [p]
        if isinstance(st, ast.AnnAssign):
            if st.value is None:
                return [p]
            v = self.ev(st.value, p)
            self.bind(st.target, v, p, st)
            return [p]
        if isinstance(st, ast.Assign):
            if any(isinstance(t, ast.Attribute) and t.attr == REF_FIELD for t in st.targets):
                t = st.targets[0]
                k = self.int_const(st.value)
                if len(st.targets) != 1 or k is None or not isinstance(t.value, ast.Name):
                    raise Uncovered(f'line {st.lineno}: assignment to `{REF_FIELD}` that is not `h.{REF_FIELD} = k`')
                p.events.append(('fieldSet', t.value.id, k))
                return [p]
            v = self.ev(st.value, p)
            for t in st.targets:
                self.bind(t, v, p, st)
            return [p]
        if isinstance(st, ast.AugAssign):
            self.ev(st.value, p)
            t = st.target
            if isinstance(t, ast.Attribute) and t.attr == REF_FIELD:
                k = self.int_const(st.value)
                if k is None or not isinstance(st.op, (ast.Add, ast.Sub)) or not isinstance(t.value, ast.Name):
                    raise Uncovered(f'line {st.lineno}: update of `{REF_FIELD}` that is not `h.{REF_FIELD} += k` / `-= k`')
                p.events.append(('fieldAdd', t.value.id, k if isinstance(st.op, ast.Add) else -k))
                return [p]
            for n in ast.walk(t):
                if isinstance(n, ast.Name):
                    # `k += 1`: whatever was known about `k` (and the value bound to it) is gone
                    if isinstance(t, ast.Name):
                        self.drop(n.id, p)
                        p.env[n.id] = ('other',)
                    self.forget(n.id, p)
            return [p]
        if isinstance(st, ast.Return):
            if st.value is None:
                p.events.append(('retHandle',))
            else:
                v = self.ev(st.value, p)
                if v[0] == 'null':
                    p.events.append(('retNull',))
                elif v[0] == 'node':
                    p.events.append(('retNode', v[1]))
                elif self.returns_node:
                    x = self.as_node(v, st.value, p)
                    if x is None:
                        raise Uncovered(f'line {st.lineno}: returns an untracked value from a node-returning function')
                    p.events.append(('retNode', x))
                else:
                    # `return i, sy.sylvan_low(u.node), w`: a raw node inside a returned tuple / list /
                    # dict / set reaches Python without a handle
                    x = self.raw_node_in(v, p)
                    if x is not None:
                        p.events.append(('retNode', x))
                    else:
                        p.events.append(('retHandle',))
            p.done = True
            return [p]
        if isinstance(st, ast.Raise):
            name = 'Exception'
            if st.exc is not None:
                e = st.exc.func if isinstance(st.exc, ast.Call) else st.exc
                name = _dotted(e) or 'Exception'
                if isinstance(st.exc, ast.Call):
                    for a in st.exc.args:
                        if _has_relevant_call(a, self):
                            self.ev(a, p)
            p.events.append(('raise', name))
            p.done = True
            return [p]
        if isinstance(st, ast.Assert):
            self.ev(st.test, p)
            ft = self.field_test(st.test)
            q = p.copy()
            if ft is not None:
                p.events.append(('fieldTest',) + ft + (True,))
                q.events.append(('fieldTest',) + ft + (False,))
            q.events.append(('raise', 'AssertionError'))
            q.done = True
            return [p, q]
        if isinstance(st, ast.If):
            return self.if_(st, p)
        if isinstance(st, (ast.While, ast.For)):
            return self.loop(st, p)
        if isinstance(st, ast.Try):
            return self.try_(st, p)
        if isinstance(st, ast.With):
            for it in st.items:
                self.ev(it.context_expr, p)
                if it.optional_vars is not None:
                    self.bind_opaque(it.optional_vars, p)
            early = self.take_exits()
            return self.block(st.body, [p]) + early
        if isinstance(st, ast.Break):
            p.loopctl = 'break'
            return [p]
        if isinstance(st, ast.Continue):
            p.loopctl = 'continue'
            return [p]
        if isinstance(st, ast.Delete):
            for t in st.targets:
                for n in ast.walk(t):
                    if isinstance(n, ast.Name):
                        if isinstance(t, ast.Name):
                            self.drop(n.id, p)
                        self.forget(n.id, p)
            return [p]
        if isinstance(st, (ast.FunctionDef, ast.ClassDef)):
            if _has_relevant_call(st, self):
                raise Uncovered(f'line {st.lineno}: node events inside a nested definition')
            return [p]
        raise Uncovered(f'line {st.lineno}: statement {type(st).__name__}')

    def bind(self, target, v, p, st):
        if isinstance(target, ast.Name):
            val0 = getattr(st, 'value', None)
            d0 = _dotted(val0.func) if isinstance(val0, ast.Call) else None
            declared = (d0 is not None and d0.startswith('self.') and d0.count('.') == 1
                        and (self.func.cls, d0[5:]) in self.mod.get('returns_typed', ()))
            if target.id in self.typed and v[0] != 'handle' and not declared:
                self.raise_point(target, p)     # `g = dvars[var]` with `g: Function`: a type test
            self.drop(target.id, p)
            p.env[target.id] = v
            self.forget(target.id, p)
            # `f = self.var(x)`: the result of a call that the reader does not look into -- possibly a
            # handle that only this name keeps alive
            val = getattr(st, 'value', None)
            direct = target is getattr(st, 'target', None) or any(target is t for t in getattr(st, 'targets', ()))
            if direct and isinstance(val, ast.Call) and v[0] == 'other' and _dotted(val.func) is not None:
                p.origin[target.id] = _dotted(val.func)
            if v[0] == 'node':
                p.names[v[1]] = target.id
            return
        if isinstance(target, (ast.Tuple, ast.List)):
            if v[0] == 'tuple' and len(v[1]) == len(target.elts):
                for t, x in zip(target.elts, v[1]):
                    self.bind(t, x, p, st)
            else:
                for t in target.elts:
                    self.bind(t, ('other',), p, st)
            return
        if isinstance(target, (ast.Subscript, ast.Attribute)):
            # `d['a'] = 1`, `obj.flag = 1`: what a test said about the object may have changed
            root = target.value
            while isinstance(root, (ast.Subscript, ast.Attribute)):
                root = root.value
            if isinstance(root, ast.Name):
                self.forget(root.id, p)
            # evaluate the target's sub-expressions for events
            if isinstance(target, ast.Subscript):
                base = self.ev(target.value, p)
                self.ev(target.slice, p)
                self.raise_point(target, p)
                if self.is_cont(base) and not self.is_python_cont(base) and self.loop_depth > 0 \
                        and self.int_const(target.slice) is not None:
                    raise Uncovered(f'line {st.lineno}: a loop stores into the constant slot '
                                    f'`{_src(target)}` of an array (every iteration overwrites the same slot)')
                if self.is_cont(base):
                    # `vector[i] = g.node`, `table[t] = <stdint.uintptr_t>r`
                    x = self.node_of(v, p)
                    if x is not None:
                        c = self.as_cont(base, p)
                        p.events.append(('store', c, x))
                    return      # anything else (an integer, a string, NULL) is not a reference
            else:
                base = self.ev(target.value, p)
                bx = self.node_of(base, p) if base[0] in ('node', 'param') else None
                if bx is not None and target.attr in NODE_LINK_FIELDS:
                    # `u.next = Cudd_Not(u.next)`: a pointer field of the node that carries no reference
                    x = self.node_of(v, p)
                    if x is None:
                        raise Uncovered(f'line {st.lineno}: stores an untracked value into a node field')
                    p.events.append(('setField', bx, target.attr, x))
                    return
            if v[0] == 'node' and v[2] != 'param':
                raise Uncovered(f'line {st.lineno}: stores a node into a container or attribute '
                                'that is not followed')
            return
        raise Uncovered(f'line {st.lineno}: assignment target')

    def null_test(self, test, p):
        """(node id, truth value meaning NULL) when `test` asks whether a tracked node is NULL."""
        if isinstance(test, ast.Compare) and len(test.ops) == 1:
            l, op, r = test.left, test.ops[0], test.comparators[0]
            if isinstance(op, (ast.Is, ast.Eq, ast.IsNot, ast.NotEq)):
                is_nullc = lambda e: (isinstance(e, ast.Name) and e.id == 'NULL') or (
                    (_dotted(e) or '').endswith('sylvan_invalid'))
                if is_nullc(r) and isinstance(l, ast.Name):
                    v = p.env.get(l.id)
                    if v is None and l.id in self.params and self.param_is_node(l.id):
                        x = self.as_node(('param', l.id), l, p)
                        v = ('node', x, 'param')
                    if v is not None and v[0] == 'node':
                        return v[1], isinstance(op, (ast.Is, ast.Eq))
                    if v is not None and v[0] == 'null':
                        return None, isinstance(op, (ast.Is, ast.Eq))
        return None

    def if_(self, st, p):
        nt = self.null_test(st.test, p)
        known = None
        if nt is not None:
            x, pos = nt
            if x is None:
                known = pos           # the name is bound to NULL itself
            elif x in p.nullness:
                known = (p.nullness[x] == pos)
        else:
            self.ev(st.test, p)
        early = self.take_exits()
        dead = self.refcount_test(st.test, p) if nt is None else None
        ft = self.field_test(st.test)
        guard = None
        if self.role != 'plain' and isinstance(st.test, ast.Name) and st.test.id in self.params:
            guard = st.test.id          # `if _direct:` in `decref`
        pure = self.pure_test(st.test) if nt is None else None
        ckey = _src(st.test) if pure is not None else None
        if ckey is not None and ckey in p.conds:
            known = p.conds[ckey][1]
        out = []
        for branch, body in ((True, st.body), (False, st.orelse)):
            if known is not None and known != branch:
                continue
            q = p.copy() if known is None else p
            if ckey is not None:
                q.conds[ckey] = (pure, branch)
            if nt is not None and nt[0] is not None and known is None:
                isnull = (nt[1] == branch)
                q.nullness[nt[0]] = isnull
                if isnull:
                    q.events.append(('isNull', nt[0]))
            if guard is not None:
                q.events.append(('guard', guard, branch))
            if ft is not None:
                q.events.append(('fieldTest',) + ft + (branch,))
            if dead is not None and branch:
                q.events.append(('refNonPos', dead))
            out.extend(self.block(body, [q]))
        return out + early

    @staticmethod
    def int_const(e):
        if isinstance(e, ast.Constant) and isinstance(e.value, int) and not isinstance(e.value, bool):
            return e.value
        if (isinstance(e, ast.UnaryOp) and isinstance(e.op, ast.USub) and isinstance(e.operand, ast.Constant)
                and isinstance(e.operand.value, int)):
            return -e.operand.value
        return None

    def field_test(self, test):
        """(handle, relation, k) when `test` is `h._ref <rel> k`; a test that mentions the counter in any
        other way is not understood."""
        mentions = any(isinstance(n, ast.Attribute) and n.attr == REF_FIELD for n in ast.walk(test))
        if not mentions:
            return None
        rels = {ast.Eq: '==', ast.NotEq: '!=', ast.Lt: '<', ast.LtE: '<=', ast.Gt: '>', ast.GtE: '>='}
        if (isinstance(test, ast.Compare) and len(test.ops) == 1 and type(test.ops[0]) in rels
                and isinstance(test.left, ast.Attribute) and test.left.attr == REF_FIELD
                and isinstance(test.left.value, ast.Name)
                and self.int_const(test.comparators[0]) is not None):
            return (test.left.value.id, rels[type(test.ops[0])], self.int_const(test.comparators[0]))
        raise Uncovered(f'line {test.lineno}: a test on `{REF_FIELD}` that is not `h.{REF_FIELD} <rel> k`')

    def refcount_test(self, test, p):
        """Node id when `test` is `x.ref <= 0` for a node `x` (or a handle `g` whose `g.node` is
        followed): on the branch where it holds, the path assumes that nobody refers to the node."""
        if not (isinstance(test, ast.Compare) and len(test.ops) == 1
                and isinstance(test.ops[0], ast.LtE)
                and isinstance(test.comparators[0], ast.Constant) and test.comparators[0].value == 0
                and isinstance(test.left, ast.Attribute) and test.left.attr == 'ref'
                and isinstance(test.left.value, ast.Name)):
            return None
        name = test.left.value.id
        v = p.env.get(name)
        if v is not None and v[0] == 'node':
            return v[1]
        if v is None and name in self.params and self.param_is_node(name):
            return self.as_node(('param', name), None, p)
        key = ('param', name + '.node')
        if key in p.env:
            return p.env[key][1]
        return None

    # -- "for each element of a container: dereference it" ------------------------------
    def deref_call(self, stmt):
        """(C function, argument) when `stmt` is exactly one call of a dereference function."""
        if not (isinstance(stmt, ast.Expr) and isinstance(stmt.value, ast.Call)):
            return None
        c = stmt.value
        fn = _dotted(c.func)
        if fn is None or c.keywords or not c.args:
            return None
        cn = self.cname(fn)
        if cn not in DEREF_FNS:
            return None
        if not all(isinstance(a, ast.Name) for a in c.args[:-1]):
            return None
        return cn, c.args[-1]

    @staticmethod
    def uncast(e):
        while isinstance(e, ast.UnaryOp) and isinstance(e.op, ast.UAdd):
            e = e.operand
        return e

    def release_loop(self, st, p):
        """Recognise the three shapes of a loop that gives back the reference of EVERY element of
        a container, each exactly once; returns the event or None.

        A. `for i in range(n): Deref(mgr, c[i])`
        B. `for nd in c.values(): Deref(mgr, <DdRef><stdint.uintptr_t>nd)`
        C. `for i in range(n): b = c.bucket[i]` / `while b is not NULL: Deref(mgr, b.value); b = b.next`
           (the chained buckets of CUDD's `DdHashTable`)
        """
        if not isinstance(st, ast.For) or st.orelse or not isinstance(st.target, ast.Name):
            return None
        i = st.target.id
        it = st.iter
        is_range = (isinstance(it, ast.Call) and _dotted(it.func) == 'range' and len(it.args) == 1
                    and not it.keywords)
        if is_range and len(st.body) == 1:
            inner = st.body[0]
            guard = None
            if (isinstance(inner, ast.If) and not inner.orelse and len(inner.body) == 1
                    and isinstance(inner.test, ast.Compare) and len(inner.test.ops) == 1
                    and isinstance(inner.test.ops[0], ast.IsNot)
                    and isinstance(inner.test.comparators[0], ast.Name)
                    and inner.test.comparators[0].id == 'NULL'):
                # shape A': `for i in range(n): if c[i] is not NULL: Deref(mgr, c[i])`
                guard = inner.test.left
                inner = inner.body[0]
            dc = self.deref_call(inner)                                        # shape A
            if dc is not None:
                a = self.uncast(dc[1])
                if (isinstance(a, ast.Subscript) and isinstance(a.value, ast.Name)
                        and isinstance(a.slice, ast.Name) and a.slice.id == i
                        and (guard is None or ast.dump(guard) == ast.dump(a))):
                    v = self.ev(a.value, p)
                    if self.is_cont(v) and self.holds_nodes(v):
                        return ('derefAll' if guard is None else 'derefNonNull',
                                self.as_cont(v, p), dc[0], _src(it.args[0]))
            # shape N: `for i in range(n): c[i] = NULL` -- every slot of the array is initialised
            s0 = st.body[0]
            if (isinstance(s0, ast.Assign) and len(s0.targets) == 1 and isinstance(s0.targets[0], ast.Subscript)
                    and isinstance(s0.targets[0].value, ast.Name) and isinstance(s0.targets[0].slice, ast.Name)
                    and s0.targets[0].slice.id == i and isinstance(s0.value, ast.Name) and s0.value.id == 'NULL'):
                v = self.ev(s0.targets[0].value, p)
                if self.is_cont(v) and self.holds_nodes(v) and not self.is_python_cont(v):
                    return ('nullInit', self.as_cont(v, p), _src(it.args[0]))
            return None
        if (isinstance(it, ast.Call) and isinstance(it.func, ast.Attribute) and it.func.attr == 'values'
                and isinstance(it.func.value, ast.Name) and not it.args and len(st.body) == 1):
            dc = self.deref_call(st.body[0])                                   # shape B
            if dc is not None:
                a = self.uncast(dc[1])
                if isinstance(a, ast.Name) and a.id == i:
                    v = self.ev(it.func.value, p)
                    if self.is_cont(v) and self.holds_nodes(v):
                        return ('derefAll', self.as_cont(v, p), dc[0], 'values')
            return None
        if is_range and len(st.body) == 2:                                     # shape C
            a0, w = st.body
            if not (isinstance(a0, ast.Assign) and len(a0.targets) == 1
                    and isinstance(a0.targets[0], ast.Name) and isinstance(w, ast.While)
                    and not w.orelse and len(w.body) == 2):
                return None
            b = a0.targets[0].id
            src = a0.value
            ok = (isinstance(src, ast.Subscript) and isinstance(src.slice, ast.Name) and src.slice.id == i
                  and isinstance(src.value, ast.Attribute) and src.value.attr == 'bucket'
                  and isinstance(src.value.value, ast.Name))
            t = w.test
            ok = ok and (isinstance(t, ast.Compare) and len(t.ops) == 1 and isinstance(t.ops[0], ast.IsNot)
                         and isinstance(t.left, ast.Name) and t.left.id == b
                         and isinstance(t.comparators[0], ast.Name) and t.comparators[0].id == 'NULL')
            if not ok:
                return None
            dc = self.deref_call(w.body[0])
            adv = w.body[1]
            if dc is None:
                return None
            a = self.uncast(dc[1])
            ok = (isinstance(a, ast.Attribute) and a.attr == 'value' and isinstance(a.value, ast.Name)
                  and a.value.id == b
                  and isinstance(adv, ast.Assign) and len(adv.targets) == 1
                  and isinstance(adv.targets[0], ast.Name) and adv.targets[0].id == b
                  and isinstance(adv.value, ast.Attribute) and adv.value.attr == 'next'
                  and isinstance(adv.value.value, ast.Name) and adv.value.value.id == b)
            if not ok:
                return None
            v = self.ev(src.value.value, p)
            if self.is_cont(v) and self.holds_nodes(v):
                return ('derefAll', self.as_cont(v, p), dc[0], _src(it.args[0]))
        return None

    def loop(self, st, p):
        if st.orelse:
            raise Uncovered(f'line {st.lineno}: loop with else')
        rel = self.release_loop(st, p)
        if rel is not None:
            p.events.append(rel)
            for s in st.body:
                for n in ast.walk(s):
                    if isinstance(n, ast.Name) and isinstance(n.ctx, ast.Store):
                        p.env[n.id] = ('other',)
            self.bind_opaque(st.target, p)
            return [p]
        relevant = any(_has_relevant_call(s, self) for s in st.body) or self.mentions_nodes(st, p)
        if isinstance(st, ast.For):
            self.ev(st.iter, p)
        else:
            self.ev(st.test, p)
        early = self.take_exits()
        if not relevant:
            # the body cannot touch references: skip it (names it binds become opaque) -- but
            # something in it may raise while the function holds what it held at the loop's entry
            n = self.first_raising(st.body)
            if n is not None:
                self.raise_point(n, p)
                early += self.take_exits()
            for s in st.body:
                for n in ast.walk(s):
                    if isinstance(n, ast.Name) and isinstance(n.ctx, ast.Store):
                        p.env[n.id] = ('other',)
                        self.forget(n.id, p)
                    if isinstance(n, (ast.Return, ast.Raise)):
                        relevant = True
            if isinstance(st, ast.For):
                self.bind_opaque(st.target, p)
            if not relevant:
                return [p] + early
        out = list(early)
        # C arrays of this function that the body stores into: which slots get filled is not
        # followed, only whether the loop runs until its iterator is exhausted
        fills = []
        for s in st.body:
            for n in ast.walk(s):
                if isinstance(n, ast.Subscript) and isinstance(n.ctx, ast.Store) and isinstance(n.value, ast.Name):
                    v = p.env.get(n.value.id)
                    if v is not None and v[0] == 'cont' and v[1] not in fills:
                        fills.append(v[1])
        for c in fills:
            p.events.append(('fillBegin', c))
        states = [p]
        for _ in range(3):     # 0, 1, 2 iterations
            exits = []
            nxt = []
            for q in states:
                e = q.copy()
                for c in fills:
                    e.events.append(('fillEnd', c))
                exits.append(e)
            out.extend(exits)
            if _ == 2:
                break
            for q in states:
                q.events.append(('iterBegin',))
                if isinstance(st, ast.For):
                    self.bind_opaque(st.target, q)
                self.loop_depth += 1
                try:
                    res = self.block(st.body, [q])
                finally:
                    self.loop_depth -= 1
                for r in res:
                    if r.done:
                        out.append(r)
                    elif r.loopctl == 'break':
                        r.loopctl = None
                        r.events.append(('iterBreak',))
                        out.append(r)
                    else:
                        r.loopctl = None
                        r.events.append(('iterEnd',))
                        nxt.append(r)
            states = nxt
            if len(out) + len(states) > MAX_PATHS:
                raise Uncovered('too many paths')
        return out

    def drop(self, name, p):
        """The local `name` is rebound or deleted: a handle it was bound to (the result of a call) is
        gone, and with it the protection of the nodes reached through it (`name.node`)."""
        via = p.origin.pop(name, None)
        if via is None:
            return
        key = ('param', name + '.node')
        if key in p.env and p.env[key][0] == 'node':
            p.events.append(('handleDrop', p.env[key][1], via))

    def bind_opaque(self, target, p):
        for n in ast.walk(target):
            if isinstance(n, ast.Name):
                if n.id in self.typed and isinstance(n.ctx, ast.Store):
                    self.raise_point(n, p)      # `for i, f in enumerate(functions)` with `f: Function`
                self.drop(n.id, p)
                p.env[n.id] = ('other',)
                self.forget(n.id, p)

    def forget(self, name, p):
        for k in [k for k, (names, _v) in p.conds.items() if name in names]:
            del p.conds[k]
        # `g = …` makes `g.node` a different node from now on
        for k in [k for k in p.env if isinstance(k, tuple) and len(k) == 2 and k[0] == 'param'
                  and isinstance(k[1], str) and k[1].startswith(name + '.')]:
            del p.env[k]

    @staticmethod
    def pure_test(test):
        """Names of a test built only from local names, constants and comparisons; else None."""
        names = set()
        for n in ast.walk(test):
            if isinstance(n, ast.Name):
                names.add(n.id)
            elif not isinstance(n, (ast.Compare, ast.BoolOp, ast.UnaryOp, ast.BinOp, ast.Constant,
                                    ast.Tuple, ast.expr_context, ast.cmpop, ast.boolop,
                                    ast.unaryop, ast.operator)):
                return None
        return names

    def mentions_nodes(self, st, p):
        """The loop body stores into, or reads from, a container of nodes that is followed."""
        for s in st.body:
            for n in ast.walk(s):
                if isinstance(n, ast.Subscript) and isinstance(n.value, ast.Name):
                    v = p.env.get(n.value.id)
                    if v is None and n.value.id in self.cont_params:
                        v = ('contparam', n.value.id)
                    if v is not None and self.is_cont(v) and self.holds_nodes(v):
                        return True
        return False

    def try_(self, st, p):
        if st.orelse:
            raise Uncovered(f'line {st.lineno}: try with else')
        entry = p.copy()
        body = self.block(st.body, [p])
        outs = list(body)
        if st.handlers:
            for s in st.body:
                for n in ast.walk(s):
                    if isinstance(n, ast.Call):
                        c = self.cname(_dotted(n.func) or '')
                        if c in REF_FNS or c in DEREF_FNS:
                            raise Uncovered(f'line {st.lineno}: try/except around reference events')
            # the exceptional exits of the body (an explicit `raise`, an exception raised inside a
            # callee) reach the handlers; a handler that names an exception type may or may not match
            exits = [q for q in body if q.done and q.events and q.events[-1][0] in ('raise', 'raiseIn')]
            catch_all = any(h.type is None or _dotted(h.type) in ('Exception', 'BaseException')
                            for h in st.handlers)
            if exits:
                if catch_all:
                    outs = [q for q in body if not any(q is e for e in exits)]
                for e in exits:
                    for h in st.handlers:
                        q = e.copy()
                        q.events.pop()
                        q.done = False
                        if h.name:
                            q.env[h.name] = ('other',)
                        outs.extend(self.block(h.body, [q]))
                        if h.type is None or _dotted(h.type) in ('Exception', 'BaseException'):
                            break
            else:
                for h in st.handlers:
                    q = entry.copy()
                    outs.extend(self.block(h.body, [q]))
        elif st.finalbody and any(isinstance(n, ast.Call) for n in ast.walk(st.body[0])):
            # `try: r = f(…) finally: …` without handlers: the first statement of the body raises
            # (a `cdef … except NULL` function of the module, a Python call) before it had any
            # effect; the `finally` block runs and the exception propagates
            q = entry.copy()
            q.events.append(('raise', 'propagated'))
            q.done = True
            outs.append(q)
        if st.finalbody:
            fin = []
            for q in outs:
                ended = q.done
                ctl = q.loopctl
                tail = None
                if ended:
                    tail = q.events.pop()
                    q.done = False
                q.loopctl = None
                for r in self.block(st.finalbody, [q]):
                    if not r.done and ended:
                        r.events.append(tail)
                        r.done = True
                    if not r.done:
                        r.loopctl = ctl
                    fin.append(r)
            outs = fin
        return outs

    # -- expressions -----------------------------------------------------------------
    def raw_node_in(self, v, p):
        """First raw node among the elements of a (nested) container display."""
        if v[0] != 'tuple':
            return None
        for x in v[1]:
            if x[0] == 'tuple':
                r = self.raw_node_in(x, p)
                if r is not None:
                    return r
            elif x[0] == 'node' or (x[0] == 'param' and (x[1].endswith('.node') or self.param_is_node(x[1]))):
                return self.node_of(x, p)
        return None

    def as_node(self, v, e, p):
        """Node id of a value in node position (lazily for parameters)."""
        if v[0] == 'node':
            return v[1]
        if v[0] == 'param':
            key = ('param', v[1])
            if key in p.env:
                return p.env[key][1]
            x = p.new(v[1])
            p.events.append(('param', x, v[1]))
            if self.role != 'plain' and v[1].endswith('.node') and '.' not in v[1][:-5]:
                p.events.append(('handleNode', x, v[1][:-5]))
            p.env[key] = ('node', x, 'param')
            return x
        return None

    def node_of(self, v, p):
        """Node id of a value that denotes a node (a tracked node, a node parameter, `h.node`)."""
        if v[0] == 'node':
            return v[1]
        if v[0] == 'param' and (v[1].endswith('.node') or self.param_is_node(v[1])):
            return self.as_node(v, None, p)
        return None

    @staticmethod
    def is_cont(v):
        return v[0] in ('cont', 'contparam', 'pycont')

    def as_cont(self, v, p):
        """Container id of a container value (parameters and Python containers lazily)."""
        if v[0] == 'cont':
            return v[1]
        if v[0] == 'contparam':
            key = ('contparam', v[1])
            if key not in p.env:
                c = p.new(v[1])
                p.events.append(('cparam', c, v[1]))
                p.env[key] = ('cont', c, 'nodes')
            return p.env[key][1]
        if v[0] == 'pycont':
            if v not in p.env:
                c = p.new(v[1])
                p.events.append(('cnew', c, v[1]))
                p.env[v] = ('cont', c, 'nodes')
            return p.env[v][1]
        return None

    def is_python_cont(self, v):
        if v[0] == 'pycont':
            return True
        if v[0] == 'contparam':
            return any(n == v[1] and t == 'dict' for n, t, _d in self.func.params)
        return False

    def holds_nodes(self, v):
        return v[0] in ('contparam', 'pycont') or (v[0] == 'cont' and v[2] == 'nodes')

    def ev(self, e, p, cast=False):
        """`cast`: the expression is the operand of a `<DdRef>` cast."""
        if e is None:
            return ('other',)
        if isinstance(e, ast.Constant):
            return ('other',)
        if isinstance(e, ast.Name):
            if e.id == 'NULL':
                return ('null',)
            if e.id in p.env:
                return p.env[e.id]
            if e.id in self.cont_params:
                return ('contparam', e.id)
            if e.id in self.params:
                return ('param', e.id)
            if e.id in self.locals:
                raise _PathEnd(('raise', 'UnboundLocalError'))
            return ('other',)
        if isinstance(e, ast.Attribute):
            d = _dotted(e)
            if d is not None and self.cname(d) in self.node_consts:
                c = self.cname(d)
                if c.endswith('invalid'):
                    return ('null',)
                x = p.new(c)
                p.events.append(('produce', x, c, ()))
                return ('node', x, 'call')
            if e.attr == 'node':
                b = self.ev(e.value, p)
                if b[0] == 'handle' and b[1] is not None:
                    return ('node', b[1], 'handle')
                text = _src(e)
                return ('param', text)
            b = self.ev(e.value, p)
            if e.attr in NODE_LINK_FIELDS and b[0] in ('node', 'param'):
                bx = self.node_of(b, p)
                if bx is not None:
                    # `u.next`: a node pointer read from a field of `u`, no reference involved
                    x = p.new('.' + e.attr)
                    p.events.append(('produce', x, 'DdNode.' + e.attr, (bx,)))
                    return ('node', x, 'call')
            return ('other',)
        if isinstance(e, ast.Call):
            return self.call(e, p)
        if isinstance(e, ast.UnaryOp) and isinstance(e.op, ast.UAdd):
            v = self.ev(e.operand, p, cast=True)
            a = self.as_node(v, e.operand, p) if v[0] in ('node', 'param') else None
            x = p.new('<DdRef>')
            p.events.append(('produce', x, '<DdRef>', (a,) if a is not None else ()))
            return ('node', x, 'call')
        if isinstance(e, ast.UnaryOp) and isinstance(e.op, ast.USub):
            if isinstance(e.operand, ast.Call):
                return self.call(e.operand, p, nodes_array=True)    # `<DdRef *> PyMem_Malloc(…)`
            self.ev(e.operand, p)
            return ('other',)
        if isinstance(e, ast.Subscript):
            b = self.ev(e.value, p)
            self.ev(e.slice, p)
            self.raise_point(e, p)
            if self.is_cont(b) and self.holds_nodes(b) and (cast or not self.is_python_cont(b)):
                # `vector[index]`, `<DdRef><stdint.uintptr_t>table[t]`: an element the container refers
                # to (a Python container may hold anything: only what is cast back to a node counts)
                c = self.as_cont(b, p)
                x = p.new(_src(e))
                p.events.append(('load', x, c))
                return ('node', x, 'load')
            return ('other',)
        if isinstance(e, ast.NamedExpr):
            v = self.ev(e.value, p)
            self.bind(e.target, v, p, e)        # `(k := k + 1)` rebinds `k`
            return v
        if isinstance(e, ast.Dict) and not e.keys:
            p.ntok += 1
            return ('pycont', 'dict', e.lineno, p.ntok)
        if isinstance(e, (ast.Dict, ast.Set)):
            elts = [x for x in (list(e.keys) + list(e.values) if isinstance(e, ast.Dict) else e.elts)
                    if x is not None]
            return ('tuple', [self.ev(x, p) for x in elts])
        if isinstance(e, (ast.Tuple, ast.List)):
            return ('tuple', [self.ev(x, p) for x in e.elts])
        if isinstance(e, (ast.Lambda, ast.ListComp, ast.SetComp, ast.DictComp, ast.GeneratorExp)):
            if _has_relevant_call(e, self):
                raise Uncovered(f'line {e.lineno}: node events inside a nested scope')
            if not isinstance(e, ast.Lambda):
                self.raise_point(e, p)      # `{k: self.var(v) for k, v in d.items()}` runs here
            return ('other',)
        if isinstance(e, ast.IfExp):
            # only one arm is evaluated: as a statement it is rewritten into `if` (`stmt`); anywhere
            # else an arm with node events is not followed
            if _has_relevant_call(e.body, self) or _has_relevant_call(e.orelse, self):
                raise Uncovered(f'line {e.lineno}: node events inside a conditional expression')
            self.ev(e.test, p)
            self.ev(e.body, p)
            self.ev(e.orelse, p)
            return ('other',)
        if isinstance(e, ast.BoolOp):
            # `c and Cudd_Ref(t)`: the operands after the first are evaluated conditionally
            if any(_has_relevant_call(x, self) for x in e.values[1:]):
                raise Uncovered(f'line {e.lineno}: node events under `and` / `or`')
            for x in e.values:
                self.ev(x, p)
            return ('other',)
        if isinstance(e, ast.JoinedStr):
            return ('other',)
        for ch in ast.iter_child_nodes(e):
            if isinstance(ch, ast.expr):
                self.ev(ch, p)
        return ('other',)

    def call(self, c, p, nodes_array=False):
        fn = _dotted(c.func)
        if fn is None and isinstance(c.func, ast.Attribute):
            # `set(cube).issubset(…)`, `f().incref(u)`: a method of a computed object; the method name
            # is what matters below
            fn = '?.' + c.func.attr
        if fn is None:
            # the callee is computed (`getattr(self, 'incref')(f)`, `[Cudd_Ref][0](r)`)
            self.ev(c.func, p)
            vals = [self.ev(a, p) for a in c.args] + [self.ev(k.value, p) for k in c.keywords]
            if any(self.is_ref_carrier(v) for v in vals):
                raise Uncovered(f'line {c.lineno}: a node or a handle is passed to a computed callee '
                                f'`{_src(c.func)}`')
            self.raise_point(c, p)
            return ('other',)
        cn = self.cname(fn)
        last = fn.rsplit('.', 1)[-1]
        if '.' not in fn and (fn in self.locals or fn in p.env):
            # `keep = Cudd_Ref; keep(r)`: the name is a variable of this function, what it calls is
            # not known to the reader
            vals = [self.ev(a, p) for a in c.args] + [self.ev(k.value, p) for k in c.keywords]
            if any(self.is_ref_carrier(v) for v in vals):
                raise Uncovered(f'line {c.lineno}: a node or a handle is passed to `{fn}`, '
                                'a local name (an alias of some function)')
            self.raise_point(c, p)
            return ('other',)
        # arrays and Python containers
        if cn in ALLOC_FNS and not nodes_array:
            # an array of something else (`int *`, `char **`): not followed
            for a in c.args:
                self.ev(a, p)
            return ('other', 'carray')
        if cn in ALLOC_FNS:
            size = c.args[0] if c.args else None
            if (isinstance(size, ast.BinOp) and isinstance(size.op, ast.Mult)
                    and isinstance(size.right, ast.Call) and _dotted(size.right.func) == 'sizeof'):
                size = size.left
            for a in c.args:
                self.ev(a, p)
            x = p.new(cn)
            p.events.append(('alloc', x, cn, _src(size) if size is not None else ''))
            return ('cont', x, 'nodes')
        if cn in FREE_FNS and len(c.args) == 1:
            v = self.ev(c.args[0], p)
            if self.is_cont(v):
                p.events.append(('free', self.as_cont(v, p), cn))
            return ('other',)
        if fn in PYCONT_CALLS and not c.args and not c.keywords:
            p.ntok += 1
            return ('pycont', fn, c.lineno, p.ntok)
        # reference functions
        if cn in REF_FNS or cn in DEREF_FNS or (
                '.' in fn and last in REF_METHODS + DEREF_METHODS and c.args):
            for a in c.args:
                if isinstance(a, ast.UnaryOp) and isinstance(a.op, ast.UAdd):
                    raise Uncovered(f'line {c.lineno}: {cn} applied to a cast expression '
                                    '(a reference kept in a container)')
            vals = [self.ev(a, p) for a in c.args]
            for k in c.keywords:
                self.ev(k.value, p)
            kind = 'ref' if (cn in REF_FNS or last in REF_METHODS) else 'deref'
            if not (cn in REF_FNS or cn in DEREF_FNS):
                # the wrappers' own `incref(u)` / `decref(u)` / `_incref(u.node)` / `_decref(u.node)`:
                # the first argument is the handle (its node) or the node
                v, a = vals[0], c.args[0]
                if v[0] == 'handle' and v[1] is not None:
                    x = v[1]
                elif v[0] == 'node' or (v[0] == 'param' and (v[1].endswith('.node') or v[1] in self.params)):
                    x = self.as_node(v, a, p)
                else:
                    raise Uncovered(f'line {c.lineno}: {last} applied to a value that is not followed '
                                    f'(`{_src(a)}`)')
                self.raise_point(c, p)
                p.events.append((kind, x, last))
                return ('other',)
            nodes = [(v, a) for v, a in zip(vals, c.args) if v[0] in ('node', 'param')]
            if not nodes:
                raise Uncovered(f'line {c.lineno}: {cn} applied to an untracked expression')
            v, a = nodes[-1]
            if v[0] == 'param' and not (v[1].endswith('.node') or v[1] in self.params):
                raise Uncovered(f'line {c.lineno}: {cn} applied to an untracked expression')
            x = self.as_node(v, a, p)
            p.events.append((kind, x, cn if (cn in REF_FNS or cn in DEREF_FNS) else last))
            return ('other',)
        if cn not in REF_FNS + DEREF_FNS and cn in self.declared_c and 'ref' in cn.lower() \
                and cn not in self.node_fns:
            raise Uncovered(f'line {c.lineno}: unclassified reference function {cn}')
        # wrap
        if (self.has_wrap_fn and fn == 'wrap' and len(c.args) == 2) or (
                not self.has_wrap_fn and fn == 'Function' and len(c.args) == 1):
            self.ev(c.args[0], p) if len(c.args) == 2 else None
            v = self.ev(c.args[-1], p)
            if v[0] == 'null':
                self.raise_point(c, p)
                return ('handle', None)
            x = self.as_node(v, c.args[-1], p)
            if x is None:
                raise Uncovered(f'line {c.lineno}: wrap of an untracked value')
            self.raise_point(c, p)
            p.events.append(('wrap', x))
            return ('handle', x)
        if last == 'init' and '.' in fn and len(c.args) == 2 and self.func.name == 'wrap':
            v = self.ev(c.args[0], p)
            x = self.as_node(v, c.args[0], p)
            if x is None:
                raise Uncovered(f'line {c.lineno}: init of an untracked value')
            self.raise_point(c, p)
            p.events.append(('initCall', x))
            return ('other',)
        # producers
        if cn in self.node_fns and (not self.prefix or fn != cn or cn in self.mod['local']):
            vals = [self.ev(a, p) for a in c.args]
            args = []
            for v, a in zip(vals, c.args):
                if v[0] in ('node',):
                    args.append(v[1])
                elif v[0] == 'param' and (v[1].endswith('.node') or self.param_is_node(v[1])):
                    args.append(self.as_node(v, a, p))
                elif self.is_cont(v) and self.holds_nodes(v):
                    p.events.append(('passC', self.as_cont(v, p), cn))
            self.raise_point(c, p)
            x = p.new(cn)
            p.events.append(('produce', x, cn, tuple(args)))
            return ('node', x, 'call')
        # anything else: evaluate the arguments for nested events
        if isinstance(c.func, ast.Attribute):
            self.ev(c.func.value, p)
            if isinstance(c.func.value, ast.Name):
                self.forget(c.func.value.id, p)     # `d.clear()` may change what `k in d` said
        raw = False
        hand = False
        for a in list(c.args) + [k.value for k in c.keywords]:
            v = self.ev(a, p)
            if v[0] == 'handle' and v[1] is not None:
                hand = True
            if v[0] == 'cont' and v[2] == 'nodes':
                p.events.append(('passC', v[1], cn))
            elif v[0] == 'pycont' and v in p.env:
                p.events.append(('passC', p.env[v][1], cn))
            if v[0] == 'node' or (v[0] == 'param' and (v[1].endswith('.node') or self.param_is_node(v[1]))):
                raw = True
            if isinstance(a, ast.Name):
                self.forget(a.id, p)                # a mutable argument may be changed by the callee
        if raw and last not in self.known_callees:
            # a raw node goes to something that is neither declared in an `extern` block / `.pxd` nor
            # defined in this module: it may take or give back a reference
            raise Uncovered(f'line {c.lineno}: a node is passed to `{fn}`, which is neither declared nor '
                            'defined in the module')
        if hand and last not in self.known_callees:
            # `_bump(self, f)` with `_bump = BDD.incref` at module level, `self._keep(f)`, a module-level
            # lambda: a handle made in this function goes to something the reader cannot look into
            raise Uncovered(f'line {c.lineno}: a handle made in this function is passed to `{fn}`, which is '
                            'neither declared nor defined in the module')
        self.raise_point(c, p)
        return ('other',)

    def is_ref_carrier(self, v):
        """The value is a node, a handle, or a parameter declared as one of them."""
        if v[0] in ('node', 'handle'):
            return True
        if v[0] == 'param':
            if v[1].endswith('.node') or self.param_is_node(v[1]):
                return True
            return any(n == v[1] and t in ('Function', '') for n, t, _d in self.func.params)
        return False

    def param_is_node(self, name):
        for n, t, _d in self.func.params:
            if n == name:
                return t in ('DdRef', 'DdNode *', 'sy.BDD', '_c_int') and name not in ('index', 'level')
        return False


def role_of(f):
    if f.qual == 'wrap':
        return 'wrapFn'
    if f.qual in ('Function.init', 'Function.__cinit__'):
        return 'handleInit'
    if f.qual == 'Function.__dealloc__':
        return 'handleDealloc'
    if f.name in REF_METHODS:
        return 'refInc'
    if f.name in DEREF_METHODS:
        return 'refDec'
    return 'plain'


RELEVANT = ('produce', 'ref', 'deref', 'wrap', 'initCall', 'retNode', 'store', 'load', 'derefAll',
            'derefNonNull', 'setField')


def declared_c_functions(lls):
    """Names declared `void f(` inside `cdef extern` blocks / a `.pxd` (candidates for
    reference-count functions the reader does not know)."""
    out = set()
    for ll in lls:
        if ll.indent == 0:
            continue
        m = re.match(r'^void\s+([A-Za-z_]\w*)\s*\(', ll.text)
        if m:
            out.add(m.group(1))
    return out


def extern_function_names(lls):
    """Every name declared with a parameter list inside a `cdef extern from …:` block."""
    out = set()
    ext = None
    for ll in lls:
        if ext is not None and ll.indent <= ext:
            ext = None
        if re.match(r'^cdef\s+extern\s+from\b', ll.text):
            ext = ll.indent
            continue
        if ext is not None:
            m = re.search(r'\b([A-Za-z_]\w*)\s*\(', ll.mask)
            if m:
                out.add(m.group(1))
    return out


def always_raising_helpers(repo):
    """Functions of `dd/_utils.py` named `_raise…` whose body ends in an unconditional `raise`."""
    out = set()
    try:
        tree = ast.parse(open(os.path.join(repo, 'dd', '_utils.py')).read())
    except (OSError, SyntaxError):
        return out
    for n in tree.body:
        if isinstance(n, ast.FunctionDef) and n.name.startswith('_raise') and n.body \
                and isinstance(n.body[-1], ast.Raise):
            out.add(n.name)
    return out


# Python builtins that may be given a raw node (an integer in `buddy.pyx`) and keep nothing
BUILTIN_CALLEES = {'int', 'str', 'repr', 'bool', 'print', 'isinstance', 'hash', 'id', 'format', 'abs', 'sizeof'}


def known_callees(repo, mod):
    _t, _f, _c, _p, decl = next(b for b in BACKENDS if b[0] == mod['tag'])
    names = extern_function_names(mod['lls']) | {f.name for f in mod['funcs']} | BUILTIN_CALLEES
    if decl:
        names |= extern_function_names(logical_lines(open(os.path.join(repo, 'dd', decl)).read()))
    return names



# ---------------------------------------------------------------------------
# which calls may raise a Python exception
# ---------------------------------------------------------------------------

# modules of the C standard library / of CPython's C API whose cimported names are plain C
# functions (they report failure through their return value, never through a Python exception)
C_CIMPORT_MODULES = ('libc.', 'cpython.mem')
# builtins that do not raise on what these files give them (a C integer, a set / dict / list that
# is iterated anyway; iteration itself is not a raise point either)
NORAISE_BUILTINS = ('isinstance', 'range', 'enumerate')
# extension types of the wrappers: binding a local that is DECLARED with one of them (`g: Function`,
# `cdef Function f`) to a value that is not known to be such an object is a run-time type test,
# which raises `TypeError`
TYPETEST_TYPES = ('Function',)


def cimported_c_names(lls):
    """Names brought in by `from libc.stdio cimport fopen, fclose` / `from cpython.mem cimport
    PyMem_Malloc, PyMem_Free`."""
    out = set()
    for ll in lls:
        m = re.match(r'^from\s+([\w.]+)\s+cimport\s+(.*)$', ll.text)
        if not m:
            continue
        modname = m.group(1)
        if not (modname + '.').startswith(C_CIMPORT_MODULES):
            continue
        for part in m.group(2).strip('()').split(','):
            part = part.strip()
            if not part:
                continue
            mm = re.match(r'^(\w+)(?:\s+as\s+(\w+))?$', part)
            if mm:
                out.add(mm.group(2) or mm.group(1))
    return out


def _call_label(node, cname):
    """Label of a call site / a subscript, used to number the places where an exception may leave."""
    if isinstance(node, ast.Call):
        fn = _dotted(node.func)
        if fn is None:
            return '?.' + node.func.attr if isinstance(node.func, ast.Attribute) else '<computed>'
        return cname(fn)
    if isinstance(node, ast.Subscript):
        return 'getitem' if isinstance(node.ctx, ast.Load) else 'setitem'
    if isinstance(node, ast.Name):
        return 'typetest'
    return '<comprehension>'


def typed_locals(f, stmts):
    """Locals declared with an extension type of the module (`g: Function`, `cdef Function f`)."""
    out = set()
    for st in stmts:
        for n in ast.walk(st):
            if isinstance(n, ast.AnnAssign) and isinstance(n.target, ast.Name) \
                    and _dotted(n.annotation) in TYPETEST_TYPES:
                out.add(n.target.id)
    for ll in f.body:
        m = re.match(r'^cdef\s+(' + '|'.join(TYPETEST_TYPES) + r')\s+([A-Za-z_]\w*)\s*(?:=.*)?$', ll.text)
        if m:
            out.add(m.group(2))
    return out


def c_pointer_names(f):
    """Parameters and `cdef` locals of a function whose declared type is a C pointer (or a node):
    indexing them is C pointer arithmetic, which cannot raise."""
    out = set()
    for n, t, _d in f.params:
        if '*' in t or t in NODE_TYPES:
            out.add(n)
    for ll in f.body:
        m = re.match(r'^cdef\s+[\w.\s]*?(\*+)\s*([A-Za-z_]\w*)\s*(?:=.*)?$', ll.text)
        if m:
            out.add(m.group(2))
    return out


def classify_raising(mod):
    """`mod['c_names']`: names that denote plain C functions (declared in a `cdef extern` block or the
    `.pxd`, cimported from libc / cpython.mem, `sizeof`): a call of one of them cannot raise a Python
    exception.  `mod['noraise_local']`: `cdef` functions DEFINED in the module that cannot raise:
    declared `noexcept`, or without any `raise` / `assert` statement and calling only C functions
    and other such functions (least fixed point of "may raise").  Everything else -- Python-level
    calls, `wrap`, methods of `self`, `_utils.*`, builtins, subscripts of Python objects -- may raise."""
    _t, _f, _c, _p, decl = next(b for b in BACKENDS if b[0] == mod['tag'])
    mod['cimported'] = cimported_c_names(mod['lls'])
    c_names = extern_function_names(mod['lls']) | mod['cimported'] | {'sizeof'}
    if decl:
        c_names |= extern_function_names(mod['decl_lls'])
    c_names |= set(REF_FNS) | set(DEREF_FNS)
    mod['c_names'] = c_names
    prefix = mod['prefix']

    def cname(fn):
        return fn[len(prefix) + 1:] if prefix and fn.startswith(prefix + '.') else fn

    cands = {}
    for f in mod['funcs']:
        if f.kind != 'cdef':
            continue
        if re.search(r'\bnoexcept\b', f.trailer):
            cands[f.name] = set()
            continue
        stmts, _err = body_ast(f)
        if stmts is None:
            continue
        ptrs = c_pointer_names(f)
        callees = set()
        bad = False
        for st in stmts:
            for n in ast.walk(st):
                if isinstance(n, (ast.Raise, ast.Assert, ast.With, ast.For, ast.ListComp, ast.SetComp,
                                  ast.DictComp, ast.GeneratorExp, ast.JoinedStr, ast.BinOp, ast.Import,
                                  ast.ImportFrom, ast.Delete, ast.Try)):
                    bad = True
                elif isinstance(n, ast.Call):
                    fn = _dotted(n.func)
                    if fn is None:
                        bad = True
                    else:
                        callees.add(fn)
                elif isinstance(n, ast.Subscript):
                    root = n.value
                    while isinstance(root, (ast.Attribute, ast.Subscript)):
                        root = root.value
                    if not (isinstance(root, ast.Name) and root.id in ptrs):
                        bad = True
        if not bad:
            cands[f.name] = callees
    # names defined more than once (methods of different classes): keep only if all agree
    counts = {}
    for f in mod['funcs']:
        counts[f.name] = counts.get(f.name, 0) + 1
    ok = {n for n in cands if counts.get(n, 0) == 1}
    changed = True
    while changed:
        changed = False
        for n in sorted(ok):
            for fn in cands[n]:
                last = fn.rsplit('.', 1)[-1]
                c = cname(fn)
                if c in c_names and ('.' not in c):
                    continue
                if ('.' not in fn or fn == 'self.' + last) and last in ok:
                    continue
                ok.discard(n)
                changed = True
                break
    mod['noraise_local'] = ok
    # methods that are DECLARED to return an extension type of the module (`cpdef Function var(…)`):
    # binding the result of `self.var(…)` to a local of that type, in a method of the same class,
    # needs no test
    rets = {}
    for f in mod['funcs']:
        if f.qual == f'{f.cls}.{f.name}':
            rets.setdefault((f.cls, f.name), set()).add(f.ret)
    mod['returns_typed'] = {n for n, r in rets.items() if r <= set(TYPETEST_TYPES)}


def module_level_ref_mentions(mod):
    """Logical lines OUTSIDE every function body and every `cdef extern` block that mention a
    reference-count function or method (`_bump = BDD.incref`, `_leak = lambda u: Cudd_Ref(u.node)`):
    code that runs at import time or is reached through a name the reader does not follow."""
    names = REF_FNS + DEREF_FNS + REF_METHODS + DEREF_METHODS
    pat = re.compile(r'(?<![\w])(' + '|'.join(re.escape(n) for n in names) + r')(?![\w])')
    spans = [(f.lineno, f.end) for f in mod['funcs']]
    out = []
    ext = None
    for ll in mod['lls']:
        if ext is not None and ll.indent <= ext:
            ext = None
        if re.match(r'^cdef\s+extern\s+from\b', ll.text):
            ext = ll.indent
            continue
        if ext is not None:
            continue
        if any(a <= ll.lineno <= b for a, b in spans):
            continue
        if re.match(r'^(def|cpdef|cdef|async\s+def)\s', ll.text) and ll.mask.rstrip().endswith(':'):
            continue
        if pat.search(ll.mask):
            out.append((ll.lineno, ' '.join(ll.text.split())[:120]))
    return out


def ref_traces(repo, mod):
    """(methods, uncovered): methods = [dict(name, line, role, returns_node, paths, names)]."""
    mod['known_callees'] = known_callees(repo, mod)
    mod['always_raise'] = always_raising_helpers(repo)
    classify_raising(mod)
    funcs = mod['funcs']
    has_wrap = any(f.qual == 'wrap' for f in funcs)
    decl = set()
    for ll in mod['lls']:
        pass
    mod['declared_c'] = declared_c_functions(mod['lls']) | mod.get('declared_extra', set())
    methods = []
    uncovered = []
    n_plain = 0
    mod['uncovered_hash'] = {}
    for f in funcs:
        # text of the function with comments removed and blanks normalised: pinned for the
        # functions the reader cannot follow (a change there needs a new review by hand)
        import hashlib as _hl
        norm = '\n'.join(f'{ll.indent}:' + ' '.join(ll.text.split()) for ll in f.body)
        mod['uncovered_hash'][f.qual] = _hl.sha256(norm.encode()).hexdigest()[:16]
        # tags of CUDD's computed table used by this function (lookups, inserts)
        import re as _re
        body_txt = ' '.join(ll.text for ll in f.body)
        lk = _re.findall(r'cuddCacheLookup\w*\(\s*\w+\s*,\s*([A-Za-z_]\w*)', body_txt)
        ins = _re.findall(r'cuddCacheInsert\w*\(\s*\w+\s*,\s*([A-Za-z_]\w*)', body_txt)
        if lk or ins:
            mod.setdefault('cache_tags', []).append((f.qual, lk, ins))
        if f.name.startswith('_test_'):
            uncovered.append((f.qual, f.lineno, 'test helper (not part of the wrapper API)'))
            continue
        stmts, err = body_ast(f)
        if stmts is None:
            uncovered.append((f.qual, f.lineno, err))
            continue
        tr = Tracer(mod, f, stmts, has_wrap)
        try:
            ps = tr.paths()
        except Uncovered as e:
            uncovered.append((f.qual, f.lineno, str(e)))
            continue
        except RecursionError:
            uncovered.append((f.qual, f.lineno, 'recursion limit'))
            continue
        role = role_of(f)
        if role == 'plain' and not any(ev[0] in RELEVANT for p in ps for ev in p.events):
            n_plain += 1
            continue
        seen = set()
        paths = []
        for p in ps:
            key = tuple(p.events)
            if key in seen:
                continue
            seen.add(key)
            paths.append((list(p.events), dict(p.names)))
        methods.append(dict(name=f.qual, line=f.lineno, role=role,
                            returns_node=tr.returns_node, paths=paths))
    # every definition is accounted for: the keyword count of the file against what `functions()`
    # found (plus the definitions nested in bodies, which the tracer meets as statements)
    nested = 0
    for f in funcs:
        stmts, _err = body_ast(f)
        for st in stmts or []:
            nested += sum(1 for n in ast.walk(st) if isinstance(n, (ast.FunctionDef, ast.AsyncFunctionDef)))
    mod['def_tokens'] = count_def_tokens(mod['lls'])
    mod['nested_defs'] = nested
    mod['module_level_refs'] = module_level_ref_mentions(mod)
    mod['has_ref_field'] = any(re.match(r'^cdef\s+(?:public\s+|readonly\s+)?int\s+' + REF_FIELD + r'\b', ll.text)
                               for ll in mod['lls'])
    return methods, uncovered, n_plain


def lean_event(ev):
    k = ev[0]
    if k == 'param':
        return f'.param {ev[1]} {_ls(ev[2])}'
    if k == 'produce':
        return f'.produce {ev[1]} {_ls(ev[2])} [' + ', '.join(str(a) for a in ev[3]) + ']'
    if k in ('ref', 'deref'):
        return f'.{k} {ev[1]} {_ls(ev[2])}'
    if k in ('wrap', 'initCall', 'isNull', 'retNode'):
        return f'.{k} {ev[1]}'
    if k == 'guard':
        return f'.guard {_ls(ev[1])} {"true" if ev[2] else "false"}'
    if k in ('retHandle', 'retNull'):
        return f'.{k}'
    if k == 'raise':
        return f'.raise {_ls(ev[1])}'
    if k == 'raiseIn':
        return f'.raiseIn {_ls(ev[1])} {ev[2]}'
    if k in ('fillBegin', 'fillEnd'):
        return f'.{k} {ev[1]}'
    if k == 'handleDrop':
        return f'.handleDrop {ev[1]} {_ls(ev[2])}'
    if k in ('iterBegin', 'iterEnd', 'iterBreak'):
        return f'.{k}'
    if k == 'alloc':
        return f'.alloc {ev[1]} {_ls(ev[2])} {_ls(ev[3])}'
    if k in ('cnew', 'cparam', 'passC', 'free'):
        return f'.{k} {ev[1]} {_ls(ev[2])}'
    if k in ('store', 'load'):
        return f'.{k} {ev[1]} {ev[2]}'
    if k in ('derefAll', 'derefNonNull'):
        return f'.{k} {ev[1]} {_ls(ev[2])} {_ls(ev[3])}'
    if k == 'nullInit':
        return f'.nullInit {ev[1]} {_ls(ev[2])}'
    if k == 'refNonPos':
        return f'.refNonPos {ev[1]}'
    if k == 'setField':
        return f'.setField {ev[1]} {_ls(ev[2])} {ev[3]}'
    if k in ('fieldAdd', 'fieldSet'):
        return f'.{k} {_ls(ev[1])} ({ev[2]})'
    if k == 'fieldTest':
        return f'.fieldTest {_ls(ev[1])} {_ls(ev[2])} ({ev[3]}) {"true" if ev[4] else "false"}'
    if k == 'handleNode':
        return f'.handleNode {ev[1]} {_ls(ev[2])}'
    raise ValueError(ev)


def lean_method(tag, m):
    paths = ',\n    '.join('⟨[' + ', '.join(lean_event(e) for e in evs) + ']⟩' for evs, _n in m['paths'])
    return ('{ backend := .' + tag + ', name := ' + _ls(m['name']) + f', line := {m["line"]}, '
            f'role := .{m["role"]}, returnsNode := {"true" if m["returns_node"] else "false"},\n'
            '  paths := [\n    ' + paths + '] }')


# ---------------------------------------------------------------------------
# everything, as Python data and as Lean text
# ---------------------------------------------------------------------------

def direct_decref_users(repo):
    """(file, line) of every call that passes `_direct=True` in `dd/*.py`, `dd/*.pyx`."""
    out = []
    d = os.path.join(repo, 'dd')
    for fn in sorted(os.listdir(d)):
        if not fn.endswith(('.py', '.pyx')):
            continue
        for ll in logical_lines(open(os.path.join(d, fn)).read()):
            if re.search(r'\b_direct\s*=\s*True\b', ll.mask) and not re.match(r'^(def|cpdef|cdef)\s', ll.text):
                out.append(('dd/' + fn, ll.lineno))
    return out


def extract_all(repo):
    """{'apply': [table per back end], 'traces': {tag: [method]}, 'uncovered': {tag: [...]},
    'irrelevant': {tag: n}} -- deterministic (source order)."""
    data = dict(apply=[], operators={}, traces={}, uncovered={}, irrelevant={}, nfuncs={}, local={})
    data['direct_decref_users'] = direct_decref_users(repo)
    for tag, _f, _c, _p, _d in BACKENDS:
        mod = load_backend(repo, tag)
        data['apply'].append(apply_table(repo, mod))
        data['operators'][tag] = operator_table(repo, mod, data['apply'][-1])
        ms, unc, n = ref_traces(repo, mod)
        data['traces'][tag] = ms
        data['uncovered'][tag] = unc
        data.setdefault('cache_tags', {})[tag] = mod.get('cache_tags', [])
        data.setdefault('uncovered_hash', {})[tag] = [
            (name, mod['uncovered_hash'].get(name, '')) for name, _line, why in unc
            if not why.startswith('test helper')]
        data['irrelevant'][tag] = n
        data['nfuncs'][tag] = len(mod['funcs'])
        data.setdefault('def_tokens', {})[tag] = mod['def_tokens']
        data.setdefault('nested_defs', {})[tag] = mod['nested_defs']
        data.setdefault('has_ref_field', {})[tag] = mod['has_ref_field']
        data['local'][tag] = sorted(mod['local'])
        data.setdefault('module_level_refs', {})[tag] = mod['module_level_refs']
        data.setdefault('noraise_local', {})[tag] = sorted(mod.get('noraise_local', ()))
    return data


def lean_ctables(data):
    L = []
    L.append('/- GENERATED by harness/extract.py (reader: harness/cpyx.py) from /repo/dd/*.pyx — do not edit. -/')
    L.append('import DD.CTableTypes')
    L.append('namespace Gen')
    L.append('open DD')
    L.append('/-- `apply` of each C back end, one row per operator spelling -/')
    for t in data['apply']:
        L.append(f'def cApply_{t["tag"]} : CApplyTable :=\n' + lean_apply_table(t))
    L.append('def cApply : List CApplyTable := [' + ', '.join('cApply_' + t['tag'] for t in data['apply']) + ']')
    L.append('/-- operator methods of the handles (`~u`, `u & v`, `u | v`, `u.implies(v)`, `u.equiv(v)`) and '
             '`ite` of the managers:\n(back end, method, the spelling of `apply` it must agree with, what it computes) -/')
    ops = []
    for tag, rows in data['operators'].items():
        for qual, spelling, out in rows:
            ops.append(f'(.{tag}, {_ls(qual)}, ⟨{_ls(spelling)}, {lean_outcome(out)}, {out[2]}⟩)')
    L.append('def cOperators : List (Backend × String × CRow) := [\n  ' + ',\n  '.join(ops) + ']')
    L.append('/-- the reader\'s own (Python-side) view of the accepted vocabulary and of the quantifier roles '
             '`(universal?, operand giving the variables, quantified operand)`, for cross-checking -/')
    acc = []
    for t in data['apply']:
        acc.append(f'(.{t["tag"]}, [' + ', '.join(_ls(op) for op, out in t['rows'] if out[0] != 'raises') + '])')
    L.append('def cAcceptedPy : List (Backend × List String) := [' + ', '.join(acc) + ']')
    rl = []
    for t in data['apply']:
        for op, out in t['rows']:
            r = roles_of(out[1]) if out[0] == 'ret' else None
            if r is not None:
                rl.append(f'(.{t["tag"]}, {_ls(op)}, {"true" if r[0] else "false"}, .{r[1]}, .{r[2]})')
    L.append('def cQuantRolesPy : List (Backend × String × Bool × COperand × COperand) := [\n  '
             + ',\n  '.join(rl) + ']')
    L.append('/-- reference events along every explicit path of every function that touches C nodes -/')
    for tag, ms in data['traces'].items():
        for k, m in enumerate(ms):
            L.append(f'def cTrace_{tag}_{k} : CMethod :=\n' + lean_method(tag, m))
        L.append(f'def cTraces_{tag} : List CMethod := [' + ', '.join(f'cTrace_{tag}_{k}' for k in range(len(ms))) + ']')
    L.append('/-- `cdef DdRef` functions defined in the `.pyx` itself -/')
    L.append('def cLocalProducers : List (Backend × List String) := [' + ', '.join(
        f'(.{tag}, [' + ', '.join(_ls(x) for x in xs) + '])' for tag, xs in data['local'].items()) + ']')
    L.append('def cRefTraces : List CMethod := ' + ' ++ '.join(f'cTraces_{tag}' for tag in data['traces']))
    L.append('/-- back ends whose `Function` declares the counter `cdef public int _ref` -/')
    L.append('def cRefFieldBackends : List Backend := [' + ', '.join(
        '.' + tag for tag, b in data['has_ref_field'].items() if b) + ']')
    L.append('/-- per file: (definition keywords `def`/`cpdef`/`cdef …(` counted on the logical lines, '
             'functions found by the reader at class / module level, definitions nested in bodies, '
             'of the former: followed, not followed, without any node event) -/')
    L.append('def cFunctionCount : List (Backend × Nat × Nat × Nat × Nat × Nat × Nat) := [' + ', '.join(
        f'(.{tag}, {data["def_tokens"][tag]}, {data["nfuncs"][tag]}, {data["nested_defs"][tag]}, '
        f'{len(data["traces"][tag])}, {len(data["uncovered"][tag])}, {data["irrelevant"][tag]})'
        for tag in data['traces']) + ']')
    L.append('/-- functions with node events that the reader could not follow (NOT covered by any theorem) -/')
    unc = []
    for tag, us in data['uncovered'].items():
        for name, line, why in us:
            unc.append('⟨.' + tag + ', ' + _ls(name) + f', {line}, ' + _ls(why) + '⟩')
    L.append('def cUncovered : List CUncovered := [\n  ' + ',\n  '.join(unc) + ']')
    L.append('/-- text fingerprints (comments removed, blanks normalised) of the functions that are not '
             'followed: compared with the fingerprints recorded when they were reviewed by hand -/')
    uh = []
    for tag, hs in data.get('uncovered_hash', {}).items():
        for name, hx in hs:
            uh.append(f'(.{tag}, {_ls(name)}, {_ls(hx)})')
    L.append('def cUncoveredText : List (Backend × String × String) := [\n  ' + ',\n  '.join(uh) + ']')
    L.append('/-- functions that use CUDD\'s computed table: (back end, function, tags looked up, tags inserted) -/')
    ct = []
    for tag, rows in data.get('cache_tags', {}).items():
        for name, lk, ins in rows:
            ct.append(f'(.{tag}, {_ls(name)}, [' + ', '.join(_ls(x) for x in lk) + '], ['
                      + ', '.join(_ls(x) for x in ins) + '])')
    L.append('def cCacheTags : List (Backend × String × List String × List String) := [\n  '
             + ',\n  '.join(ct) + ']')
    L.append('/-- the exits through exceptions raised inside callees on which an ordinary function still owns '
             'something, as the PYTHON twin of the rules sees them (harness/checks_cwrap.py `exit_leaks`): '
             '(back end, function, site, what is still owned); first occurrences, in table order -/')
    xl = []
    for tag, name, site, held in data.get('exit_leaks_py', []):
        xl.append(f'(.{tag}, {_ls(name)}, {_ls(site)}, [' + ', '.join(f'({_ls(d)}, {k})' for d, k in held) + '])')
    L.append('def cExitLeaksPy : List (Backend × String × String × List (String × Int)) := [\n  '
             + ',\n  '.join(xl) + ']')
    L.append('/-- lines outside every function body and `extern` block that mention a reference-count function '
             '(`_bump = BDD.incref`, a module-level lambda): (back end, line, text) -/')
    mr = []
    for tag, rows in data.get('module_level_refs', {}).items():
        for line, text in rows:
            mr.append(f'(.{tag}, {line}, {_ls(text)})')
    L.append('def cModuleLevelRefs : List (Backend × Nat × String) := [' + ',\n  '.join(mr) + ']')
    L.append('/-- every call in `dd/*.py`, `dd/*.pyx` that passes `_direct=True` (to `decref`): (file, line) -/')
    L.append('def cDirectDecrefUsers : List (String × Nat) := [' + ', '.join(
        f'({_ls(f)}, {n})' for f, n in data.get('direct_decref_users', [])) + ']')
    L.append('/-- the `cdef` functions of each module that the reader classifies as unable to raise -/')
    L.append('def cNoRaiseLocal : List (Backend × List String) := [' + ', '.join(
        f'(.{tag}, [' + ', '.join(_ls(x) for x in xs) + '])' for tag, xs in data.get('noraise_local', {}).items()) + ']')
    L.append('end Gen')
    return '\n'.join(L) + '\n'


def lean_ctables_stub(err):
    """Tables written when the reader crashed: all empty, so that no C19 obligation holds."""
    L = ['/- GENERATED by harness/extract.py (reader: harness/cpyx.py) — the reader FAILED: -/',
         'import DD.CTableTypes', 'namespace Gen', 'open DD',
         f'def cExtractError : String := {_ls(err)}',
         'def cApply : List CApplyTable := []',
         'def cOperators : List (Backend × String × CRow) := []',
         'def cAcceptedPy : List (Backend × List String) := []',
         'def cQuantRolesPy : List (Backend × String × Bool × COperand × COperand) := []',
         'def cLocalProducers : List (Backend × List String) := []',
         'def cRefTraces : List CMethod := []',
         'def cRefFieldBackends : List Backend := []',
         'def cFunctionCount : List (Backend × Nat × Nat × Nat × Nat × Nat × Nat) := []',
         'def cUncovered : List CUncovered := []',
         'def cUncoveredText : List (Backend × String × String) := []',
         'def cCacheTags : List (Backend × String × List String × List String) := []',
         'def cExitLeaksPy : List (Backend × String × String × List (String × Int)) := []',
         'def cNoRaiseLocal : List (Backend × List String) := []',
         'def cDirectDecrefUsers : List (String × Nat) := []',
         'def cModuleLevelRefs : List (Backend × Nat × String) := [(.cudd, 0, "reader failed")]',
         'end Gen']
    return '\n'.join(L) + '\n'
