"""Checks C09, C11, C13, C18."""
import itertools

from lib import (Session, TT, check_invariants, SECTIONS_L2, SECTIONS_L3)
from funcs import Space, Builder
from histories import History
from checks_core import (ABC, orders_for, fresh, all_functions, warm_up, canon_problems,
                         order_views_ok)
import impl as implmod


# ---------------------------------------------------------------------------
# C09 — dynamic reordering is invisible
# ---------------------------------------------------------------------------

def replay_lines(ctx, lines):
    """A fresh session in which the given lines (without schedules) were executed."""
    s = Session(ctx)
    for ln in lines:
        if ln == 'reset':
            continue
        base = ln.split('\tS:')[0]
        f = base.split('\t')
        if len(f) == 3 and f[1] == 'incref':
            s.incref(int(f[0]), int(f[2]))
        elif len(f) == 3 and f[1] == 'decref':
            s.decref(int(f[0]), int(f[2]))
        else:
            s._do(base)
            if len(f) >= 2 and f[1] == 'new':
                s.ledger.setdefault(int(f[0]), {})
    return s


def build_scenario(ctx, nv):
    """Prefix lines creating a manager with some held functions; returns (lines, held, names)."""
    rng = ctx.rng
    names = [chr(ord('a') + i) for i in range(nv)]
    order = names[:]
    rng.shuffle(order)
    h = History(ctx, order)
    for _ in range(rng.randint(12, 30)):
        h.step(dict(var=5, apply=9, ite=2, hold=4, quantify=1))
    if not h.held:
        u = h.add(h.s.op(0, 'apply', 'xor', h.add(h.s.op(0, 'var', names[0])), h.add(h.s.op(0, 'var', names[-1]))))
        h.hold(u)
    # hold a few more so that operands are referenced
    for u in list(h.pool):
        if abs(u) != 1 and u not in h.held and rng.random() < 0.6:
            h.hold(u)
    if rng.random() < 0.4:
        # `bdd.roots`: a few held references (either sign) and possibly a node nobody holds (the
        # collection that sifting starts with frees it: the noted edge dangles, nothing else)
        rs = [u if rng.random() < 0.5 else -u for u in rng.sample(h.held, min(len(h.held), 2))]
        loose = [u for u in h.pool if abs(u) in h.b._succ and abs(u) != 1 and u not in h.held
                 and h.b._ref.get(abs(u)) == 0]
        if loose and rng.random() < 0.6:
            rs.append(rng.choice(loose))
        h.s.op(0, 'set_roots', ','.join(map(str, sorted(set(rs)))))
        ctx.count('roots-set')
    lines = [ln for ln in h.s.lines]
    held = list(h.held)
    h.s.close()
    return lines, held, names


def c09_ops(rng, held, names, b):
    """The operation under test: (label, op, args) with operands among the held references."""
    u, v, w = (rng.choice(held) for _ in range(3))
    vs = rng.sample(names, min(len(names), rng.randint(1, 3)))
    return [
        ('apply', 'apply', [rng.choice(['and', 'or', 'xor', 'implies', 'equiv', 'diff']), u, v]),
        ('ite', 'ite', [u, v, w]),
        ('quantify', 'quantify', [u, ','.join('n:' + x for x in vs), rng.randint(0, 1)]),
        ('apply-quant', 'apply', [rng.choice([r'\A', r'\E']), v, u]),
        ('let-const', 'let_b', [u, ','.join(f'n:{x}={rng.randint(0, 1)}' for x in vs)]),
        ('let-fn', 'let_r', [u, ','.join(f'{x}={rng.choice(held)}' for x in vs)]),
        ('let-name', 'let_n', [u, ','.join(f'{x}={rng.choice(names)}' for x in vs)]),
        ('cube', 'cube', [','.join(f'{x}={rng.randint(0, 1)}' for x in vs)]),
        ('var', 'var', [rng.choice(names)]),
    ] + _c09_relational(rng, held, names, b) + _c09_formula(rng, held, names)


def _c09_formula(rng, held, names):
    """`add_expr` of a random formula over the declared names and `@n` references to held nodes."""
    try:
        import checks_parse as _cp
    except ImportError:
        return []

    def atom():
        if rng.random() < 0.3:
            return f'@{rng.choice(held)}'
        return rng.choice(names)

    def form(d):
        if d == 0 or rng.random() < 0.25:
            a = atom()
            return a if rng.random() < 0.7 else f'~ {a}'
        op = rng.choice(['/\\', '\\/', '=>', '<=>', '#', '&', '|'])
        return f'({form(d - 1)} {op} {form(d - 1)})'
    f = form(rng.randint(2, 4))
    if rng.random() < 0.3:
        f = f'\\E {rng.choice(names)}: {f}'
    return [('add_expr', 'add_expr', [_cp.esc(f)])]


def _c09_relational(rng, held, names, b):
    """image / preimage over one pair of adjacent variables (operands are held references)."""
    if len(names) < 2:
        return []
    i = rng.randrange(len(names) - 1)
    x, xp = b._level_to_var[i], b._level_to_var[i + 1]
    if rng.random() < 0.5:
        x, xp = xp, x
    u, v = rng.choice(held), rng.choice(held)
    fa = rng.randint(0, 1)
    return [
        ('image', 'image', [u, v, f'n:{xp}=n:{x}', f'n:{x}', fa]),
        ('preimage', 'preimage', [u, v, f'n:{x}=n:{xp}', f'n:{xp}', fa]),
    ]


def check_C09(ctx):
    rng = ctx.rng
    n_scen = 40 if ctx.tier == 'quick' else 150
    for k in range(n_scen):
        if ctx.time_left() < 10:
            break
        nv = rng.randint(3, 6)
        lines, held, names = build_scenario(ctx, nv)
        probe = replay_lines(ctx, lines)
        ops = c09_ops(rng, held, names, probe.mgr(0))
        probe.close()
        for label, op, args in rng.sample(ops, 4 if ctx.tier == 'quick' else len(ops)):
            _c09_one(ctx, lines, held, names, label, op, args)
    # copy into a manager in which reordering is enabled
    for k in range(15 if ctx.tier == 'quick' else 60):
        if ctx.time_left() < 10:
            break
        _c09_copy(ctx)
    _c09_direct(ctx)
    _c09_known_witnesses(ctx)
    _c09_f4d_witnesses(ctx)
    _c09_relational_sweeps(ctx)
    _c09_relational_errors(ctx)
    # natural triggering at lowered thresholds
    for k in range(80 if ctx.tier == 'quick' else 400):
        if ctx.time_left() < 5:
            break
        nv = rng.randint(4, 8)
        names = [chr(ord('a') + i) for i in range(nv)]
        h = History(ctx, names)
        h.s.op(0, 'configure', 1)
        thr = rng.randint(2, 12)
        h.s.op(0, 'set_last_len', thr)
        ctx.count('natural-threshold')
        held_tt = {}
        for _ in range(rng.randint(10, 50)):
            h.step(dict(var=4, apply=9, ite=2, quantify=2, cofactor=1, compose=1, rename=1, cube=1,
                        hold=6, release=1))
            ans = h.s.answers[-1]
            b = h.b
            bad = []
            if ans == 'err NeedsReordering':
                bad.append('reordering signal reached the caller')
            tt = TT(b, names)
            for u, c in h.ledger().items():
                if c > 0:
                    if u not in b._succ:
                        bad.append(f'held node {u} deleted')
                        continue
                    t = tt.of(u)
                    if u in held_tt and held_tt[u] != t:
                        bad.append(f'held node {u} changed')
                    held_tt[u] = t
                else:
                    held_tt.pop(u, None)
            h.prune()
            ctx.evaluations += 1
            if bad:
                ctx.violation('dynamic reordering visible in a history', dict(
                    problems=bad[:3], lines=list(h.s.lines), tags=dict(call='natural')))
                break
            if b._last_len is not None and rng.random() < 0.3:
                h.s.op(0, 'set_last_len', rng.randint(2, 12))
        ctx.case(('natural', k, thr, len(h.s.lines)))
        h.finish(SECTIONS_L3, 'C09 natural')
    _c09_natural_default(ctx, 2 if ctx.tier == 'quick' else 12)


def _c09_natural_default(ctx, n):
    """Dynamic reordering at its DEFAULT threshold, triggered by the library itself (no forced
    trigger, `_last_len` never touched): reordering is switched on in a small manager, then a
    conjunction of equivalences between distant variables is built step by step, every
    intermediate result held — the diagram passes 200 nodes and the request fires on its own,
    repeatedly as the size doubles again.  Every held reference is compared on sampled assignments
    before / after each step; exact state against the model at the end (the recorded sifting
    schedules make it reproducible)."""
    from lib import SampledTT
    rng = ctx.rng
    for k in range(n):
        if ctx.time_left() < 10:
            break
        m = rng.randint(7, 9)
        nv = 2 * m + rng.randint(0, 3)
        names = [f'q{i:02d}' for i in range(nv)]
        order = names[:]
        rng.shuffle(order)
        h = History(ctx, order, dyn=True)
        h.s.op(0, 'configure', 1)
        st = SampledTT(h.b, names, 96, rng)
        lv = sorted(order[:2 * m], key=order.index)
        acc = None
        fired = 0
        for i in range(m):
            a = h.s.val(h.s.op(0, 'var', lv[i]))
            h.hold(a)
            b_ = h.s.val(h.s.op(0, 'var', lv[i + m]))
            h.hold(b_)
            before_len = h.b._last_len
            e = h.s.val(h.s.op(0, 'apply', 'equiv', a, b_))
            h.hold(e)
            want = None
            if acc is not None:
                st.fresh()
                want = st.of(acc) & st.of(e)
                nxt = h.s.val(h.s.op(0, 'apply', 'and', acc, e))
            else:
                nxt = e
            bad = []
            if nxt is None:
                bad.append('the conjunction raised: ' + h.s.answers[-1])
            else:
                h.hold(nxt)
                if want is not None and st.fresh().of(nxt) != want:
                    bad.append('result of the conjunction wrong')
            if h.b._last_len is None:
                bad.append('reordering no longer enabled')
            elif before_len is not None and h.b._last_len != before_len:
                fired += 1
            bad += check_invariants(h.b, h.ledger())
            ctx.evaluations += 1
            if bad:
                ctx.violation('dynamic reordering at the default threshold is visible', dict(
                    problems=bad[:3], lines=list(h.s.lines), tags=dict(call='natural-default')))
                break
            acc = nxt
        ctx.count('natural-default:reorderings', fired)
        ctx.count('natural-default:final-nodes', len(h.b._succ))
        ctx.case(('natural-default', k, nv, m, fired))
        h.finish(SECTIONS_L3, 'C09 natural default')


def _keys_by_name(b, text, pairs):
    """The keys of a protocol argument (`n:x`, `l:3`) as names in the order of `b`."""
    def nm(k):
        k = implmod.parse_key(k)
        return k if isinstance(k, str) else b._level_to_var[k]
    if pairs:
        return [(nm(k), nm(v)) for k, v in implmod.parse_pairs(text)]
    return [nm(k) for k in implmod.split1(text)]


def _preimage_documented(b, target, pairs):
    """The literal preconditions of `preimage` (`C13_preimage`): no key of the renaming is a value.
    Nothing about the order, the shape of the renaming or the target: `_preimage_of` runs the
    fused recursion only when its own test says it is valid, and renames, conjoins, quantifies
    otherwise."""
    return not ({k for k, _ in pairs} & {v for _, v in pairs})


def _c09_one(ctx, lines, held, names, label, op, args, mid=0, op_mid=None):
    """Run `op` without reordering, then with the request firing at k = 1, 2, ...
    `mid` is the manager in which reordering is enabled and the result lives;
    `op_mid` the manager the protocol line addresses (differs for `copy`).

    `image` and `preimage` (any renaming, any target, `C13_preimage`) must return the function
    they return without reordering, whatever sifting does to the partners of the renaming (F4d,
    F5, F5b repaired: `preimage` renames, conjoins and quantifies unless its fused recursion is
    valid); and the result must be what the same call computes, without reordering, on the order
    the manager is left in."""
    if op_mid is None:
        op_mid = mid
    ref_s = replay_lines(ctx, lines)
    b0 = ref_s.mgr(mid)
    rel_pairs = rel_qs = None
    documented0 = True
    if op in ('image', 'preimage'):
        rel_pairs = _keys_by_name(b0, args[2], True)
        rel_qs = _keys_by_name(b0, args[3], False)
        if op == 'preimage':
            documented0 = _preimage_documented(b0, int(args[1]), rel_pairs)
    held_tt = {u: TT(b0, names).of(u) for u, mm in held if mm == mid} if held and isinstance(held[0], tuple) else {u: TT(b0, names).of(u) for u in held}
    ans0 = ref_s.op(op_mid, op, *args)
    r0 = ref_s.val(ans0)
    want = TT(b0, names).of(r0) if r0 is not None else None
    ctx.add_session(ref_s, SECTIONS_L3, f'C09 {label} reference')
    ref_s.close()
    if r0 is None:
        return
    k = 1
    while k <= 60:
        s = replay_lines(ctx, lines)
        b = s.mgr(mid)
        s.op(mid, 'configure', 1)
        s.op(mid, 'fire_in', k)
        ans = s.op(op_mid, op, *args)
        fired = id(b) not in implmod._FIRE
        s.op(mid, 'fire_off')
        r = s.val(ans)
        bad = []
        tags = dict(call='dyn:' + label)
        if ans == 'err NeedsReordering':
            bad.append('the internal reordering signal was raised to the caller')
            tags['symptom'] = 'signal-escapes'
        elif r is None:
            bad.append(f'operation failed with reordering at request {k}: {ans}')
            tags['symptom'] = 'raises'
        else:
            same_expected = True
            if op == 'preimage':
                same_expected = documented0 and _preimage_documented(b, int(args[1]), rel_pairs)
                adj = all(abs(b.vars[k_] - b.vars[v_]) == 1 for k_, v_ in rel_pairs)
                ctx.count('preimage:' + ('literal-preconditions' if same_expected else 'key-is-a-value')
                          + (':partners-neighbours' if adj else ':partners-separated'))
            if abs(r) not in b._succ:
                bad.append('result is not a node of the manager')
                tags['symptom'] = 'wrong-result'
            elif same_expected and TT(b, names).of(r) != want:
                bad.append('result denotes another function than with reordering disabled')
                tags['symptom'] = 'wrong-result'
        tt = TT(b, names)
        for u, t in held_tt.items():
            if abs(u) not in b._succ:
                bad.append(f'held reference {u} deleted')
            elif tt.of(u) != t:
                bad.append(f'held reference {u} changed')
        if b._last_len is None:
            bad.append('reordering is no longer enabled afterwards')
            tags.setdefault('symptom', 'disabled')
        if b._reordering_context:
            bad.append('context flag left set')
        ibad = check_invariants(b, s.ledger.get(mid, {}))
        bad += ibad
        if rel_pairs is not None and r is not None and abs(r) in b._succ:
            # the same call again, arguments by name, reordering switched off, on the order the
            # manager was left in: same function (same node: canonicity)
            s.op(mid, 'configure', 0)
            again = s.op(op_mid, op, args[0], args[1],
                         ','.join(f'n:{k}=n:{v}' for k, v in rel_pairs),
                         ','.join(f'n:{q}' for q in rel_qs), args[4])
            if s.val(again) != r:
                bad.append(f'result {r} differs from the same call without reordering on the '
                           f'final order ({again})')
                tags.setdefault('symptom', 'wrong-result')
        ctx.evaluations += 1
        ctx.count('trigger:' + label)
        if bad:
            ctx.violation(f'{label}: reordering at request {k} is visible', dict(
                problems=bad[:4], k=k, op=op, args=args, lines=list(s.lines), tags=tags))
        s.state(mid)
        ctx.add_session(s, SECTIONS_L3, f'C09 {label} k={k}')
        s.close()
        ctx.case(('trigger', label, k, tuple(lines[-2:]), tuple(map(str, args))))
        if not fired:
            break
        k += 1


# ---------------------------------------------------------------------------
# C11 — copying between managers
# ---------------------------------------------------------------------------

def check_C11(ctx):
    rng = ctx.rng
    sp = Space(ABC)
    perms = list(itertools.permutations(ABC))
    pairs = list(itertools.product(perms, perms))
    if ctx.tier == 'quick':
        rng.shuffle(pairs)
        pairs = pairs[:6]
    for so, to in pairs:
        if ctx.time_left() < 15:
            break
        s = Session(ctx)
        extra = rng.random() < 0.5
        tnames = list(to)
        if extra:
            tnames = tnames[:]
            tnames.insert(rng.randrange(4), 'x')
            tnames.insert(rng.randrange(5), 'y')
        if rng.random() < 0.5:
            s.new(0, list(so))
            s.new(1, tnames)
        else:
            # both managers DECLARE the variables in the same sequence and reach their orders by
            # reordering afterwards (the declaration order of `vars` then differs from the levels)
            s.new(0, sorted(so))
            s.new(1, sorted(tnames))
            s.op(0, 'reorder', ','.join(f'{v}={i}' for i, v in enumerate(so)))
            s.op(1, 'reorder', ','.join(f'{v}={i}' for i, v in enumerate(tnames)))
            ctx.count('copy:orders-by-reordering')
        if rng.random() < 0.6:
            # pre-existing nodes in the target
            for _ in range(rng.randint(1, 10)):
                a = s.val(s.op(1, 'var', rng.choice(tnames)))
                b_ = s.val(s.op(1, 'var', rng.choice(tnames)))
                r = s.val(s.op(1, 'apply', rng.choice(['and', 'xor', 'or']), a, -b_))
                if rng.random() < 0.5:
                    s.incref(1, r)
        refs = all_functions(s, sp)
        src_state = s.state(0)
        b1 = s.mgr(1)
        univ = sorted(set(tnames) | set(ABC))
        for t, r in refs.items():
            sign = rng.choice([1, -1])
            ans = s.op(0, 'copy', sign * r, 1)
            got = s.val(ans)
            want = sp.neg(t) if sign < 0 else t
            ctx.evaluations += 1
            if got is None:
                ctx.violation('copy raised', dict(tt=t, got=ans, source_order=so, target_order=tnames,
                                                  tags=dict(call='copy')))
                continue
            # the function of the same-named variables
            tt1 = TT(b1, univ).of(got)
            spu = Space(univ)
            want_u = 0
            for a in range(spu.size):
                a3 = sum((((a >> spu.idx(n)) & 1) << sp.idx(n)) for n in ABC)
                if (want >> a3) & 1:
                    want_u |= 1 << a
            if tt1 != want_u:
                ctx.violation('copied reference denotes another function', dict(
                    tt=t, sign=sign, source_order=so, target_order=tnames, got=ans,
                    tags=dict(call='copy')))
        bad = check_invariants(b1, s.ledger.get(1, {}), probe=True) + canon_problems(b1, univ)
        if bad:
            ctx.violation('target not canonical after copies', dict(problems=bad[:4], tags=dict(call='copy-target')))
        if s.state(0) != src_state:
            ctx.violation('copy changed the source manager', dict(tags=dict(call='copy-source')))
        # copying to the same manager returns the reference
        u = refs[23]
        if s.val(s.op(0, 'copy', u, 0)) != u:
            ctx.violation('copy to the same manager changed the reference', dict(tags=dict(call='copy-same')))
        # a variable missing in the target is refused
        s.new(2, ['a'])
        ans = s.op(0, 'copy', refs[sp.masks['b']], 2)
        if not ans.startswith('err'):
            ctx.violation('copy with an undeclared variable accepted', dict(got=ans, tags=dict(call='copy-missing')))
        s.state(1)
        ctx.case(('copy', so, tuple(tnames)))
        ctx.add_session(s, SECTIONS_L3, f'C11 {so}->{tnames}')
        s.close()
    _copy_wide(ctx, 3 if ctx.tier == 'quick' else 30)
    _copy_module(ctx)


def _copy_wide(ctx, n):
    """Copies between managers with 9-12 variables in different orders (orders reached by
    declaration or by reordering), functions with small supports at arbitrary levels."""
    from checks_core import WIDE_NAMES, wide_function
    rng = ctx.rng
    for k in range(n):
        if ctx.time_left() < 8:
            break
        names = rng.sample(WIDE_NAMES, rng.randint(9, 12))
        so = names[:]
        to = names[:]
        rng.shuffle(so)
        rng.shuffle(to)
        s = Session(ctx)
        if rng.random() < 0.5:
            s.new(0, so)
            s.new(1, to)
        else:
            s.new(0, sorted(so))
            s.new(1, sorted(to))
            s.op(0, 'reorder', ','.join(f'{v}={i}' for i, v in enumerate(so)))
            s.op(1, 'reorder', ','.join(f'{v}={i}' for i, v in enumerate(to)))
        b1 = s.mgr(1)
        for _ in range(40):
            sp, sub, t, r = wide_function(ctx, s, so)
            if abs(r) != 1:
                s.incref(0, r)
            sign = rng.choice([1, -1])
            ans = s.op(0, 'copy', sign * r, 1)
            got = s.val(ans)
            want = sp.neg(t) if sign < 0 else t
            ctx.evaluations += 1
            if got is None or TT(b1, sub).of(got) != want:
                ctx.violation('copied reference denotes another function (wide managers)', dict(
                    source_order=so, target_order=to, sub=sub, tt=t, sign=sign, got=ans,
                    tags=dict(call='copy-wide')))
                break
            if rng.random() < 0.5 and abs(got) != 1:
                s.incref(1, got)
        bad = check_invariants(b1, s.ledger.get(1, {}), probe=True)
        if bad:
            ctx.violation('target not canonical after copies (wide managers)', dict(
                problems=bad[:4], tags=dict(call='copy-wide-target')))
        s.state(0)
        s.state(1)
        ctx.case(('copy-wide', tuple(so), tuple(to)))
        ctx.add_session(s, SECTIONS_L3, 'C11 wide')
        s.close()


def _copy_module(ctx):
    """`dd._copy.copy_bdd / copy_bdds_from / copy_vars` and `autoref.BDD.copy` on dd.autoref."""
    import dd.autoref as _auto
    import dd._copy as _copy
    rng = ctx.rng
    sp = Space(ABC)
    for k in range(6 if ctx.tier == 'quick' else 36):
        so = list(ABC)
        to = list(ABC)
        rng.shuffle(so)
        rng.shuffle(to)
        src = _auto.BDD()
        src.declare(*so)
        tgt = _auto.BDD()
        tgt.declare(*to)
        vs = {n: src.var(n) for n in ABC}
        fs = []
        tts = []
        for _ in range(40):
            t = rng.randrange(sp.full + 1)
            f = src.false
            for a in range(sp.size):
                if (t >> a) & 1:
                    c = src.true
                    for i, n in enumerate(sp.names):
                        c = c & (vs[n] if (a >> i) & 1 else ~vs[n])
                    f = f | c
            fs.append(f)
            tts.append(t)
        out = _copy.copy_bdds_from(fs, tgt)
        single = [_copy.copy_bdd(f, tgt) for f in fs[:5]]
        meth = [src.copy(f, tgt) for f in fs[:5]]
        fn = [_auto.copy_bdd(f, tgt) for f in fs[:5]]
        tt = TT(tgt._bdd, ABC)
        for t, g in list(zip(tts, out)) + list(zip(tts, single)) + list(zip(tts, meth)) + list(zip(tts, fn)):
            ctx.evaluations += 1
            if tt.of(g.node) != t:
                ctx.violation('dd._copy / autoref copy denotes another function', dict(
                    tt=t, source_order=so, target_order=to, tags=dict(call='_copy')))
        bad = check_invariants(tgt._bdd, None, probe=True) + canon_problems(tgt._bdd, ABC)
        if bad:
            ctx.violation('target not canonical after dd._copy', dict(problems=bad[:3], tags=dict(call='_copy-target')))
        # copy_vars reproduces names and levels
        t2 = _auto.BDD()
        _auto.copy_vars(src, t2)
        if dict(t2.vars) != dict(src.vars):
            ctx.violation('copy_vars did not reproduce names and levels', dict(tags=dict(call='copy_vars')))
        # a memo SHARED by the user across several `copy_bdd` calls, with collections and new
        # nodes in the target in between (the memo must keep what it maps to alive)
        cache = dict()
        t3 = _auto.BDD()
        t3.declare(*to)
        order_k = list(range(len(fs)))
        rng.shuffle(order_k)
        for k2 in order_k[:12]:
            g3 = _copy.copy_bdd(fs[k2], t3, cache)
            ctx.evaluations += 1
            if TT(t3._bdd, ABC).of(g3.node) != tts[k2]:
                ctx.violation('dd._copy.copy_bdd with a shared memo denotes another function', dict(
                    tt=tts[k2], source_order=so, target_order=to, tags=dict(call='_copy-shared-memo')))
                break
            del g3
            t3.collect_garbage()
            # new nodes in the target: freed numbers are handed out again
            junk = [t3.add_expr(rng.choice([r'a /\ ~ b', r'b \/ c', r'~ a /\ c', r'a # b # c', r'(a => b) /\ c']))
                    for _ in range(rng.randint(0, 3))]
            if rng.random() < 0.5:
                del junk
                t3.collect_garbage()
        bad = check_invariants(t3._bdd, None, probe=True) + canon_problems(t3._bdd, ABC)
        if bad:
            ctx.violation('target not canonical after copies with a shared memo', dict(
                problems=bad[:3], tags=dict(call='_copy-shared-memo')))
        # `copy_bdds_from` into a target in which dynamic reordering is enabled and due
        t4 = _auto.BDD()
        t4.declare(*to)
        t4.configure(reordering=True)
        t4._bdd._last_len = 1
        try:
            out4 = _copy.copy_bdds_from(fs[:10], t4)
            tt4 = TT(t4._bdd, ABC)
            for t, g4 in zip(tts, out4):
                ctx.evaluations += 1
                if tt4.of(g4.node) != t:
                    ctx.violation('copy_bdds_from into a reordering-enabled target denotes another '
                                  'function', dict(tt=t, source_order=so, target_order=to,
                                                   tags=dict(call='_copy-dyn')))
                    break
        except Exception as e:  # noqa: BLE001
            ctx.violation('copy_bdds_from into a reordering-enabled target raised', dict(
                error=repr(e), source_order=so, target_order=to, tags=dict(call='_copy-dyn')))
            out4 = None
        ctx.case(('copy-module', tuple(so), tuple(to)))
        del fs, out, single, meth, fn, vs, f, c, g, cache, out4
        try:
            del junk
        except NameError:
            pass


# ---------------------------------------------------------------------------
# C13 — image / preimage
# ---------------------------------------------------------------------------

def check_C13(ctx):
    rng = ctx.rng
    names = ['x', 'xp']
    sp = Space(names)
    # exhaustive: one pair
    for order in (['x', 'xp'], ['xp', 'x']):
        s = fresh(ctx, order)
        refs = all_functions(s, sp)
        b = s.mgr(0)
        tt = TT(b, names)
        for tr in range(16):
            for st in range(16):
                for q in ([], ['x'], ['xp'], ['x', 'xp']):
                    for fa in (0, 1):
                        aslevels = rng.random() < 0.3
                        def key(n):
                            return f'l:{b.vars[n]}' if aslevels else f'n:{n}'
                        qs = ','.join(key(n) for n in q)
                        # preimage: rename target's x to xp, conjoin, quantify
                        ans = s.op(0, 'preimage', refs[tr], refs[st], f'{key("x")}={key("xp")}', qs, fa)
                        got = s.val(ans)
                        ren = sp.rename(st, {'x': 'xp'})
                        conj = tr & ren
                        want = sp.forall(conj, q) if fa else sp.exists(conj, q)
                        ctx.evaluations += 1
                        if got is None or tt.of(got) != want:
                            ctx.violation('preimage differs from quantify(trans & rename(target))', dict(
                                trans=tr, target=st, qvars=q, forall=fa, order=order, got=ans,
                                expected_tt=want, tags=dict(call='preimage')))
                        # image: conjoin, quantify, rename xp to x afterwards; precondition
                        # (x quantified or absent from the operands)
                        x_in = sp.depends(tr, 'x') or sp.depends(st, 'x')
                        if ('x' in q) or not x_in:
                            ans = s.op(0, 'image', refs[tr], refs[st], f'{key("xp")}={key("x")}', qs, fa)
                            got = s.val(ans)
                            conj = tr & st
                            qd = sp.forall(conj, q) if fa else sp.exists(conj, q)
                            want = sp.rename(qd, {'xp': 'x'})
                            ctx.evaluations += 1
                            if got is None or tt.of(got) != want:
                                ctx.violation('image differs from rename(quantify(trans & source))', dict(
                                    trans=tr, source=st, qvars=q, forall=fa, order=order, got=ans,
                                    expected_tt=want, tags=dict(call='image')))
                        else:
                            ans = s.op(0, 'image', refs[tr], refs[st], f'{key("xp")}={key("x")}', qs, fa)
                            if not ans.startswith('err'):
                                ctx.violation('image accepted a rename target in the support', dict(
                                    trans=tr, source=st, qvars=q, got=ans, tags=dict(call='image-precondition')))
            ctx.case(('one-pair', tr, tuple(order)))
        ctx.add_session(s, SECTIONS_L2, f'C13 one pair {order}')
        s.close()
    ctx.exhaustive = True
    # 2-3 pairs, dense sampling; pairs adjacent; image also on arbitrary orders
    for k in range(100 if ctx.tier == 'quick' else 600):
        if ctx.time_left() < 5:
            break
        np_ = rng.randint(2, 3)
        pairs = [(f'v{i}', f'v{i}p') for i in range(np_)]
        blocks = [list(p) if rng.random() < 0.5 else [p[1], p[0]] for p in pairs]
        rng.shuffle(blocks)
        order = [n for blk in blocks for n in blk]
        arbitrary = rng.random() < 0.3
        if arbitrary:
            rng.shuffle(order)
        allnames = sorted(order)
        if k % 3 == 2:
            # padding variables between the blocks: the pairs then sit at levels up to 12
            pads = [[f'pad{i}'] for i in range(rng.randint(4, 7))]
            if arbitrary:
                order = order + [p[0] for p in pads]
                rng.shuffle(order)
            else:
                blocks2 = blocks + pads
                rng.shuffle(blocks2)
                order = [n for blk in blocks2 for n in blk]
        spk = Space(allnames)
        s = fresh(ctx, order)
        bld = Builder(s)
        b = s.mgr(0)
        for _ in range(12):
            tr = rng.randrange(spk.full + 1)
            unpr = [p[0] for p in pairs]
            prim = [p[1] for p in pairs]
            rtr = bld.build(spk, tr)
            tt = TT(b, allnames)
            fa = rng.randint(0, 1)
            # preimage, ANY order: with a target over the unprimed variables only (the fused
            # recursion when the partners are neighbours) and with an unrestricted target
            # (it may depend on the primed variables: rename / conjoin / quantify)
            neighbours = all(abs(b.vars[u] - b.vars[p]) == 1 for u, p in pairs)
            for free_target in [False, True]:
                tg = rng.randrange(spk.full + 1)
                if not free_target:
                    for n in prim:
                        tg = spk.cof(tg, n, rng.randint(0, 1))
                rtg = bld.build(spk, tg)
                ctx.count('preimage:' + ('neighbours' if neighbours else 'not-neighbours')
                          + (':free-target' if free_target else ''))
                q = [n for n in prim if rng.random() < 0.8]
                ren = {u: p for u, p in pairs}
                ans = s.op(0, 'preimage', rtr, rtg, ','.join(f'n:{u}=n:{p}' for u, p in ren.items()),
                           ','.join('n:' + n for n in q), fa)
                got = s.val(ans)
                conj = tr & spk.rename(tg, ren)
                want = spk.forall(conj, q) if fa else spk.exists(conj, q)
                ctx.evaluations += 1
                if got is None or tt.of(got) != want:
                    ctx.violation('preimage wrong (several pairs)', dict(
                        order=order, arbitrary_order=arbitrary, free_target=free_target,
                        trans=tr, target=tg, qvars=q, forall=fa, got=ans,
                        tags=dict(call='preimage')))
            # image: source over unprimed, quantify all unprimed, rename primed -> unprimed
            so = rng.randrange(spk.full + 1)
            for n in prim:
                so = spk.cof(so, n, rng.randint(0, 1))
            rso = bld.build(spk, so)
            q = list(unpr)
            ren = {p: u for u, p in pairs}
            ans = s.op(0, 'image', rtr, rso, ','.join(f'n:{p}=n:{u}' for p, u in ren.items()),
                       ','.join('n:' + n for n in q), fa)
            got = s.val(ans)
            conj = tr & so
            qd = spk.forall(conj, q) if fa else spk.exists(conj, q)
            want = spk.rename(qd, ren)
            ctx.evaluations += 1
            if got is None or TT(b, allnames).of(got) != want:
                ctx.violation('image wrong (several pairs)', dict(
                    order=order, arbitrary_order=arbitrary, trans=tr, source=so, forall=fa, got=ans,
                    tags=dict(call='image')))
        ctx.case(('pairs', tuple(order), arbitrary))
        ctx.add_session(s, SECTIONS_L2, f'C13 pairs {order}')
        s.close()


# ---------------------------------------------------------------------------
# C18 — structural views
# ---------------------------------------------------------------------------

def eval_graph(nodes, edges, root, names_by_level, sp):
    """Truth table obtained by evaluating an exported graph from `root` (signed)."""
    lo = {}
    hi = {}
    for (u, v, val, c) in edges:
        if val:
            hi[u] = (v, c)
        else:
            lo[u] = (v, c)
    level = dict(nodes)
    memo = {}

    def node(u):
        if u not in lo and u not in hi:
            return sp.full          # terminal
        if u in memo:
            return memo[u]
        name = names_by_level[level[u]]
        mk = sp.masks[name]
        l, lc = lo[u]
        h, hc = hi[u]
        tl = node(l)
        tl = sp.neg(tl) if lc else tl
        th = node(h)
        th = sp.neg(th) if hc else th
        r = (mk & th) | (sp.neg(mk) & tl)
        memo[u] = r
        return r
    t = node(abs(root))
    return sp.neg(t) if root < 0 else t


def parse_roots(ans):
    """The `R=` section of a DOT export answer: list of (root ref, target node, complemented)."""
    body = ans[3:]
    out = []
    for part in body.split(';'):
        if part.startswith('R='):
            for item in part[2:].split(','):
                if item:
                    r, rest = item.split('>')
                    t, c = rest.split(':')
                    out.append((int(r), int(t), c == '1'))
    return out


def parse_graph(ans):
    body = ans[3:]
    ns, es = body.split(';')[:2]
    nodes = []
    for item in ns[2:].split(','):
        if item:
            u, l = item.split('@')
            nodes.append((int(u), int(l)))
    edges = []
    for item in es[2:].split(','):
        if item:
            a, rest = item.split('>')
            v, val, c = rest.split(':')
            edges.append((int(a), int(v), val == '1', c == '1'))
    return nodes, edges


def check_C18(ctx):
    import dd.autoref as _auto
    rng = ctx.rng
    sp = Space(ABC)
    for order in orders_for(ctx, ABC, quick_n=2):
        s = fresh(ctx, order)
        if rng.random() < 0.5:
            warm_up(ctx, s, ABC)
        refs = all_functions(s, sp)
        b = s.mgr(0)
        nbl = {i: v for v, i in b.vars.items()}
        from lib import reachable
        for t, r in refs.items():
            for root in (r, -r):
                want = t if root == r else sp.neg(t)
                # succ: Shannon expansion
                ans = s.op(0, 'succ', root)
                # exported graphs
                for op in ('to_nx', 'to_dot'):
                    ans = s.op(0, op, root)
                    ctx.evaluations += 1
                    if not ans.startswith('ok'):
                        ctx.violation(f'{op} raised', dict(tt=t, got=ans, tags=dict(call=op)))
                        continue
                    nodes, edges = parse_graph(ans)
                    reach = reachable(b, [root])
                    if {u for u, _ in nodes} != reach:
                        ctx.violation(f'{op}: node set differs from the reachable nodes', dict(
                            tt=t, root=root, got=ans, tags=dict(call=op)))
                    elif any(l != b._succ[u][0] for u, l in nodes):
                        ctx.violation(f'{op}: wrong level label', dict(tt=t, got=ans, tags=dict(call=op)))
                    elif eval_graph(nodes, edges, root, nbl, sp) != want:
                        ctx.violation(f'{op}: evaluating the exported graph gives another function', dict(
                            tt=t, root=root, got=ans, tags=dict(call=op)))
                ans = s.op(0, 'descendants', root)
                if ans != 'ok ' + ','.join(map(str, sorted(reachable(b, [root])))):
                    ctx.violation('descendants differs from the reachable nodes', dict(
                        tt=t, root=root, got=ans, tags=dict(call='descendants')))
            ctx.case(('views', t, order))
        # sets of roots
        keys = list(refs)
        for it in range(200):
            roots = [rng.choice([1, -1]) * refs[rng.choice(keys)] for _ in range(rng.randint(1, 4))]
            if it % 4 == 0:
                roots.append(-roots[0])          # a function together with its negation
            reach = reachable(b, roots)
            for op in ('to_nx', 'to_dot', 'descendants'):
                ans = s.op(0, op, ','.join(map(str, roots)))
                ctx.evaluations += 1
                if op == 'descendants':
                    ok = ans == 'ok ' + ','.join(map(str, sorted(reach)))
                else:
                    ok = ans.startswith('ok') and {u for u, _ in parse_graph(ans)[0]} == reach
                if not ok:
                    ctx.violation(f'{op} on a set of roots: wrong node set', dict(
                        roots=roots, got=ans, tags=dict(call=op)))
                elif op == 'to_dot':
                    # every root has its reference mark, and evaluating from it gives the root's function
                    nodes, edges = parse_graph(ans)
                    marks = parse_roots(ans)
                    tt_b = TT(b, ABC)
                    for r in set(roots):
                        mk = sorted(set(m_ for m_ in marks if m_[0] == r))
                        if len(mk) != 1:
                            ctx.violation('DOT export: missing or duplicated reference mark of a root', dict(
                                roots=roots, root=r, got=ans, tags=dict(call='to_dot-roots')))
                            break
                        _, tgt, comp = mk[0]
                        val = eval_graph(nodes, edges, -tgt if comp else tgt, nbl, sp)
                        if val != tt_b.of(r):
                            ctx.violation('DOT export: evaluating from a root mark gives another function', dict(
                                roots=roots, root=r, got=ans, tags=dict(call='to_dot-roots')))
                            break
        ans = s.op(0, 'len')
        if ans != f'ok {len(b._succ)}':
            ctx.violation('len(bdd) wrong', dict(got=ans, tags=dict(call='len')))
        ans = s.op(0, 'to_dot_all')
        if not ans.startswith('ok') or {u for u, _ in parse_graph(ans)[0]} != set(b._succ):
            ctx.violation('dump of all nodes: wrong node set', dict(got=ans[:200], tags=dict(call='to_dot_all')))
        ctx.add_session(s, SECTIONS_L2, f'C18 {order}')
        s.close()
        if ctx.time_left() < 10:
            break
    # inspect, drop, collect, rebuild (node numbers re-used), inspect again
    from lib import reachable as _reach
    for k in range(100 if ctx.tier == 'quick' else 400):
        if ctx.time_left() < 8:
            break
        names = [chr(ord('a') + i) for i in range(rng.randint(2, 4))]
        if k % 4 == 3:
            # ten or more levels: labels, ranks and node names with two digits
            from checks_core import WIDE_NAMES
            names = rng.sample(WIDE_NAMES, rng.randint(10, 12))
        h = History(ctx, names)
        for _ in range(rng.randint(15, 60) + (40 if len(names) > 4 else 0)):
            r = rng.random()
            if r < 0.45 and len(h.pool) > 2:
                roots = [h.pick() for _ in range(rng.randint(1, 2))]
                reach = _reach(h.b, roots)
                op = rng.choice(['descendants', 'to_nx', 'to_dot'])
                ans = h.s.op(0, op, ','.join(map(str, roots)))
                ctx.evaluations += 1
                if op == 'descendants':
                    ok = ans == 'ok ' + ','.join(map(str, sorted(reach)))
                else:
                    ok = ans.startswith('ok') and {u for u, _ in parse_graph(ans)[0]} == reach
                    if ok:
                        # levels and edges exactly those of the stored nodes
                        gn, ge = parse_graph(ans)
                        bb = h.b
                        ok = all(l == bb._succ[u][0] for u, l in gn)
                        want_e = set()
                        for u in reach:
                            if u == 1:
                                continue
                            _i, lo, hi = bb._succ[u]
                            want_e.add((u, abs(lo), False, lo < 0))
                            want_e.add((u, abs(hi), True, hi < 0))
                        ok = ok and set(ge) == want_e
                if not ok:
                    ctx.violation(f'{op} wrong after a history', dict(
                        roots=roots, got=ans[:300], lines=list(h.s.lines), tags=dict(call=op + '-history')))
                    break
            else:
                h.step(dict(var=3, apply=6, ite=1, hold=2, release=3, gc=4, swap=0.5))
                h.prune()
        ctx.case(('views-history', k, len(h.s.lines)))
        h.finish(SECTIONS_L2, 'C18 history')
    # the Function interface of dd.autoref: low/high/var/negated, len, dag_size, DOT root marks
    for order in orders_for(ctx, ABC, quick_n=2):
        bdd = _auto.BDD()
        bdd.declare(*order)
        vs = {n: bdd.var(n) for n in ABC}
        for t in range(0, sp.full + 1, 1 if ctx.tier == 'thorough' else 3):
            f = bdd.false
            for a in range(sp.size):
                if (t >> a) & 1:
                    c = bdd.true
                    for i, n in enumerate(sp.names):
                        c = c & (vs[n] if (a >> i) & 1 else ~vs[n])
                    f = f | c
            for g, want in ((f, t), (~f, sp.neg(t))):
                got = _expand(g, sp)
                ctx.evaluations += 1
                if got != want:
                    ctx.violation('expanding on var/high/low/negated gives another function', dict(
                        tt=want, order=order, tags=dict(call='Function.expand')))
                from lib import reachable
                nreach = len(reachable(bdd._bdd, [g.node]))
                if len(g) != nreach or g.dag_size != nreach:
                    ctx.violation('len(u)/dag_size wrong', dict(tt=want, tags=dict(call='Function.len')))
                # succ through the manager
                i, lo, hi = bdd.succ(g)
                if lo is not None:
                    t_lo = TT(bdd._bdd, ABC).of(lo.node)
                    t_hi = TT(bdd._bdd, ABC).of(hi.node)
                    mk = sp.masks[bdd.var_at_level(i)]
                    ex = (mk & t_hi) | (sp.neg(mk) & t_lo)
                    ex = sp.neg(ex) if g.negated else ex
                    if ex != want:
                        ctx.violation('succ(u) expansion gives another function', dict(
                            tt=want, tags=dict(call='succ')))
        if len(bdd) != len(bdd._bdd._succ):
            ctx.violation('len(bdd) wrong (autoref)', dict(tags=dict(call='len')))
        # len(u) after a collection that let node numbers be re-used
        for _ in range(30):
            f1 = vs[rng.choice(ABC)] & (vs[rng.choice(ABC)] | ~vs[rng.choice(ABC)])
            n1 = len(f1)
            del f1
            bdd.collect_garbage()
            f2 = (vs[rng.choice(ABC)] | vs[rng.choice(ABC)]) & vs[rng.choice(ABC)]
            from lib import reachable as _r2
            if len(f2) != len(_r2(bdd._bdd, [f2.node])) or f2.dag_size != len(f2):
                ctx.violation('len(u) wrong after a collection re-used node numbers', dict(
                    tags=dict(call='Function.len-history')))
            del f2
        # the SAME Function objects traversed, the order changed (swaps / sifting / a given
        # order), traversed again: each must still expand to its function in the new order
        keep = []
        for _ in range(12):
            t = rng.randrange(sp.full + 1)
            f = bdd.false
            for a in range(sp.size):
                if (t >> a) & 1:
                    c = bdd.true
                    for i, n in enumerate(sp.names):
                        c = c & (vs[n] if (a >> i) & 1 else ~vs[n])
                    f = f | c
            keep.append((f, t))
        for f, t in keep:
            _expand(f, sp)
        for rnd in range(4):
            how = rng.randrange(3)
            if how == 0:
                lv = rng.randrange(len(ABC) - 1)
                bdd._bdd.swap(lv, lv + 1)
            elif how == 1:
                _auto.reorder(bdd)
            else:
                perm = list(ABC)
                rng.shuffle(perm)
                _auto.reorder(bdd, {v: i for i, v in enumerate(perm)})
            for f, t in keep:
                ctx.evaluations += 1
                if _expand(f, sp) != t or _expand(~f, sp) != sp.neg(t):
                    ctx.violation('a Function traversed before a reordering expands to another '
                                  'function after it', dict(tt=t, order=order, how=how,
                                                            tags=dict(call='Function.expand-reorder')))
                    break
                if len(f) != len(reachable(bdd._bdd, [f.node])):
                    ctx.violation('len(u) wrong after a reordering', dict(
                        tt=t, tags=dict(call='Function.len-reorder')))
                    break
        del keep
        ctx.case(('function-interface', order))
        del vs, f, g, c
        try:
            del lo, hi
        except NameError:
            pass


def _expand(g, sp):
    """Truth table computed by a user-level traversal through the Function interface."""
    if g.var is None:
        return 0 if g.negated else sp.full
    mk = sp.masks[g.var]
    t = (mk & _expand(g.high, sp)) | (sp.neg(mk) & _expand(g.low, sp))
    return sp.neg(t) if g.negated else t


def _c09_copy(ctx):
    """`copy_bdd` from manager 0 into manager 1 where reordering is enabled (target holds references)."""
    rng = ctx.rng
    nv = rng.randint(3, 5)
    lines, held, names = build_scenario(ctx, nv)
    # a target with its own order and some held content
    order = names[:]
    rng.shuffle(order)
    h2 = []
    tl = ['1\tnew\t' + ','.join(f'{v}={i}' for i, v in enumerate(order))]
    lines = lines + tl
    probe = replay_lines(ctx, lines)
    for _ in range(rng.randint(0, 6)):
        a = probe.val(probe.op(1, 'var', rng.choice(names)))
        b_ = probe.val(probe.op(1, 'var', rng.choice(names)))
        r = probe.val(probe.op(1, 'apply', rng.choice(['and', 'xor', 'or']), a, -b_))
        probe.incref(1, r)
    lines = [ln.split('\tS:')[0] for ln in probe.lines]
    probe.close()
    u = rng.choice(held)
    _c09_one(ctx, lines, [], names, 'copy', 'copy', [u, 1], mid=1, op_mid=0)


def _held_var(b, name):
    """a variable node the caller holds (operands must be referenced under dynamic reordering)"""
    u = b.var(name)
    b.incref(u)
    return u


def _c09_direct(ctx):
    """Entry points that are not protocol ops: one-shot iterables as arguments, autoref.find_or_add,
    pickle load; reordering request fired at k = 1.. via the patched `_request_reordering`."""
    import dd.autoref as _auto
    import os
    rng = ctx.rng
    _bdd = implmod._bdd
    for rep in range(12 if ctx.tier == 'quick' else 60):
        names = [chr(ord('a') + i) for i in range(rng.randint(3, 5))]
        order = names[:]
        rng.shuffle(order)

        def make():
            b = _bdd.BDD()
            b.declare(*order)
            r = random_fn(b, rng2)
            b.incref(r)
            return b, r
        seed2 = rng.randrange(1 << 30)
        import random as _random
        cases = [
            ('quantify-generator', lambda b, r, qs, fa: b.quantify(r, (x for x in qs), fa)),
            ('exist-generator', lambda b, r, qs, fa: b.exist((x for x in qs), r)),
            ('forall-iter', lambda b, r, qs, fa: b.forall(iter(list(qs)), r)),
            ('cube-generator', lambda b, r, qs, fa: b.cube(x for x in qs)),
            # KEYWORD arguments through the retry wrapper (it must pass them on to both attempts)
            ('quantify-keywords', lambda b, r, qs, fa: b.quantify(u=r, qvars=set(qs), forall=fa)),
            ('quantify-forall-keyword', lambda b, r, qs, fa: b.quantify(r, set(qs), forall=fa)),
            ('exist-keywords', lambda b, r, qs, fa: b.exist(qvars=set(qs), u=r)),
            ('ite-keywords', lambda b, r, qs, fa: b.ite(g=_held_var(b, qs[0]), u=r, v=-r)),
            ('apply-keywords', lambda b, r, qs, fa: b.apply('xor', u=r, v=_held_var(b, qs[0]))),
            ('apply-w-keyword', lambda b, r, qs, fa: b.apply('ite', _held_var(b, qs[0]), r, w=-r)),
            ('cofactor-keywords', lambda b, r, qs, fa: b.cofactor(u=r, values={q: fa for q in qs})),
            ('compose-keywords', lambda b, r, qs, fa: b.compose(f=r, var_sub={qs[0]: -r})),
            ('rename-keywords', lambda b, r, qs, fa: b.rename(u=_held_var(b, qs[0]), dvars={qs[0]: [n for n in names if n != qs[0]][0]})),
            ('let-keywords', lambda b, r, qs, fa: b.let(definitions={q: fa for q in qs}, u=r)),
            ('cube-keyword', lambda b, r, qs, fa: b.cube(dvars={q: fa for q in qs})),
            ('var-keyword', lambda b, r, qs, fa: b.var(var=qs[0])),
        ]
        qs = rng.sample(names, rng.randint(1, len(names) - 1))
        fa = bool(rng.randint(0, 1))
        for label, call in cases:
            rng2 = _random.Random(seed2)
            b0, r0 = make()
            want = TT(b0, names).of(call(b0, r0, qs, fa))
            neutralise(b0)
            k = 1
            while k <= 40:
                rng2 = _random.Random(seed2)
                b, r = make()
                keep = TT(b, names).of(r)
                b.configure(reordering=True)
                implmod.set_fire(b, k)
                bad = []
                try:
                    res = call(b, r, qs, fa)
                    if TT(b, names).of(res) != want:
                        bad.append('result differs from the run with reordering disabled')
                except Exception as e:  # noqa: BLE001
                    bad.append('raised ' + implmod.err_name(e))
                fired = id(b) not in implmod._FIRE
                implmod.set_fire(b, None)
                if abs(r) not in b._succ or TT(b, names).of(r) != keep:
                    bad.append('operand changed')
                if b._last_len is None:
                    bad.append('reordering no longer enabled')
                ctx.evaluations += 1
                ctx.count('trigger:' + label)
                if bad:
                    ctx.violation(f'{label}: reordering at request {k} is visible', dict(
                        problems=bad, k=k, order=order, qvars=qs, forall=fa,
                        tags=dict(call='dyn:' + label, symptom='one-shot-iterable')))
                neutralise(b)
                ctx.case(('direct', label, k, tuple(order), tuple(qs)))
                if not fired:
                    break
                k += 1
    # autoref.find_or_add and pickle load with reordering enabled: the request must not escape
    for rep in range(8 if ctx.tier == 'quick' else 40):
        bdd = _auto.BDD()
        bdd.declare('x', 'y', 'z')
        bdd.configure(reordering=True)
        bdd._bdd._last_len = 1
        f = bdd.add_expr('y /\\ z')
        try:
            g = bdd.find_or_add('x', f, bdd.true)
            ok = TT(bdd._bdd, ['x', 'y', 'z']).of(g.node) is not None
        except Exception as e:  # noqa: BLE001
            ctx.violation('autoref.find_or_add: reordering signal or error reaches the caller', dict(
                got=implmod.err_name(e), tags=dict(call='dyn:autoref.find_or_add')))
        ctx.evaluations += 1
        ctx.case(('direct', 'autoref.find_or_add', rep))
        del f
        try:
            del g
        except NameError:
            pass
        # pickle load into a manager with reordering enabled
        src = _bdd.BDD()
        src.declare('x', 'y', 'z')
        u = src.add_expr('(x /\\ y) \\/ ~ z')
        os.makedirs(implmod.SCRATCH, exist_ok=True)
        fn = os.path.join(implmod.SCRATCH, f'c09_{os.getpid()}.p')
        try:
            src.dump(fn, roots=[u])
            want = TT(src, ['x', 'y', 'z']).of(u)
            tgt = _bdd.BDD()
            tgt.declare('x', 'y', 'z')
            tgt.configure(reordering=True)
            tgt._last_len = 1
            try:
                roots = tgt.load(fn)
                if TT(tgt, ['x', 'y', 'z']).of(roots[0]) != want:
                    ctx.violation('load with reordering enabled returns another function', dict(
                        tags=dict(call='dyn:load')))
            except Exception as e:  # noqa: BLE001
                ctx.violation('load with reordering enabled raises', dict(
                    got=implmod.err_name(e), tags=dict(call='dyn:load')))
            neutralise(tgt)
        finally:
            if os.path.exists(fn):
                os.remove(fn)
        neutralise(src)
        ctx.evaluations += 1
        ctx.case(('direct', 'load', rep))


def neutralise(b):
    """Let a manager die quietly (its `__del__` asserts on live references)."""
    try:
        b._ref = {1: 0}
        b._succ = {1: b._succ[1]}
        b._pred = {}
    except Exception:  # noqa: BLE001
        pass


def random_fn(b, rng):
    """A random function built by connectives (deterministic in `rng`)."""
    names = sorted(b.vars)
    pool = [b.var(n) for n in names]
    for _ in range(rng.randint(4, 14)):
        u, v = rng.choice(pool), rng.choice(pool)
        pool.append(b.apply(rng.choice(['and', 'or', 'xor', 'implies']), rng.choice([u, -u]), v))
    return pool[-1]


def _c09_known_witnesses(ctx):
    """Deterministic replay (fixed internal seed, independent of VERIF_SEED) of the call sites
    that were the known findings F4c (image / preimage with a request served in mid-recursion:
    scenario 1 for `image`, scenario 8 for `preimage` of this sequence raised KeyError at the
    first request).  Since the repair they are ordinary cases: every trigger position must pass."""
    import random as _random
    saved = ctx.rng
    ctx.rng = _random.Random(20260928)
    try:
        n_scen = 10 if ctx.tier == 'quick' else 40
        for it in range(n_scen):
            nv = ctx.rng.randint(4, 6)
            lines, held, names = build_scenario(ctx, nv)
            probe = replay_lines(ctx, lines)
            ops = _c09_relational(ctx.rng, held, names, probe.mgr(0))
            probe.close()
            for label, op, args in ops:
                if ctx.time_left() < 5:
                    continue
                _c09_one(ctx, lines, held, names, label, op, args)
    finally:
        ctx.rng = saved


F4D_WITNESSES = [
    # (order, conjuncts of trans as (a, b) meaning a <=> b, target as a list of names to disjoin)
    (['v0', 'v0p', 'p0', 'p1', 'p2'], [('v0', 'p2'), ('v0p', 'p0')], ['v0']),
    (['p0', 'v0', 'v0p', 'p1', 'p2'], [('v0', 'p2'), ('v0p', 'p0')], ['v0', 'p1']),
    (['p1', 'p0', 'v0', 'v0p', 'p2'], [('v0', 'p2'), ('v0p', 'p1')], ['v0', 'p0']),
    (['v0', 'v0p', 'p0', 'p1', 'p2', 'p3'], [('v0', 'p3'), ('v0p', 'p0'), ('p1', 'p2')], ['v0']),
    (['p0', 'p1', 'v0', 'v0p', 'p2', 'p3'], [('v0', 'p3'), ('v0p', 'p0')], ['v0', 'p1']),
    (['v0', 'v0p', 'v1', 'v1p', 'p0', 'p1'], [('v0', 'p1'), ('v0p', 'p0'), ('v1', 'v1p')], ['v0']),
]


def _c09_f4d_witnesses(ctx):
    """The witnesses of the former finding F4d: `preimage` in its documented use (partners
    neighbours at the call, target over the unprimed variables) with a transition relation that
    ties a variable and its partner to variables far apart — sifting then separates the partners.
    Since the repair (rename, conjoin, quantify when the partners are not neighbours) these are
    ordinary cases: every trigger position must give the function computed without reordering."""
    for order, eqs, tgt in F4D_WITNESSES:
        if ctx.time_left() < 5:
            break
        s = Session(ctx)
        s.new(0, order)
        v = {n: s.val(s.op(0, 'var', n)) for n in order}
        tr = 1
        for a, b_ in eqs:
            e = s.val(s.op(0, 'apply', 'equiv', v[a], v[b_]))
            tr = s.val(s.op(0, 'apply', 'and', tr, e))
        tg = -1
        for a in tgt:
            tg = s.val(s.op(0, 'apply', 'or', tg, v[a]))
        s.incref(0, tr)
        s.incref(0, tg)
        lines = list(s.lines)
        s.close()
        pairs = [(n, n + 'p') for n in order if n + 'p' in order]
        _c09_one(ctx, lines, [tr, tg], sorted(order), 'preimage', 'preimage',
                 [tr, tg, ','.join(f'n:{a}=n:{b_}' for a, b_ in pairs),
                  ','.join(f'n:{b_}' for _, b_ in pairs), 0])


def _c09_relational_sweeps(ctx):
    """`image` / `preimage` at EVERY trigger position: 1-3 pairs; `rename` and `qvars` given by
    name and by level; partners adjacent or anywhere; managers padded to 9-12 variables;
    operands are held references of a used manager."""
    rng = ctx.rng
    n_cfg = 12 if ctx.tier == 'quick' else 90
    for cfg in range(n_cfg):
        if ctx.time_left() < 12:
            break
        npairs = 1 + (cfg % 3) if ctx.tier == 'quick' else rng.randint(1, 3)
        pairs = [(f'v{i}', f'v{i}p') for i in range(npairs)]
        blocks = [list(p) if rng.random() < 0.5 else [p[1], p[0]] for p in pairs]
        wide = (cfg % 2 == 1)
        npad = rng.randint(9, 12) - 2 * npairs if wide else rng.randint(0, 2)
        blocks += [[f'pad{i}'] for i in range(npad)]
        rng.shuffle(blocks)
        order = [n for blk in blocks for n in blk]
        arbitrary = rng.random() < 0.4
        if arbitrary:
            rng.shuffle(order)
        h = History(ctx, order)
        core = [n for p in pairs for n in p]
        # functions over the pair variables (and a padding variable now and then)
        for n in core + [n for n in order if n.startswith('pad')][:2]:
            h.add(h.s.op(0, 'var', n))
        for _ in range(rng.randint(12, 40)):
            h.step(dict(apply=9, ite=2, hold=3))
        cand = [u for u in h.pool if abs(u) != 1]
        rng.shuffle(cand)
        for u in cand[:4]:
            if u not in h.held:
                h.hold(u)
        held = [u for u in h.held if abs(u) != 1]
        if not held:
            h.s.close()
            continue
        # a target over the unprimed variables only: the documented use of `preimage`
        tgt = h.s.val(h.s.op(0, 'quantify', rng.choice(held),
                             ','.join(f'n:{p[1]}' for p in pairs), 0))
        if tgt is not None and abs(tgt) != 1:
            h.hold(tgt)
        lines = list(h.s.lines)
        lvl = dict(h.b.vars)
        held_all = list(h.held)
        h.s.close()
        names = sorted(order)
        for bylevel in (False, True):
            def key(n):
                return f'l:{lvl[n]}' if bylevel else f'n:{n}'
            fa = rng.randint(0, 1)
            tr = rng.choice(held)
            src = rng.choice(held)
            jobs = [('image', [tr, src, ','.join(f'{key(p[1])}={key(p[0])}' for p in pairs),
                               ','.join(key(p[0]) for p in pairs), fa])]
            tg = tgt if (tgt is not None and rng.random() < 0.7) else rng.choice(held)
            jobs.append(('preimage', [tr, tg,
                                      ','.join(f'{key(p[0])}={key(p[1])}' for p in pairs),
                                      ','.join(key(p[1]) for p in pairs), fa]))
            for label, args in jobs:
                ctx.count(f'sweep:{label}:{"level" if bylevel else "name"}:'
                          f'{"any-order" if arbitrary else "adjacent"}:'
                          f'{"wide" if wide else "narrow"}:{npairs}')
                _c09_one(ctx, lines, held_all, names, label, label, args)


def _c09_relational_errors(ctx):
    """`image` / `preimage` calls that are REJECTED (a rename target that is an undeclared name:
    TypeError inside `_image`, after nodes may have been added; a key that is also a value; a
    target in the support; an invalid `qvars`), with the request firing at every position: the
    same exception class as without reordering, never the internal signal, reordering still
    enabled afterwards (the `finally` of the decorator), flag cleared, invariants, held references."""
    rng = ctx.rng
    for cfg in range(3 if ctx.tier == 'quick' else 30):
        if ctx.time_left() < 10:
            break
        order = ['x', 'xp', 'y', 'yp', 'p0'][:rng.randint(4, 5)]
        rng.shuffle(order)
        h = History(ctx, order)
        for n in order:
            h.add(h.s.op(0, 'var', n))
        for _ in range(rng.randint(10, 25)):
            h.step(dict(apply=9, ite=2, hold=3))
        cand = [u for u in h.pool if abs(u) != 1]
        rng.shuffle(cand)
        for u in cand[:3]:
            if u not in h.held:
                h.hold(u)
        held = [u for u in h.held if abs(u) != 1]
        lines = list(h.s.lines)
        lvl = dict(h.b.vars)
        h.s.close()
        if not held:
            continue
        names = sorted(order)
        tr, src = rng.choice(held), rng.choice(held)
        fa = rng.randint(0, 1)
        jobs = [
            ('image', [tr, src, 'n:xp=n:zz', 'n:x', fa]),                 # undeclared target
            ('image', [tr, src, f'l:{lvl["xp"]}=n:zz,n:yp=n:y', 'n:x,n:y', fa]),
            ('preimage', [tr, src, 'n:x=n:zz', 'n:xp', fa]),
            ('image', [tr, src, 'n:xp=n:x,n:x=n:xp', 'n:x', fa]),         # overlap
            ('image', [tr, src, 'n:xp=n:x', '', fa]),                     # target in the support?
            ('image', [tr, src, 'n:xp=n:x', 'n:zz', fa]),                 # invalid qvars
            ('preimage', [tr, src, 'n:x=n:xp', 'l:17', fa]),
            ('preimage', [tr, src, 'n:x=l:9', 'n:xp', fa]),               # value below the bottom
            # the rename / conjoin / quantify branch (some partners not neighbours) with a value
            # that is an undeclared name, below the bottom, negative
            ('preimage', [tr, src, 'n:x=n:zz,n:y=n:xp', 'n:xp', fa]),
            ('preimage', [tr, src, f'l:{lvl["y"]}=l:9,n:x=n:yp', 'n:yp', fa]),
            ('preimage', [tr, src, 'n:x=l:-1,n:y=n:xp', 'n:xp', fa]),
            ('preimage', [tr, src, 'n:x=l:-3', '', fa]),
        ]
        def unvalidated(args):
            """A rename VALUE that is an undeclared name or a level outside the order is validated
            nowhere by `image` / `preimage`: it raises (TypeError / KeyError) only if the recursion
            reaches a node at the key's level on the branch it takes, and which branch is taken
            (fused recursion or rename-conjoin-quantify) depends on the order.  For these calls
            — outside every documented precondition — whether the call raises may legitimately
            depend on a reordering; C09 speaks of the references that are RETURNED and C17 of
            the state after a failure, and both are still checked below."""
            for pair in args[2].split(','):
                if '=' not in pair:
                    continue
                v = pair.split('=')[1]
                if v.startswith('n:') and v[2:] not in lvl:
                    return True
                if v.startswith('l:') and not (0 <= int(v[2:]) < len(lvl)):
                    return True
            return False

        for op, args in jobs:
            ref_s = replay_lines(ctx, lines)
            b0 = ref_s.mgr(0)
            held_tt = {u: TT(b0, names).of(u) for u in held}
            ans0 = ref_s.op(0, op, *args)
            ctx.add_session(ref_s, SECTIONS_L3, f'C09 rejected {op} reference')
            ref_s.close()
            if not ans0.startswith('err'):
                continue
            k = 1
            while k <= 40:
                s = replay_lines(ctx, lines)
                b = s.mgr(0)
                s.op(0, 'configure', 1)
                s.op(0, 'fire_in', k)
                ans = s.op(0, op, *args)
                fired = id(b) not in implmod._FIRE
                s.op(0, 'fire_off')
                bad = []
                tags = dict(call='dyn:' + op + '-rejected')
                if ans == 'err NeedsReordering':
                    bad.append('the internal reordering signal was raised to the caller')
                elif ans != ans0:
                    if unvalidated(args):
                        ctx.count('rejected-outcome-depends-on-order:' + op)
                    else:
                        bad.append(f'{ans0} without reordering, {ans} with a request at {k}')
                if b._last_len is None:
                    bad.append('reordering is no longer enabled afterwards')
                if b._reordering_context:
                    bad.append('context flag left set')
                tt = TT(b, names)
                for u, t in held_tt.items():
                    if abs(u) not in b._succ:
                        bad.append(f'held reference {u} deleted')
                    elif tt.of(u) != t:
                        bad.append(f'held reference {u} changed')
                bad += check_invariants(b, s.ledger.get(0, {}))
                ctx.evaluations += 1
                ctx.count('trigger:rejected-' + op)
                if bad:
                    ctx.violation(f'rejected {op}: reordering at request {k} is visible', dict(
                        problems=bad[:4], k=k, op=op, args=args, lines=list(s.lines), tags=tags))
                s.state(0)
                ctx.add_session(s, SECTIONS_L3, f'C09 rejected {op} k={k}')
                s.close()
                ctx.case(('trigger-rejected', op, k, tuple(lines[-2:]), tuple(map(str, args))))
                if not fired:
                    break
                k += 1

