"""C05 — `add_expr` gives each formula its documented meaning; `to_expr` round-trips.

(a) parser correspondence: the Lean Pratt model (`lean/DD/Parse.lean`, driver
    `ddvparse`) against the real `dd._parser.Parser` on every token string up to a
    length over the full token alphabet, on every short character string over the
    lexer's special characters (`lex` op), and on grammar-generated formulas with
    random spellings, comments and redundant parentheses;
(b) `add_expr` through protocol lines on `dd.bdd` (exact references and state compared
    with the model) and on `dd.autoref` (oracle only), every order of 3 variables,
    `@n` of both signs;
(c) oracle: `DocParser`, a recursive-descent reader written from `doc.md` (one function
    per documented precedence level) evaluated over truth tables;
(d) `add_expr(to_expr(u)) == u`;
(e) syntax errors at every token position leave the manager consistent, and the next
    valid formula parses (the translator is a cached singleton).
"""
import fcntl
import itertools
import multiprocessing
import os
import re
import subprocess

import lib
from lib import Session, TT, check_invariants, SECTIONS_L2, SECTIONS_L3
from funcs import Space, Builder
import impl as implmod
from checks_core import orders_for, fresh, all_functions, ABC

import dd._parser as _prs  # noqa: E402  (sys.path set by impl)

DRIVER = 'ddvparse'


# ---------------------------------------------------------------------------
# protocol: escaping, ops on the real code
# ---------------------------------------------------------------------------

def esc(s):
    return ''.join(
        c if (' ' <= c and c not in '%\x7f') else '%%%02X' % ord(c)
        for c in s)


def unesc(s):
    return re.sub(r'%([0-9A-Fa-f]{2})', lambda m: chr(int(m.group(1), 16)), s)


def real_sexp(t):
    """Canonical text of an `astutils` tree (same format as `Ast.sexp` in Lean)."""
    ty = getattr(t, 'type', None)
    if ty == 'operator':
        op = t.operator
        if op in ('\\A', '\\E'):
            names, e = t.operands
            return '(%s [%s] %s)' % (op, ','.join(x.value for x in names), real_sexp(e))
        if op == '\\S':
            e, subs = t.operands
            return '(\\S %s [%s])' % (
                real_sexp(e), ','.join(f'{old.value}>{new.value}' for old, new in subs))
        return '(' + op + ' ' + ' '.join(real_sexp(x) for x in t.operands) + ')'
    if ty == 'bool':
        return 'bool:' + t.value.lower()
    return f'{ty}:{t.value}'


_PARSER = []


def real_parser():
    if not _PARSER:
        _PARSER.append(_prs.Parser())
    return _PARSER[0]


def real_parse_answer(formula):
    try:
        return 'ok ' + real_sexp(real_parser().parse(formula))
    except Exception as e:  # noqa: BLE001
        return 'err ' + implmod.err_name(e)


def _op_parse(impl, mid, a):
    return real_sexp(real_parser().parse(unesc(a[0]) if a else ''))


_KEYWORD_TYPES = ('TRUE', 'FALSE', 'ITE')


def real_lex_answer(text):
    lx = real_parser()._lexer.lexer
    lx.input(text)
    out = []
    while True:
        try:
            tok = lx.token()
        except RuntimeError:
            out.append('BAD')
            break
        if tok is None:
            break
        out.append(tok.type if tok.type in _KEYWORD_TYPES else f'{tok.type}:{tok.value}')
    return ' '.join(out)


def _op_lex(impl, mid, a):
    return real_lex_answer(unesc(a[0]) if a else '')


def _op_add_expr(impl, b, a):
    return str(b.add_expr(unesc(a[0]) if a else ''))


implmod.EXT_LINE_OPS['parse'] = _op_parse
implmod.EXT_LINE_OPS['lex'] = _op_lex
implmod.EXT_OPS['add_expr'] = _op_add_expr


class Bulk:
    """A light stand-in for a `Session` (lines + implementation answers)."""

    def __init__(self):
        self.lines = []
        self.answers = []


def build_driver(ctx):
    lockf = open(os.path.join(lib.WORK, 'lake.lock'), 'w')
    fcntl.flock(lockf, fcntl.LOCK_EX)
    try:
        p = subprocess.run(['lake', 'build', DRIVER], cwd=lib.LEAN, text=True,
                           stdout=subprocess.PIPE, stderr=subprocess.STDOUT, timeout=3000)
        if p.returncode != 0:
            ctx.disagreements.append(dict(kind='driver', error='lake build ddvparse failed: ' + p.stdout[-2000:]))
    finally:
        fcntl.flock(lockf, fcntl.LOCK_UN)
        lockf.close()


# ---------------------------------------------------------------------------
# the documented syntax (transcribed from doc.md) and an independent reader
# ---------------------------------------------------------------------------

# precedence, lowest first, as listed in doc.md ("The token precedence (lowest to
# highest) and associativity is"): `:`, then these binary levels, then `~ !`, then unary minus
DOC_LEVELS = [
    ('<->', ['<=>', '<->']),
    ('=>', ['=>', '->']),
    ('-', ['-']),
    ('#', ['#', '^']),
    ('|', ['\\/', '|']),
    ('&', ['/\\', '&']),
    ('=', ['=']),
]
DOC_NOT = ['~', '!']
# spellings the code accepts and doc.md does not list (documentation discrepancy)
CODE_ONLY = {'&&': '&', '||': '|'}
CODE_ONLY_BOOL = {'True': True, 'False': False}
DOC_BOOL = {'TRUE': True, 'FALSE': False}

CANON = {}
for _i, (_c, _sps) in enumerate(DOC_LEVELS):
    for _s in _sps:
        CANON[_s] = (_i, _c if _c != '#' else _s)
CANON['&&'] = CANON['&']
CANON['||'] = CANON['|']
LEVEL_OF = {'<->': 1, '=>': 2, '-': 3, '#': 4, '^': 4, '|': 5, '&': 6, '=': 7}
SPELL = {
    '<->': ['<=>', '<->'], '=>': ['=>', '->'], '-': ['-'], '#': ['#'], '^': ['^'],
    '|': ['\\/', '|'], '&': ['/\\', '&'], '=': ['='], '!': ['~', '!'],
}
SPELL_CODE = dict(SPELL)
SPELL_CODE['|'] = SPELL['|'] + ['||']
SPELL_CODE['&'] = SPELL['&'] + ['&&']

_TOKEN_RE = re.compile(r'''
      (?P<ws>[\ \t\n]+)
    | (?P<c1>\\\*[^\n]*)
    | (?P<c2>\(\*.*?\*\))
    | (?P<name>[A-Za-z_][A-Za-z0-9_']*)
    | (?P<num>[0-9]+)
    | (?P<op><=>|<->|=>|->|/\\|\\/|\\A|\\E|\\S|&&|\|\||[&|!~\#^=\-/@:(),])
''', re.X | re.S)


class Reject(Exception):
    pass


def doc_tokens(text):
    pos = 0
    out = []
    while pos < len(text):
        m = _TOKEN_RE.match(text, pos)
        if m is None:
            raise Reject(f'illegal character at {pos}')
        pos = m.end()
        k = m.lastgroup
        if k in ('ws', 'c1', 'c2'):
            continue
        out.append((k, m.group(k)))
    return out


class DocParser:
    """Recursive descent, one function per documented precedence level; binder bodies
    (`\\A \\E \\S names : expr`) extend as far to the right as possible."""

    def __init__(self, toks):
        self.t = toks
        self.i = 0

    def peek(self):
        return self.t[self.i] if self.i < len(self.t) else (None, None)

    def take(self, kind=None, text=None):
        k, s = self.peek()
        if k is None or (kind is not None and k != kind) or (text is not None and s != text):
            raise Reject(f'expected {kind} {text} at {self.i}')
        self.i += 1
        return s

    def parse(self):
        e = self.level(0)
        if self.i != len(self.t):
            raise Reject('trailing input')
        return e

    def level(self, i):
        if i == len(DOC_LEVELS):
            return self.unary()
        left = self.level(i + 1)
        while True:
            k, s = self.peek()
            if k == 'op' and s in CANON and CANON[s][0] == i:
                self.i += 1
                right = self.level(i + 1)
                left = ('bin', CANON[s][1], left, right)
            else:
                return left

    def name(self):
        s = self.take('name')
        if s in DOC_BOOL or s in CODE_ONLY_BOOL or s == 'ite':
            raise Reject('reserved word used as a name')
        return s

    def names(self):
        out = [self.name()]
        while self.peek() == ('op', ','):
            self.i += 1
            out.append(self.name())
        return out

    def unary(self):
        k, s = self.peek()
        if k == 'op' and s in DOC_NOT:
            self.i += 1
            return ('not', self.unary())
        if k == 'op' and s in ('\\A', '\\E'):
            self.i += 1
            ns = self.names()
            self.take('op', ':')
            return ('q', s, ns, self.level(0))
        if k == 'op' and s == '\\S':
            self.i += 1
            subs = []
            while True:
                new = self.name()
                self.take('op', '/')
                old = self.name()
                subs.append((new, old))
                if self.peek() == ('op', ','):
                    self.i += 1
                    continue
                break
            self.take('op', ':')
            return ('S', subs, self.level(0))
        return self.atom()

    def atom(self):
        k, s = self.peek()
        if k == 'name':
            self.i += 1
            if s in DOC_BOOL:
                return ('bool', DOC_BOOL[s])
            if s in CODE_ONLY_BOOL:
                return ('bool', CODE_ONLY_BOOL[s])
            if s == 'ite':
                self.take('op', '(')
                a = self.level(0)
                self.take('op', ',')
                b = self.level(0)
                self.take('op', ',')
                c = self.level(0)
                self.take('op', ')')
                return ('ite', a, b, c)
            return ('var', s)
        if k == 'op' and s == '(':
            self.i += 1
            e = self.level(0)
            self.take('op', ')')
            return e
        if k == 'op' and s == '@':
            self.i += 1
            if self.peek() == ('op', '-'):
                self.i += 1
                return ('num', '-' + self.take('num'))
            return ('num', self.take('num'))
        raise Reject(f'operand expected at {self.i}')


def doc_parse(text):
    return DocParser(doc_tokens(text)).parse()


def ast_sexp(e):
    k = e[0]
    if k == 'var':
        return 'var:' + e[1]
    if k == 'bool':
        return 'bool:true' if e[1] else 'bool:false'
    if k == 'num':
        return 'num:' + e[1]
    if k == 'not':
        return '(! ' + ast_sexp(e[1]) + ')'
    if k == 'bin':
        return '(%s %s %s)' % (e[1], ast_sexp(e[2]), ast_sexp(e[3]))
    if k == 'ite':
        return '(ite %s %s %s)' % tuple(ast_sexp(x) for x in e[1:])
    if k == 'q':
        return '(%s [%s] %s)' % (e[1], ','.join(e[2]), ast_sexp(e[3]))
    if k == 'S':
        return '(\\S %s [%s])' % (ast_sexp(e[2]), ','.join(f'{old}>{new}' for new, old in e[1]))
    raise ValueError(e)


class NoMeaning(Exception):
    """The documentation gives the formula no value (undeclared name, bad node, `=`)."""


def doc_eval(e, sp, node_tt):
    """Truth table of a syntax tree, with the meanings listed in doc.md / `_abc.py`."""
    k = e[0]
    if k == 'var':
        if e[1] not in sp.masks:
            raise NoMeaning('undeclared ' + e[1])
        return sp.var(e[1])
    if k == 'bool':
        return sp.full if e[1] else 0
    if k == 'num':
        return node_tt(int(e[1]))
    if k == 'not':
        return sp.neg(doc_eval(e[1], sp, node_tt))
    if k == 'bin':
        a = doc_eval(e[2], sp, node_tt)
        b = doc_eval(e[3], sp, node_tt)
        op = e[1]
        if op == '&':
            return a & b
        if op == '|':
            return a | b
        if op in ('#', '^'):
            return a ^ b
        if op == '=>':
            return sp.neg(a) | b
        if op == '<->':
            return sp.neg(a ^ b)
        if op == '-':
            return a & sp.neg(b)
        raise NoMeaning(op)
    if k == 'ite':
        a, b, c = (doc_eval(x, sp, node_tt) for x in e[1:])
        return sp.ite(a, b, c)
    if k == 'q':
        body = doc_eval(e[3], sp, node_tt)
        for v in e[2]:
            if v not in sp.masks:
                raise NoMeaning('undeclared ' + v)
        return sp.forall(body, e[2]) if e[1] == '\\A' else sp.exists(body, e[2])
    if k == 'S':
        body = doc_eval(e[2], sp, node_tt)
        ren = {}
        for new, old in e[1]:
            if old not in sp.masks:
                # renaming a name that is not a variable of the manager: nothing to rename
                continue
            if new not in sp.masks:
                raise NoMeaning('undeclared in renaming')
            ren[old] = new
        return sp.rename(body, ren)
    raise ValueError(e)


# ---------------------------------------------------------------------------
# printing formulas from syntax trees (generator side; independent of the Lean printer)
# ---------------------------------------------------------------------------

def ast_level(e):
    k = e[0]
    if k == 'bin':
        return LEVEL_OF[e[1]]
    if k == 'not':
        return 8
    if k in ('q', 'S'):
        return 0
    return 9


class Printer:
    """Tokens of a tree with the parentheses the documented precedence requires, plus
    optional redundant ones; spellings, spacing and comments drawn at random."""

    def __init__(self, rng, redundant=0.0, code_spellings=True, comments=0.0, tight=0.0,
                 open_binders=0.5):
        self.rng = rng
        self.redundant = redundant
        self.code = code_spellings
        self.comments = comments
        self.tight = tight
        self.open_binders = open_binders

    def sp(self, canon):
        table = SPELL_CODE if self.code else SPELL
        return self.rng.choice(table[canon])

    def toks(self, e, need, open_right):
        """`need` = lowest level that may stand here unparenthesised; `open_right` = nothing
        but a closing token follows this sub-formula."""
        lv = ast_level(e)
        paren = lv < need
        if lv == 0 and need > 0 and open_right and self.rng.random() < self.open_binders:
            paren = False
        if not paren and self.rng.random() < self.redundant:
            paren = True
        if paren:
            # any number of pairs (`C05_parse_printTop`: `ex e` redundant pairs)
            k = 1
            while k < 4 and self.rng.random() < self.redundant * 0.6:
                k += 1
            return ['('] * k + self.raw(e, True) + [')'] * k
        return self.raw(e, open_right)

    def raw(self, e, open_right):
        k = e[0]
        if k == 'var':
            return [e[1]]
        if k == 'bool':
            if self.code and self.rng.random() < 0.3:
                return ['True' if e[1] else 'False']
            return ['TRUE' if e[1] else 'FALSE']
        if k == 'num':
            if e[1].startswith('-'):
                return ['@', '-', e[1][1:]]
            return ['@', e[1]]
        if k == 'not':
            return [self.sp('!')] + self.toks(e[1], 8, open_right)
        if k == 'bin':
            q = LEVEL_OF[e[1]]
            return self.toks(e[2], q, False) + [self.sp(e[1])] + self.toks(e[3], q + 1, open_right)
        if k == 'ite':
            return (['ite', '('] + self.toks(e[1], 0, True) + [','] + self.toks(e[2], 0, True)
                    + [','] + self.toks(e[3], 0, True) + [')'])
        if k == 'q':
            out = [e[1]]
            for i, v in enumerate(e[2]):
                if i:
                    out.append(',')
                out.append(v)
            return out + [':'] + self.toks(e[3], 0, open_right)
        if k == 'S':
            out = ['\\S']
            for i, (new, old) in enumerate(e[1]):
                if i:
                    out.append(',')
                out += [new, '/', old]
            return out + [':'] + self.toks(e[2], 0, open_right)
        raise ValueError(e)

    def text(self, e):
        return self.join(self.toks(e, 0, True))

    def gap(self, a, b):
        """Separator between tokens `a` and `b`."""
        r = self.rng.random()
        if r < self.comments:
            c = self.rng.randrange(6)
            if c == 4:
                # glued to both tokens; also separates texts that would need a blank
                return '(*' + self.rng.choice(['', 'c', ' a * ', '(* x']) + '*)'
            if c == 5 and a != '/':
                # `/\\*` would be the conjunction: the only text a `\\*` comment may not follow
                return '\\*' + self.rng.choice(['', ' t', 'a & b )', '*)']) + '\n'
            if c == 5:
                return ' '
            if c == 0:
                return ' (* ' + self.rng.choice(['c', 'a /\\ b', '* ( *', '@@ $ %', 'x\ny']) + ' *) '
            if c == 1:
                return ' \\* ' + self.rng.choice(['trailing', 'a & b )', '(* open', '$%']) + '\n'
            if c == 2:
                return '\n\t '
            return '(**)'
        if r < self.comments + self.tight and not needs_space(a, b):
            return ''
        return ' '

    def join(self, toks):
        out = []
        for i, t in enumerate(toks):
            if i:
                out.append(self.gap(toks[i - 1], t))
            out.append(t)
        s = ''.join(out)
        if self.rng.random() < self.comments:
            s = s + self.rng.choice([' \\* end', ' (* end *)', '\n', '  '])
        return s


_WORD = re.compile(r"[A-Za-z0-9_']")


def needs_space(a, b):
    """Whether gluing the token texts would change the token sequence."""
    if _WORD.match(a[-1]) and _WORD.match(b[0]):
        return True
    glued = a + b
    try:
        return [s for _k, s in doc_tokens(glued)] != [a, b]
    except Reject:
        return True


def random_ast(rng, depth, names, nodes, allow_eq=False, binder_names=None):
    """A random tree; `nodes` = references usable after `@`."""
    binder_names = binder_names or names
    if depth <= 0 or rng.random() < 0.18:
        r = rng.random()
        if r < 0.65 or (not nodes and r < 0.85):
            return ('var', rng.choice(names))
        if r < 0.85:
            return ('num', str(rng.choice(nodes)))
        return ('bool', rng.random() < 0.5)
    r = rng.random()
    if r < 0.55:
        ops = ['<->', '=>', '-', '#', '^', '|', '&'] + (['='] if allow_eq else [])
        return ('bin', rng.choice(ops), random_ast(rng, depth - 1, names, nodes, allow_eq, binder_names),
                random_ast(rng, depth - 1, names, nodes, allow_eq, binder_names))
    if r < 0.70:
        return ('not', random_ast(rng, depth - 1, names, nodes, allow_eq, binder_names))
    if r < 0.78:
        return ('ite',) + tuple(random_ast(rng, depth - 1, names, nodes, allow_eq, binder_names) for _ in range(3))
    if r < 0.92:
        k = rng.randint(1, min(2, len(binder_names)))
        return ('q', rng.choice(['\\A', '\\E']), rng.sample(binder_names, k),
                random_ast(rng, depth - 1, names, nodes, allow_eq, binder_names))
    k = rng.randint(1, min(2, len(binder_names)))
    olds = rng.sample(binder_names, k)
    return ('S', [(rng.choice(binder_names), o) for o in olds],
            random_ast(rng, depth - 1, names, nodes, allow_eq, binder_names))


# ---------------------------------------------------------------------------
# (a) parser correspondence
# ---------------------------------------------------------------------------

TOKEN_ALPHABET = ['(', ')', ',', '~', '&', '|', '#', '^', '=>', '<=>', '=', '-', '/', '@', ':',
                  '\\A', '\\E', '\\S', 'x', '7', 'ite', 'TRUE', 'FALSE']

LEX_ALPHABET = list("&|/\\<=>-~!#^:,@()*a1' \n") + ['$', '.', 'A']


def _enum_shard(args):
    """Worker: real-parser answers of one shard of the token strings of length `n`."""
    n, first = args
    import impl  # noqa: F401  (path setup)
    out = []
    for rest in itertools.product(TOKEN_ALPHABET, repeat=n - 1):
        s = ' '.join((first,) + rest)
        out.append((s, real_parse_answer(s)))
    return out


def enum_token_strings(ctx, bulk, n, sample=None, procs=1):
    """All token strings of length `n` (or the shards listed in `sample`)."""
    firsts = TOKEN_ALPHABET if sample is None else sample
    cnt = 0
    bad = 0
    if procs > 1:
        with multiprocessing.Pool(procs) as pool:
            results = pool.map(_enum_shard, [(n, f) for f in firsts])
    else:
        results = [_enum_shard((n, f)) for f in firsts]
    for res in results:
        for s, ans in res:
            bulk.lines.append('0\tparse\t' + esc(s))
            bulk.answers.append(ans)
            cnt += 1
    return cnt, bad


def oracle_on_string(ctx, s, ans, where):
    """The documented reading of `s` against the real parser's tree."""
    try:
        want = 'ok ' + ast_sexp(doc_parse(s))
    except Reject:
        want = None
    if want is None:
        if ans.startswith('ok'):
            ctx.notes.append(f'real parser accepts a string outside the documented grammar: {s!r}')
            ctx.count('accepted-outside-doc')
        return
    if ans != want:
        ctx.violation('formula not read with the documented precedence', dict(
            formula=s, expected_tree=want, got=ans, where=where,
            tags=dict(call='parse', kind='precedence')))


def part_a(ctx):
    rng = ctx.rng
    bulk = Bulk()
    thorough = ctx.tier == 'thorough'
    procs = min(12, os.cpu_count() or 1)
    # every token string up to length 4 (quick) / 5 (thorough), a shard of the next length
    top = 5 if thorough else 4
    total = 0
    for n in range(0, top + 1):
        if n == 0:
            bulk.lines.append('0\tparse\t')
            bulk.answers.append(real_parse_answer(''))
            total += 1
            continue
        c, _ = enum_token_strings(ctx, bulk, n, procs=(procs if n >= 4 else 1))
        total += c
    k = ctx.seed % len(TOKEN_ALPHABET)
    shard = [TOKEN_ALPHABET[k]]
    if thorough:
        c, _ = enum_token_strings(ctx, bulk, top + 1, sample=shard, procs=procs)
        total += c
    else:
        # a sample of length 5 and 6
        for _ in range(30000):
            n = rng.choice((5, 6))
            s = ' '.join(rng.choice(TOKEN_ALPHABET) for _ in range(n))
            bulk.lines.append('0\tparse\t' + esc(s))
            bulk.answers.append(real_parse_answer(s))
            total += 1
    ctx.count('token-strings', total)
    ctx.evaluations += total
    ctx.case(('token-strings', top, tuple(shard)))
    # the documented reading on the accepted ones and on a sample of the rejected ones
    acc = 0
    for ln, ans in zip(bulk.lines, bulk.answers):
        if ans.startswith('ok') or rng.random() < 0.02:
            oracle_on_string(ctx, unesc(ln.split('\t', 2)[2]), ans, 'token-enumeration')
            acc += ans.startswith('ok')
    ctx.count('token-strings-accepted', acc)
    # lexer: every character string up to length 3 (+ a sample of 4, 5) over the special characters
    nlex = 0
    for n in range(0, 4 if not thorough else 5):
        for cs in itertools.product(LEX_ALPHABET, repeat=n):
            s = ''.join(cs)
            bulk.lines.append('0\tlex\t' + esc(s))
            bulk.answers.append('ok ' + real_lex_answer(s))
            nlex += 1
    for _ in range(20000 if not thorough else 300000):
        s = ''.join(rng.choice(LEX_ALPHABET) for _ in range(rng.choice((4, 5, 6, 8))))
        bulk.lines.append('0\tlex\t' + esc(s))
        bulk.answers.append('ok ' + real_lex_answer(s))
        nlex += 1
    for s in ['(* a *) b (* c *)', '(* a \n b *) c', '\\* x (* \n y *)', 'a(*)b', '(**)', '(***)', '(*(*a*)*)',
              'a\rb', 'a\x0cb', 'a\x0bb', '٣', '@٣', 'café', '(* café ٣ *) a', "a'", "'a",
              'ite1', 'iTe', 'TRUEx', 'True', 'true', 'FALSE', 'False', 'false', '_', "_'9", '9a', 'a.b', '00012',
              'a\tb', '\\*', '\\* \n\n\\* x\ny', '-->', '<=>=>', '<->->', '<-', '<=', '&&&', '|||', '/\\/\\/', '\\/\\',
              '\\AA', '\\Ea', '\\S\\S', '\\a', '\\']:
        bulk.lines.append('0\tlex\t' + esc(s))
        bulk.answers.append('ok ' + real_lex_answer(s))
        nlex += 1
    ctx.count('lexer-strings', nlex)
    ctx.evaluations += nlex
    ctx.case(('lexer-strings', nlex))
    # grammar-generated formulas
    names = ['a', 'b', 'c', "x'", '_y1', 'ite_', 'TRUEish']
    ngen = 6000 if not thorough else 120000
    for i in range(ngen):
        depth = rng.randint(1, 6)
        e = random_ast(rng, depth, names, [1, 2, 17, -1, -3, 0], allow_eq=True)
        pr = Printer(rng, redundant=rng.choice((0.0, 0.1, 0.4)), code_spellings=True,
                     comments=rng.choice((0.0, 0.15)), tight=rng.choice((0.0, 0.5)))
        s = pr.text(e)
        ans = real_parse_answer(s)
        want = 'ok ' + ast_sexp(e)
        bulk.lines.append('0\tparse\t' + esc(s))
        bulk.answers.append(ans)
        ctx.evaluations += 1
        if ans != want:
            ctx.violation('generated formula not read as its syntax tree', dict(
                formula=s, expected_tree=want, got=ans,
                tags=dict(call='parse', kind='generated')))
        if i < 200:
            ctx.case(('gen', s))
    ctx.count('generated-formulas', ngen)
    ctx.add_session(bulk, SECTIONS_L2, 'C05 parser correspondence')


# ---------------------------------------------------------------------------
# (b), (c) add_expr: model correspondence + oracle
# ---------------------------------------------------------------------------

def add_expr_checked(ctx, s, tt, sp, formula, where, expect_tree=None):
    """Run `add_expr` on the session and compare with the documented meaning."""
    ans = s.op(0, 'add_expr', esc(formula))
    ctx.evaluations += 1
    try:
        tree = doc_parse(formula)
    except Reject:
        tree = None
    if expect_tree is not None and tree != expect_tree:
        ctx.violation('oracle reader disagrees with the generator (harness defect?)', dict(
            formula=formula, tags=dict(call='harness')))
    got = s.val(ans)
    if tree is None:
        if got is not None:
            ctx.notes.append(f'add_expr accepts a string outside the documented grammar: {formula!r}')
        return ans
    b = s.mgr(0)

    def node_tt(i):
        if abs(i) not in b._succ:
            raise NoMeaning(f'node {i}')
        return tt.of(i)
    try:
        # `@n` denotes the node as it is *now*
        tt.memo = {}
        want = doc_eval(tree, sp, node_tt)
    except NoMeaning:
        if got is not None:
            ctx.violation('add_expr returns a node for a formula without documented meaning', dict(
                formula=formula, got=ans, where=where, tags=dict(call='add_expr', kind='no-meaning')))
        return ans
    tt.memo = {}
    if got is None or tt.of(got) != want:
        ctx.violation('add_expr: result differs from the documented meaning', dict(
            formula=formula, got=ans, expected_tt=want, where=where,
            order=[b._level_to_var[i] for i in range(len(b.vars))],
            tags=dict(call='add_expr', kind='meaning')))
    return ans


BIN_SEM = ['<->', '=>', '-', '#', '^', '|', '&']


def precedence_formulas(rng, code_spellings=False):
    """`a op1 b op2 c` for all operator pairs (both orders), with prefix operators and binders
    in every operand position; the expected tree is built from the documented precedence list."""
    table = SPELL_CODE if code_spellings else SPELL
    out = []

    def tree3(o1, o2, x, y, z):
        l1, l2 = LEVEL_OF[o1], LEVEL_OF[o2]
        if l1 >= l2:      # left associative, or the first binds tighter
            return ('bin', o2, ('bin', o1, x, y), z)
        return ('bin', o1, x, ('bin', o2, y, z))
    va, vb, vc = ('var', 'a'), ('var', 'b'), ('var', 'c')
    for o1 in BIN_SEM:
        for o2 in BIN_SEM:
            for s1 in table[o1]:
                for s2 in table[o2]:
                    out.append((f'a {s1} b {s2} c', tree3(o1, o2, va, vb, vc)))
            s1, s2 = rng.choice(table[o1]), rng.choice(table[o2])
            nt = rng.choice(SPELL['!'])
            # negation binds tighter than every binary operator
            out.append((f'{nt} a {s1} b {s2} {nt} c', tree3(o1, o2, ('not', va), vb, ('not', vc))))
            out.append((f'a {s1} {nt} b {s2} c', tree3(o1, o2, va, ('not', vb), vc)))
            # a binder body extends to the right as far as possible
            q = rng.choice(['\\A', '\\E'])
            out.append((f'a {s1} {q} b: b {s2} c', ('bin', o1, va, ('q', q, ['b'], ('bin', o2, vb, vc)))))
            out.append((f'{q} a: a {s1} b {s2} c', ('q', q, ['a'], tree3(o1, o2, va, vb, vc))))
            out.append((f'({q} a: a {s1} b) {s2} c', ('bin', o2, ('q', q, ['a'], ('bin', o1, va, vb)), vc)))
            out.append((f'{nt} {q} a: a {s1} b {s2} c', ('not', ('q', q, ['a'], tree3(o1, o2, va, vb, vc)))))
            out.append((f'\\S c / a: a {s1} b {s2} b', ('S', [('c', 'a')], tree3(o1, o2, va, vb, vb))))
            out.append((f'b {s1} \\S c / a, a / c: a {s2} c',
                        ('bin', o1, vb, ('S', [('c', 'a'), ('a', 'c')], ('bin', o2, va, vc)))))
            out.append((f'ite(a {s1} b {s2} c, b {s2} c {s1} a, c) {s1} a',
                        ('bin', o1, ('ite', tree3(o1, o2, va, vb, vc), tree3(o2, o1, vb, vc, va), vc), va)))
        # left associativity of one operator, four operands
        for s1 in table[o1]:
            out.append((f'a {s1} b {s1} c {s1} a',
                        ('bin', o1, ('bin', o1, ('bin', o1, va, vb), vc), va)))
    return out


def part_bc(ctx):
    rng = ctx.rng
    sp = Space(ABC)
    thorough = ctx.tier == 'thorough'
    perms = list(itertools.permutations(ABC))
    prec = precedence_formulas(rng)
    prec_code = precedence_formulas(rng, code_spellings=True)
    for oi, order in enumerate(perms):
        s = fresh(ctx, order)
        b = s.mgr(0)
        tt = TT(b, ABC)
        # some existing nodes for `@n`
        bld = Builder(s)
        held = []
        for t in rng.sample(range(1, sp.full), 6):
            r = bld.build(sp, t)
            if abs(r) != 1:
                s.incref(0, r)
                held.append(r)
        # every precedence pair, documented spellings (all orders: the meaning is order-independent,
        # the returned reference is compared with the model)
        forms = prec if (thorough or oi == ctx.seed % 6) else rng.sample(prec, 150)
        for f, tree in forms:
            add_expr_checked(ctx, s, tt, sp, f, 'precedence-pairs', expect_tree=tree)
        for f, tree in rng.sample(prec_code, 60 if not thorough else len(prec_code)):
            add_expr_checked(ctx, s, tt, sp, f, 'precedence-pairs-code-spellings', expect_tree=tree)
        ctx.case(('precedence', order, len(forms)))
        ctx.count('precedence-formulas', len(forms))
        # `@n` of both signs: every node of the manager, and a few that do not exist
        nodes = sorted(b._succ)
        for n in nodes + [0, max(nodes) + 1, 10 ** 30]:
            for sg in ('', '-', '- '):
                for f in (f'@{sg}{n}', f'~ @{sg}{n}', f'@{sg}{n} & a', f'a - @{sg}{n}',
                          f'\\E a: @{sg}{n}', f'ite(@{sg}{n}, b, @{n})', f'@{sg}00{n}'):
                    ans = add_expr_checked(ctx, s, tt, sp, f, 'node-references')
                    if f == f'@{sg}{n}' and n in b._succ:
                        want = -n if sg else n
                        if s.val(ans) != want:
                            ctx.violation('`@n` is not the reference n', dict(
                                formula=f, got=ans, tags=dict(call='add_expr', kind='at-n')))
        ctx.case(('at-n', order))
        # random formulas over declared names (+ an undeclared one in non-binder positions)
        nrand = 250 if not thorough else 3000
        for i in range(nrand):
            live = [u for u in held if abs(u) in b._succ]
            refs = live + [-u for u in live] + [1, -1]
            names = ABC if rng.random() < 0.9 else ABC + ['zz']
            e = random_ast(rng, rng.randint(1, 6), names, refs, allow_eq=(rng.random() < 0.05),
                           binder_names=ABC)
            pr = Printer(rng, redundant=rng.choice((0.0, 0.2)), code_spellings=(rng.random() < 0.3),
                         comments=rng.choice((0.0, 0.1)), tight=rng.choice((0.0, 0.4)))
            add_expr_checked(ctx, s, tt, sp, pr.text(e), 'random', expect_tree=e)
            if i % 40 == 7:
                s.op(0, 'gc')
            if i < 20:
                ctx.case(('random', order, ast_sexp(e)))
        ctx.count('random-formulas', nrand)
        # all spellings of an operator mean the same: same reference
        for canon, sps in SPELL_CODE.items():
            if canon in ('!', '='):
                continue
            rs = set()
            for spg in sps:
                rs.add(s.op(0, 'add_expr', esc(f'(a {spg} b) {spg} ~ c')))
            if canon in ('#', '^'):
                continue
            if len(rs) != 1:
                ctx.violation('spellings of one operator give different results', dict(
                    op=canon, answers=sorted(rs), tags=dict(call='add_expr', kind='spellings')))
        r1 = s.op(0, 'add_expr', 'a # b')
        r2 = s.op(0, 'add_expr', 'a ^ b')
        r3 = s.op(0, 'add_expr', '~ a')
        r4 = s.op(0, 'add_expr', '! a')
        if r1 != r2 or r3 != r4:
            ctx.violation('spellings of one operator give different results', dict(
                answers=[r1, r2, r3, r4], tags=dict(call='add_expr', kind='spellings')))
        # reordering request served in the middle of `add_expr` (decorator `_try_to_reorder`)
        s.op(0, 'configure', 1)
        for k in (1, 2, 3, 5, 8):
            e = random_ast(rng, 4, ABC, [], binder_names=ABC)
            f = Printer(rng).text(e)
            s.op(0, 'fire_in', k)
            add_expr_checked(ctx, s, tt, sp, f, 'reordering', expect_tree=e)
            s.op(0, 'fire_off')
            bad = check_invariants(b)
            if bad:
                ctx.violation('manager inconsistent after add_expr with reordering', dict(
                    formula=f, problems=bad[:3], tags=dict(call='add_expr', kind='reordering')))
        s.op(0, 'configure', 0)
        s.state(0)
        ctx.add_session(s, SECTIONS_L3, f'C05 add_expr {order}')
        s.close()
        if ctx.time_left() < 18:
            ctx.notes.append('add_expr orders cut by time budget')
            break
    part_autoref(ctx, prec)


def part_autoref(ctx, prec):
    """`dd.autoref.BDD.add_expr`: oracle only."""
    import dd.autoref as _autoref
    rng = ctx.rng
    sp = Space(ABC)
    perms = list(itertools.permutations(ABC))
    for order in (perms if ctx.tier == 'thorough' else [perms[ctx.seed % 6], perms[(ctx.seed + 3) % 6]]):
        bdd = _autoref.BDD()
        bdd.declare(*order)
        b = bdd._bdd
        tt = TT(b, ABC)
        keep = []
        forms = [(f, t) for f, t in (prec if ctx.tier == 'thorough' else rng.sample(prec, 200))]
        for _ in range(150):
            live = [int(u) for u in keep]
            e = random_ast(rng, rng.randint(1, 5), ABC, live + [-x for x in live] + [1, -1], binder_names=ABC)
            forms.append((Printer(rng, redundant=0.1).text(e), e))
        for f, tree in forms:
            ctx.evaluations += 1
            try:
                u = bdd.add_expr(f)
            except Exception as ex:  # noqa: BLE001
                ctx.violation('autoref add_expr raises on a documented formula', dict(
                    formula=f, error=repr(ex), tags=dict(call='autoref.add_expr', kind='raises')))
                continue
            tt.memo = {}
            try:
                want = doc_eval(tree, sp, lambda i: tt.of(i))
            except NoMeaning:
                continue
            if tt.of(u.node) != want:
                ctx.violation('autoref add_expr: result differs from the documented meaning', dict(
                    formula=f, order=order, tags=dict(call='autoref.add_expr', kind='meaning')))
            if rng.random() < 0.1 and abs(u.node) != 1:
                keep.append(u)
            # to_expr round trip on the wrapper
            if rng.random() < 0.2:
                v = bdd.add_expr(bdd.to_expr(u))
                if v != u:
                    ctx.violation('autoref add_expr(to_expr(u)) != u', dict(
                        formula=f, tags=dict(call='autoref.to_expr', kind='roundtrip')))
        bad = check_invariants(b)
        if bad:
            ctx.violation('autoref manager inconsistent after add_expr', dict(
                problems=bad[:3], tags=dict(call='autoref.add_expr', kind='invariant')))
        ctx.case(('autoref', order))
        del keep, bdd


# ---------------------------------------------------------------------------
# (d) to_expr round trip
# ---------------------------------------------------------------------------

def part_d(ctx):
    rng = ctx.rng
    sp = Space(ABC)
    for order in orders_for(ctx, ABC, quick_n=2):
        s = fresh(ctx, order)
        refs = all_functions(s, sp)
        b = s.mgr(0)
        tt = TT(b, ABC)
        for t, r in refs.items():
            for u in (r, -r):
                ans = s.op(0, 'to_expr', u)
                if not ans.startswith('ok '):
                    ctx.violation('to_expr raises', dict(ref=u, got=ans, tags=dict(call='to_expr')))
                    continue
                text = ans[3:]
                back = s.op(0, 'add_expr', esc(text))
                ctx.evaluations += 1
                if s.val(back) != u:
                    ctx.violation('add_expr(to_expr(u)) != u', dict(
                        ref=u, text=text, got=back, order=order,
                        tags=dict(call='to_expr', kind='roundtrip')))
                # the printed text, read by the documentation, denotes the function of u
                try:
                    if doc_eval(doc_parse(text), sp, None) != tt.of(u):
                        ctx.violation('to_expr text does not denote u', dict(
                            ref=u, text=text, tags=dict(call='to_expr', kind='meaning')))
                except (Reject, NoMeaning):
                    ctx.violation('to_expr text is not a documented formula', dict(
                        ref=u, text=text, tags=dict(call='to_expr', kind='grammar')))
        ctx.case(('to_expr', order))
        ctx.count('to_expr-roundtrips', 512)
        s.state(0)
        ctx.add_session(s, SECTIONS_L2, f'C05 to_expr {order}')
        s.close()
    if True:
        # four and five variables, sampled: shared sub-diagrams reached again through a
        # complemented edge only appear from four variables on
        names = ['a', 'b', 'c', 'd'] if rng.random() < 0.7 else ['a', 'b', 'c', 'd', 'e']
        sp4 = Space(names)
        n_orders, n_fun = (6, 1500) if ctx.tier == 'thorough' else (2, 500)
        for order in rng.sample(list(itertools.permutations(names)), n_orders):
            s = fresh(ctx, order)
            bld = Builder(s)
            for _ in range(n_fun):
                t = rng.randrange(sp4.full + 1)
                r = bld.build(sp4, t)
                for u in (r, -r):
                    ans = s.op(0, 'to_expr', u)
                    back = s.op(0, 'add_expr', esc(ans[3:]))
                    ctx.evaluations += 1
                    if s.val(back) != u:
                        ctx.violation('add_expr(to_expr(u)) != u (4 vars)', dict(
                            ref=u, text=ans, got=back, tags=dict(call='to_expr', kind='roundtrip')))
            ctx.case(('to_expr4', order))
            ctx.add_session(s, SECTIONS_L2, f'C05 to_expr4 {order}')
            s.close()


# ---------------------------------------------------------------------------
# (g) the hypothesis of the round-trip theorem: only the SUPPORT needs lexable names
# ---------------------------------------------------------------------------

ODD_NAMES = ['TRUE', 'x-y', 'ite', 'a.b', 'False']


def part_g(ctx):
    """`C05_addExpr_toExpr` asks for lexable names in the support of `u` only (`lexableSupport`):
    the manager declares variables whose names are NOT read back as that NAME (`TRUE`, `x-y`, `ite`,
    `a.b`, `False`: the F13 names) between `a`, `b`, `c`; every function of `a, b, c` (both signs)
    round-trips, on `dd.bdd` (exact correspondence with the model) and on `dd.autoref`
    (`C05_autoref_addExpr_toExpr`; oracle only), also with dynamic reordering enabled there."""
    import dd.autoref as _autoref
    rng = ctx.rng
    sp = Space(ABC)
    odd = rng.sample(ODD_NAMES, 3)
    order = list(ABC) + odd
    rng.shuffle(order)
    s = Session(ctx)
    s.new(0, order)
    refs = all_functions(s, sp)
    b = s.mgr(0)
    tt = TT(b, ABC)
    for t, r in refs.items():
        for u in (r, -r):
            ans = s.op(0, 'to_expr', u)
            back = s.op(0, 'add_expr', esc(ans[3:]))
            ctx.evaluations += 1
            if not ans.startswith('ok ') or s.val(back) != u:
                ctx.violation('add_expr(to_expr(u)) != u in a manager that declares odd names outside '
                              'the support of u', dict(
                    ref=u, text=ans, got=back, order=order,
                    tags=dict(call='to_expr', kind='roundtrip-support')))
            elif tt.of(s.val(back)) != (t if u == r else sp.neg(t)):
                ctx.violation('round trip returns another function', dict(
                    ref=u, text=ans, tags=dict(call='to_expr', kind='roundtrip-support')))
    ctx.count('to_expr-roundtrips-odd-names-declared', 512)
    s.state(0)
    ctx.case(('to_expr-odd', tuple(order)))
    ctx.add_session(s, SECTIONS_L2, f'C05 to_expr, odd names declared {order}')
    s.close()
    # autoref, reordering off and enabled
    for dyn in (False, True):
        bdd = _autoref.BDD()
        bdd.declare(*order)
        bdd.configure(reordering=dyn)
        bb = bdd._bdd
        keep = []
        for _ in range(120):
            e = random_ast(rng, rng.randint(1, 5), ABC, [1, -1], binder_names=ABC)
            f = Printer(rng, redundant=0.1).text(e)
            u = bdd.add_expr(f)
            keep.append(u)
            if len(keep) > 25:
                keep.pop(rng.randrange(len(keep)))
            w = rng.choice(keep)
            want = TT(bb, ABC).of(w.node)
            v = bdd.add_expr(bdd.to_expr(w))
            ctx.evaluations += 1
            if v != w or v.node != w.node or TT(bb, ABC).of(v.node) != want:
                ctx.violation('autoref add_expr(to_expr(u)) != u', dict(
                    formula=f, reordering=dyn, order=order,
                    tags=dict(call='autoref.to_expr', kind='roundtrip-support')))
        bad = check_invariants(bb)
        if bad:
            ctx.violation('autoref manager inconsistent after the round trips', dict(
                problems=bad[:3], tags=dict(call='autoref.add_expr', kind='invariant')))
        ctx.count('autoref-roundtrips' + ('-dyn' if dyn else ''), 120)
        ctx.case(('autoref-roundtrip', dyn, tuple(order)))
        del keep, bdd


# ---------------------------------------------------------------------------
# (e) syntax errors at every token position
# ---------------------------------------------------------------------------

INJECT = ['(', ')', ',', '~', '&', '=>', '-', '/', '@', ':', '\\E', '\\S', 'a', 'zz', '7', 'ite', 'TRUE',
          '$', '=', '(*', '\\* c']


def binder_lists_ok(toks, declared):
    """No `\\A`/`\\E` name list mixes declared and undeclared names (the error class of such a
    call depends on the iteration order of a Python set of strings)."""
    i = 0
    while i < len(toks):
        if toks[i] in ('\\A', '\\E'):
            j = i + 1
            ns = []
            while j < len(toks) and toks[j] != ':':
                if toks[j] != ',':
                    ns.append(toks[j])
                j += 1
            kinds = {(n in declared) for n in ns if re.match(r"[A-Za-z_]", n)}
            if len(kinds) > 1:
                return False
            i = j
        i += 1
    return True


def part_e(ctx):
    rng = ctx.rng
    sp = Space(ABC)
    thorough = ctx.tier == 'thorough'
    for order in orders_for(ctx, ABC, quick_n=1):
        s = fresh(ctx, order)
        b = s.mgr(0)
        tt = TT(b, ABC)
        bld = Builder(s)
        held = {}
        for t in rng.sample(range(1, sp.full), 5):
            r = bld.build(sp, t)
            if abs(r) != 1:
                s.incref(0, r)
                held[r] = t
        nform = 40 if not thorough else 400
        nerr = 0
        for fi in range(nform):
            refs = [u for u in held] + [1, -1]
            e = random_ast(rng, rng.randint(2, 4), ABC, refs, binder_names=ABC)
            pr = Printer(rng, redundant=0.1, code_spellings=False)
            toks = pr.toks(e, 0, True)
            good = ' '.join(toks)
            for pos in range(len(toks) + 1):
                muts = []
                x = rng.choice(INJECT)
                muts.append(toks[:pos] + [x] + toks[pos:])            # insertion
                muts.append(toks[:pos])                               # truncation
                if pos < len(toks):
                    muts.append(toks[:pos] + toks[pos + 1:])          # deletion
                    muts.append(toks[:pos] + [rng.choice(INJECT)] + toks[pos + 1:])   # replacement
                for m in (muts if thorough else rng.sample(muts, 2)):
                    if not binder_lists_ok(m, ABC):
                        continue
                    f = ' '.join(m)
                    ans = add_expr_checked(ctx, s, tt, sp, f, 'error-injection')
                    if ans.startswith('err'):
                        nerr += 1
                        bad = check_invariants(b, s.ledger[0])
                        if bad:
                            ctx.violation('manager inconsistent after a rejected formula', dict(
                                formula=f, got=ans, problems=bad[:3],
                                tags=dict(call='add_expr', kind='error-state')))
                        tt.memo = {}
                        for u, t in held.items():
                            if abs(u) not in b._succ or tt.of(u) != t:
                                ctx.violation('held function changed by a rejected formula', dict(
                                    formula=f, ref=u, tags=dict(call='add_expr', kind='error-held')))
                        if rng.random() < 0.3:
                            s.state(0)
                        # the cached translator still works
                        if rng.random() < 0.5:
                            add_expr_checked(ctx, s, tt, sp, good, 'after-error', expect_tree=e)
            if fi % 10 == 9:
                s.op(0, 'gc')
            ctx.case(('errors', order, good))
        ctx.count('rejected-formulas', nerr)
        s.state(0)
        ctx.add_session(s, SECTIONS_L3, f'C05 syntax errors {order}')
        s.close()


# ---------------------------------------------------------------------------

def probe_names(ctx):
    """`dd` accepts any string as a variable name; `to_expr` prints it verbatim.  The round
    trip `add_expr(to_expr(u)) == u` is stated (and proved for the model) for names that are NAME
    tokens and not reserved words; what happens for other names is recorded, not judged."""
    out = []
    for nm in ['TRUE', 'True', 'FALSE', 'ite', 'a.b', 'x y', 'x-y', '1a', "a'b", '_x']:
        b = lib._bdd.BDD()
        try:
            b.declare(nm, 'x', 'y')
            u = b.var(nm)
            s = b.to_expr(u)
            try:
                v = b.add_expr(s)
                res = 'same' if v == u else f'other function ({v} instead of {u})'
            except Exception as e:  # noqa: BLE001
                res = 'raises ' + type(e).__name__
        except Exception as e:  # noqa: BLE001
            res = 'declare/var raises ' + type(e).__name__
        out.append(f'{nm!r}: {res}')
        ctx.count('name-probe')
        if nm in ("a'b", '_x') and res != 'same':
            ctx.violation('round trip fails for a NAME variable', dict(
                name=nm, result=res, tags=dict(call='to_expr', kind='roundtrip-name')))
        elif nm not in ("a'b", '_x') and res != 'same' and not res.startswith('declare'):
            # a declared variable whose name the lexer does not read back as that NAME
            ctx.violation('add_expr(to_expr(u)) is not u for a variable whose name is not a NAME token', dict(
                name=nm, result=res, tags=dict(call='to_expr', symptom='variable-name-not-a-NAME-token')))
    ctx.notes.append('add_expr(to_expr(var)) by variable name: ' + '; '.join(out))


def part_f(ctx):
    """(f) the lexical layer as `DDProps/C05Lex.lean` states it: token strings (not only
    formulas) under random layouts — spelling row per token, glued / blank / comment gaps —
    the converse on all glued pairs, comments in front of arbitrary text, unterminated comments."""
    import checks_parselex
    bulk = Bulk()

    def esc_text(s):
        # a last field that starts with `S:` is the schedule of the line protocol
        return '%53' + esc(s[1:]) if s.startswith('S:') else esc(s)

    checks_parselex.part_layout(ctx, bulk, esc_text, real_lex_answer, real_parse_answer)
    ctx.add_session(bulk, SECTIONS_L2, 'C05 lexical layer: layouts')


def check_C05(ctx):
    ctx.driver = DRIVER
    build_driver(ctx)
    probe_names(ctx)
    part_d(ctx)
    part_g(ctx)
    part_bc(ctx)
    part_e(ctx)
    part_f(ctx)
    part_a(ctx)
    ctx.exhaustive = True
    ctx.notes.append(
        'documentation discrepancies (not counted as violations): doc.md lists `true`/`false` and `.` in '
        'names, the lexer has `True`/`False`/`TRUE`/`FALSE` and no `.`; `&&`, `||` and binary `-` are '
        'accepted but missing from the documented grammar; `=` parses but `apply` rejects it; '
        '`\\d+` also matches non-ASCII decimal digits')


REGISTRY = {
    'C05': (check_C05,
            'Pratt model vs dd._parser.Parser trees on all token strings up to length 4 (5 thorough) + shard of '
            'the next length, lexer on all short special-character strings, grammar-generated formulas up to depth 6 '
            'with random spellings/comments/parentheses; add_expr exact references+state vs model under all 6 orders, '
            '@n both signs, every operator pair/both orders vs a recursive-descent reader of doc.md over truth tables; '
            'add_expr(to_expr(u)) == u for all 256 functions both signs, also in a manager that declares names that are not NAME '
            'tokens (TRUE, x-y, ite, a.b, False) outside the support, and over dd.autoref with reordering off and enabled; syntax errors injected at every token position; '
            'lexical layer: random token strings (any sequence of tokens) under random layouts (every spelling row, '
            'glued/blank/comment gaps, leading and final comments) read back by the real lexer and the model, same parse '
            'answer for two layouts of one token string, all glued pairs of token texts against needsBlank and its converse, '
            'comments in front of arbitrary text, unterminated comments'),
}
