#!/usr/bin/env python3
"""Write MANIFEST.json from the table below (kept next to the checks so it cannot drift)."""
import json
import os

HERE = os.path.dirname(os.path.abspath(__file__))
VERIF = os.path.dirname(HERE)

LEVEL_NOTE = (
    'Trusted: Lean 4.33 kernel + axioms propext/Classical.choice/Quot.sound (audited per theorem on every run); '
    'harness/extract.py (regenerates Generated/Tables.lean from the source); the correspondence check '
    '(harness/impl.py on the real code vs. the compiled Lean driver on the hand-written model, exact state incl. node numbers); '
    'modelling conventions of DESIGN.md section 2.1. Python set iteration orders are recorded and passed to the model.')

CLAIMS = {
    'C01': ('proof', 'Lean theorems on the model of find_or_add/_ite/apply (DDProps/C01), also after every history with reorderings and with dynamic reordering switched on and off (Histories2) + apply table regenerated from source and re-proved by decide + correspondence of model and code on exhaustive operand pairs, histories, wide managers (30-80 variables, diagrams of thousands of nodes, sampled-assignment oracle)', 'Lean 4 proof + regenerated tables + differential correspondence'),
    'C02': ('proof', 'canonicity theorem for the model invariant (DDProps/C02) + preservation by every modelled operation incl. reorderings, undeclare_vars, copy.copy(bdd), BDD.reduction, update_predecessors; every-history forms over histories with swaps / sifting / reorder-to-order / configure; exact-state correspondence; routes oracle on the real code; wide managers and large diagrams', 'Lean 4 proof + differential correspondence'),
    'C03': ('proof', 'quantification on the model (DDProps/C03) tied by exhaustive 3-variable correspondence; every-history capstone over the widest alphabet (Histories5), by name also with dynamic reordering enabled', 'Lean 4 proof + differential correspondence'),
    'C04': ('proof', 'cofactor/compose/rename on the model (DDProps/C04) tied by exhaustive 3-variable correspondence; every-history capstone over the widest alphabet (Histories5)', 'Lean 4 proof + differential correspondence'),
    'C05': ('proof', 'Lean model of the lexer (driven by the regenerated token tables) and a Pratt parser parametrised by the regenerated precedence table; print/parse round trip proved for every syntax tree, precedence table = documented table by decide, add_expr = bottom-up evaluation of the tree read, to_expr text = ite-unfolding; PLY/astutils tied by exhaustive short token strings and generated formulas; the semantic half (meaning of the evaluated tree) is stated, its pieces are the C01/C03/C04 theorems; lexical layer proved for every token string, spelling choice, blank and comment layout (C05Lex); the Pratt model only returns trees the regenerated grammar derives (C05Grammar); autoref round trip', 'Lean 4 proof + regenerated tables + differential correspondence'),
    'C06': ('proof', 'reference-count invariant and collection theorems on the model (DDProps/C06) tied by exhaustive short op sequences and long histories with exact state incl. counts, min_free, cache', 'Lean 4 proof + differential correspondence'),
    'C07': ('proof', 'swap/sifting/sort model with recorded set orders; theorems in DDProps/C07; exact-state correspondence; the all_levels dictionary threaded through swap proved equal to the recomputed one (C07Levels, also checked on the real code at every swap); every choice of iteration orders is accepted by some schedule (C07Accept)', 'Lean 4 proof + differential correspondence'),
    'C08': ('proof', 'handle-registry model of dd.autoref (every method = membership tests + core op + wrap; temporaries of <= < succ low high as explicit wrap/drop pairs; drop = __del__) with the count equation ref = in-degree + live handles proved for the registry operations and, from the core specifications, for every method; exact-state correspondence after every operation on real Function objects; values of the methods and comparisons by name (C08Values*), faithful model of _copy.copy_bdd over two managers incl. reordering in the target (C08XCopy), every recorded schedule and its acceptance (C08Sched, C08Accept)', 'Lean 4 proof + differential correspondence'),
    'C09': ('proof', 'model of _try_to_reorder with an abstract trigger (any find_or_add position, any threshold); generic transparency theorem (any body that returns its documented result or aborts having only added nodes) instantiated for ite, apply, var, quantify, the three let forms, cube, copy_bdd, add_expr (every construct), image, preimage (meaning under a neighbour proviso: known finding F4d) and chained calls; pickle load proved never to reorder; correspondence at every trigger position; for EVERY recorded schedule of set-iteration orders, every outcome (C09Sched, C09SchedKeep), with acceptance: each choice of orders the code can make is realised by a schedule the model follows (C09Accept); fewer than two variables (C09Few)', 'Lean 4 proof + differential correspondence'),
    'C10': ('proof', 'support/count/pick_iter on the model (DDProps/C10) tied by exhaustive 3-variable correspondence', 'Lean 4 proof + differential correspondence'),
    'C11': ('proof', 'copy between managers on the model (DDProps/C11: same function by name for any two orders and any target content, target canonical, shared memo; copy_vars reproduces names and levels) tied by correspondence over order pairs', 'Lean 4 proof + differential correspondence'),
    'C12': ('proof', 'abstract file-content model of pickle / whole-manager / JSON dumps and loads (the harness re-reads the files the real code wrote and feeds the same content to the model); pickle load proved at full strength for any levels flag, any target order, constant and absent roots; manager round trip unconditional; JSON dump and JSON load (both load_order values) and the JSON round trip proved for receiving managers with dynamic reordering not enabled, exact counts after every kind of load; reordering-enabled JSON targets tied by correspondence; dump totality and default load(levels=True) (C12Total); item-order permutations of the files (C12Perm); reordering-enabled targets under every schedule (C12Sched, C12SchedKeep)', 'Lean 4 proof + differential correspondence'),
    'C13': ('proof', 'image/preimage on the model (DDProps/C13): image proved for any order, preimage proved at full strength under its literal preconditions for any order, any renaming and any target (the fused recursion where it is valid, rename/conjoin/quantify otherwise: repairs of F4d, F5, F5b); tied by exhaustive one-pair correspondence and sampled 2-3 pairs on arbitrary and padded orders', 'Lean 4 proof + differential correspondence'),
    'C14': ('proof', 'add_var/undeclare_vars on the model (DDProps/C14) tied by interleaving correspondence', 'Lean 4 proof + differential correspondence'),
    'C15': ('proof', 'Lean model of dd.mdd.MDD (n-ary nodes, first edge regular, set allocator with recorded pop schedule) and of bdd_to_mdd; MInv, find_or_add / ite / apply (regenerated table) / canonicity / collection (either root sign) proved, every reachable MDD state good; bdd_to_mdd proved correct AND total (no assertion of the code can fire) for any setting of dynamic reordering (reorder into zones via the C07 sort theorem, cofactors follow edges only), held BDD functions preserved; tied by exact-state correspondence and an evaluation oracle on every integer assignment; totality of ite/apply/find_or_add/collect_garbage, any pop order of the collection, any recorded _free.pop() with acceptance, failed calls unchanged', 'Lean 4 proof + regenerated tables + differential correspondence'),
    'C16': ('proof', 'abstract DDDMP file model (header tables, node list, re-indexing, bottom-up rebuild, root translation) with C16_load_spec proved for every well-formed file and numbering; text files tied by correspondence (the harness writes text and abstract encodings from the same data); GoodState after load and chaining into every other property (C16Chain); header fields and the text layer (line dispatch, PLY header lexer and grammar regenerated from source: C16Text), files without name lists', 'Lean 4 proof + differential correspondence'),
    'C17': ('proof', 'total step functions: a rejected call keeps invariant, order, counts and every reference (DDProps/C17), reordering off (every user operation, every history) and ON (generic theorem for the decorator: failure before the request, after it, or in the retry after sifting; reordering stays enabled) + rejected add_var / undeclare_vars / swap / reorder / load change nothing; tied by malformed-call injection incl. partly valid calls and a trigger sweep of rejected calls; failing loads of any content (pickle pre-checks, JSON both load_order values, reordering enabled: C17Load, C17Load2, C17Load2Sched), every way reorder(order) refuses (C17Reorder), max_nodes as a capacity layer: find_or_add / ite / var / apply at capacity keep the state (C17Capacity*), swap at capacity is known finding F22', 'Lean 4 proof + differential correspondence'),
    'C19': ('proof', 'source-level only (the C extensions cannot be built here): translators over the four .pyx files regenerate Lean tables on every run; cApply_sound / cVocab / cQuant_roles (every back end, after the repair of F6) / refTraces_balanced / refTraces_noFloatingUse (references kept in C arrays and Python containers are followed too; only test helpers are not covered) / refTraces_arraysFreed / cacheTags_distinct re-decided on them; partial by nature: relative to the line-structured reader and the hand-written C API semantics; nothing is executed; exceptions raised inside callees, loop iterations, NULL-initialised arrays, rebound handles, deref kinds (37+ obligations); quantifier rows tied to the meaning on cubes (C19Quant)', 'Lean 4 decide over tables regenerated from the .pyx sources'),
    'C18': ('proof', 'structural views on the model (DDProps/C18) tied by re-reading the exported graphs', 'Lean 4 proof + differential correspondence'),
}

PENDING = {
}


def main():
    checks = []
    for pid, (level, text, tech) in sorted((k, v) for k, v in CLAIMS.items() if not k.endswith('x')):
        checks.append(dict(
            property_id=pid,
            quick_cmd=f'/venv/bin/python harness/vcheck.py {pid} --tier quick',
            thorough_cmd=f'/venv/bin/python harness/vcheck.py {pid} --tier thorough',
            evidence_file=f'evidence/{pid}.json',
            replay_cmd_template=f'/venv/bin/python harness/vcheck.py {pid} --replay {{path}}',
            engine='lean-model+correspondence',
            level_claimed=dict(category=level, text=text, design_ref='DESIGN.md section 6 ' + pid),
            level_note=LEVEL_NOTE,
            technique=tech))
    man = dict(
        version=1,
        setup_cmd='cd lean && /venv/bin/python ../harness/extract.py && lake build',
        hooks=dict(
            guard='DD_VERIF',
            enable='no source hooks: observation is in-process (harness/impl.py wraps BDD.swap, BDD._levels, dd.bdd._reorder_var, dd.bdd._request_reordering at run time)',
            baseline_off_cmd='cd /repo && /venv/bin/python -m pytest -ra -q -p no:cacheprovider --timeout=900 --continue-on-collection-errors',
            source_commits=[],
            add_only=True),
        engines=[dict(
            name='lean-model+correspondence', path='lean/ + harness/',
            serves_properties=sorted(k for k in CLAIMS if not k.endswith('x')),
            kind_free_text='Lean 4 model of dd (lake project, no Mathlib in the model), property theorems in lean/DDProps, tables regenerated from /repo by harness/extract.py, compiled driver lean/.lake/build/bin/ddvdrv diffed against the real code by harness/vcheck.py')],
        checks=checks,
        notes='See DESIGN.md. Exit 2 = tool error/timeout (never a violation).',
        not_applicable=[dict(property_id=k, reason=v) for k, v in sorted(PENDING.items()) if k not in CLAIMS])
    with open(os.path.join(VERIF, 'MANIFEST.json'), 'w') as f:
        json.dump(man, f, indent=1)


if __name__ == '__main__':
    main()
