#!/usr/bin/env python3
"""Translators: regenerate lean/Generated/Tables.lean from /repo's current source.

Deliberately dumb pattern matching over Python's `ast`; whatever is not
recognised is emitted as `.bad`, which makes the Lean `decide` obligations fail
(a broken proof obligation, never a silent pass).
"""
import ast
import hashlib
import os
import re
import sys

REPO = os.environ.get('DD_REPO', '/repo')
HERE = os.path.dirname(os.path.abspath(__file__))
OUT = os.path.join(HERE, '..', 'lean', 'Generated', 'Tables.lean')


def lean_str(s):
    out = ['"']
    for ch in s:
        if ch == '\\':
            out.append('\\\\')
        elif ch == '"':
            out.append('\\"')
        elif ch == '\n':
            out.append('\\n')
        elif ch == '\t':
            out.append('\\t')
        else:
            out.append(ch)
    out.append('"')
    return ''.join(out)


def lean_list(items):
    return '[' + ', '.join(items) + ']'


def _atom(node):
    """Map an argument expression of `self.ite(...)` to an Atom."""
    if isinstance(node, ast.Name) and node.id in 'uvw':
        return '.' + node.id
    if isinstance(node, ast.UnaryOp) and isinstance(node.op, ast.USub):
        x = node.operand
        if isinstance(x, ast.Name) and x.id in 'uvw':
            return '.n' + x.id
        if isinstance(x, ast.Constant) and x.value == 1:
            return '.mone'
    if isinstance(node, ast.Constant) and node.value == 1 and not isinstance(node.value, bool):
        return '.one'
    return '.bad'


def _is_self_call(node, name):
    return (isinstance(node, ast.Call) and
            isinstance(node.func, ast.Attribute) and
            isinstance(node.func.value, ast.Name) and
            node.func.value.id == 'self' and
            node.func.attr == name)


def _templ(body):
    """Map the statements of one branch to a Templ."""
    if len(body) == 1 and isinstance(body[0], ast.Return):
        val = body[0].value
        if (isinstance(val, ast.UnaryOp) and isinstance(val.op, ast.USub)
                and isinstance(val.operand, ast.Name) and val.operand.id == 'u'):
            return '.neg'
        if _is_self_call(val, 'ite') and len(val.args) == 3 and not val.keywords:
            a, b, c = map(_atom, val.args)
            return f'.ite {a} {b} {c}'
        return '.bad'
    if len(body) == 1 and isinstance(body[0], ast.Raise):
        exc = body[0].exc
        if (isinstance(exc, ast.Call) and isinstance(exc.func, ast.Name)
                and exc.func.id == 'NotImplementedError'):
            return '.notImpl'
        return '.bad'
    if (len(body) == 2 and isinstance(body[0], ast.Assign)
            and isinstance(body[1], ast.Return)):
        asg, ret = body
        if (len(asg.targets) == 1 and isinstance(asg.targets[0], ast.Name)
                and asg.targets[0].id == 'qvars'
                and _is_self_call(asg.value, 'support')
                and len(asg.value.args) == 1 and not asg.value.keywords
                and _is_self_call(ret.value, 'quantify')):
            call = ret.value
            frm = _atom(asg.value.args[0])
            if (len(call.args) == 2 and isinstance(call.args[1], ast.Name)
                    and call.args[1].id == 'qvars' and len(call.keywords) == 1
                    and call.keywords[0].arg == 'forall'
                    and isinstance(call.keywords[0].value, ast.Constant)
                    and isinstance(call.keywords[0].value.value, bool)):
                fa = 'true' if call.keywords[0].value.value else 'false'
                return f'.quant {fa} {frm} {_atom(call.args[0])}'
        return '.bad'
    return '.bad'


def _find_method(tree, cls, name):
    for node in tree.body:
        if isinstance(node, ast.ClassDef) and node.name == cls:
            for f in node.body:
                if isinstance(f, ast.FunctionDef) and f.name == name:
                    return f
    return None


def extract_apply(path, cls):
    """Rows of `apply`: (aliases, templ) in source order; plus a flag `ok_shape`."""
    src = open(path).read()
    tree = ast.parse(src)
    f = _find_method(tree, cls, 'apply')
    rows = []
    shape_ok = True
    if f is None:
        return [], False
    # the first statements: arity assertion and membership checks; then one if/elif chain
    chain = None
    prelude = []
    for st in f.body:
        if isinstance(st, ast.If) and _is_op_test(st.test) is not None:
            chain = st
            break
        prelude.append(st)
    if chain is None:
        return [], False
    # prelude must contain the arity assertion and the three membership checks
    pre_src = '\n'.join(ast.unparse(s) for s in prelude if not isinstance(s, ast.Expr) or not isinstance(s.value, ast.Constant))
    if 'assert_operator_arity(op, v, w' not in pre_src:
        shape_ok = False
    # The decision list: one if/elif chain, or several chains / plain `if`s in sequence whose
    # bodies all end in `return` / `raise` (then falling through to the next statement is the
    # same as `elif`), possibly with a Boolean local holding an operator test
    # (`is_q = op in (...)` ... `if is_q:`).  Anything else makes the shape not ok.
    idx = f.body.index(chain)
    env = {}
    i = idx
    while i < len(f.body):
        st = f.body[i]
        if (isinstance(st, ast.Assign) and len(st.targets) == 1 and isinstance(st.targets[0], ast.Name)
                and _is_op_test(st.value) is not None):
            env[st.targets[0].id] = st.value
            i += 1
            continue
        if not isinstance(st, ast.If):
            break
        node = st
        bodies = []
        while True:
            test = node.test
            if isinstance(test, ast.Name) and test.id in env:
                test = env[test.id]
            al = _is_op_test(test)
            if al is not None:
                rows.append((al, _templ(node.body)))
            else:
                # guards `elif v is None: raise ValueError` are implied by the arity check
                t = ast.unparse(test)
                if not (t in ('v is None', 'w is None') and len(node.body) == 1
                        and isinstance(node.body[0], ast.Raise)):
                    rows.append(([], '.bad'))
            bodies.append(node.body)
            if len(node.orelse) == 1 and isinstance(node.orelse[0], ast.If):
                node = node.orelse[0]
            else:
                if node.orelse:
                    shape_ok = False
                break
        i += 1
        if i < len(f.body) and isinstance(f.body[i], (ast.If, ast.Assign)):
            # another decision follows: equivalent to `elif` only if nothing falls through
            if not all(b and isinstance(b[-1], (ast.Return, ast.Raise)) for b in bodies):
                shape_ok = False
    # after the decisions: `raise ValueError`
    tail = f.body[i:]
    if not (len(tail) == 1 and isinstance(tail[0], ast.Raise)):
        shape_ok = False
    return rows, shape_ok


def _is_op_test(test):
    """`op in (<str literals>)` or `op == <str>` -> list of aliases."""
    if (isinstance(test, ast.Compare) and isinstance(test.left, ast.Name)
            and test.left.id == 'op' and len(test.ops) == 1):
        cmp = test.comparators[0]
        if isinstance(test.ops[0], ast.In) and isinstance(cmp, (ast.Tuple, ast.List, ast.Set)):
            if all(isinstance(e, ast.Constant) and isinstance(e.value, str) for e in cmp.elts):
                return [e.value for e in cmp.elts]
        if isinstance(test.ops[0], ast.Eq) and isinstance(cmp, ast.Constant) and isinstance(cmp.value, str):
            return [cmp.value]
    return None


def extract_consts(path):
    tree = ast.parse(open(path).read())
    vals = {}
    for node in tree.body:
        if isinstance(node, ast.Assign) and len(node.targets) == 1 and isinstance(node.targets[0], ast.Name):
            n = node.targets[0].id
            if n in ('REORDER_STARTS', 'REORDER_FACTOR', 'GROWTH_FACTOR'):
                if isinstance(node.value, ast.Constant) and isinstance(node.value.value, int):
                    vals[n] = node.value.value
    return vals


def extract_vocab():
    """Import dd._abc from the working tree and read the operator symbol sets."""
    sys.path.insert(0, REPO)
    import importlib
    abc_ = importlib.import_module('dd._abc')
    un = sorted(abc_.UNARY_OPERATOR_SYMBOLS)
    bi = sorted(abc_.BINARY_OPERATOR_SYMBOLS)
    te = sorted(abc_.TERNARY_OPERATOR_SYMBOLS)
    al = sorted(abc_.BDD_OPERATOR_SYMBOLS)
    return un, bi, te, al


def extract_arity(path):
    """Recognise the exact shape of `assert_operator_arity`; return True if it is the known shape."""
    tree = ast.parse(open(path).read())
    for node in tree.body:
        if isinstance(node, ast.FunctionDef) and node.name == 'assert_operator_arity':
            body = [s for s in node.body if not (isinstance(s, ast.Expr) and isinstance(s.value, ast.Constant))]
            src = ast.unparse(ast.Module(body=body, type_ignores=[]))
            norm = re.sub(r"ValueError\((.|\n)*?\)\n", "ValueError()\n", src + '\n')
            norm = re.sub(r'\s+', ' ', norm).strip()
            return norm
    return ''


ARITY_EXPECTED = (
    "operators = _OPERATOR_MAP[diagram_type] "
    "if op not in operators['all']: raise ValueError() "
    "if op in operators['unary']: "
    "if v is not None: raise ValueError() "
    "if w is not None: raise ValueError() "
    "elif op in operators['binary']: "
    "if v is None: raise ValueError() "
    "if w is not None: raise ValueError() "
    "elif op in operators['ternary']: "
    "if v is None: raise ValueError() "
    "if w is None: raise ValueError()")


def extract_parser():
    """Introspect dd._parser (imported from the working tree)."""
    sys.path.insert(0, REPO)
    import importlib
    prs = importlib.import_module('dd._parser')
    lex = prs.Lexer.__new__(prs.Lexer)
    # run only the attribute part of __init__ (no PLY build)
    reserved = {}
    try:
        src = ast.parse(open(os.path.join(REPO, 'dd', '_parser.py')).read())
        init = _find_method(src, 'Lexer', '__init__')
        for st in init.body:
            if (isinstance(st, ast.Assign) and isinstance(st.targets[0], ast.Attribute)
                    and st.targets[0].attr == 'reserved' and isinstance(st.value, ast.Dict)):
                for k, v in zip(st.value.keys, st.value.values):
                    reserved[k.value] = v.value
    except Exception:
        reserved = {}
    # token rules: functions and strings `t_*` on the class
    tokens = []
    for name in dir(prs.Lexer):
        if not name.startswith('t_'):
            continue
        obj = getattr(prs.Lexer, name)
        if callable(obj):
            rx = obj.__doc__ or ''
            canon = _canon_value(os.path.join(REPO, 'dd', '_parser.py'), name)
        else:
            rx = obj
            canon = None
        tokens.append((name[2:], rx, canon))
    # precedence: build a Parser object attribute part
    prec = []
    try:
        src = ast.parse(open(os.path.join(REPO, 'dd', '_parser.py')).read())
        init = _find_method(src, 'Parser', '__init__')
        for st in init.body:
            if (isinstance(st, ast.Assign) and isinstance(st.targets[0], ast.Attribute)
                    and st.targets[0].attr == 'precedence'):
                prec = ast.literal_eval(st.value)
    except Exception:
        prec = []
    # productions
    prods = []
    for name in sorted(dir(prs.Parser)):
        if name.startswith('p_') and name != 'p_error':
            doc = getattr(prs.Parser, name).__doc__ or ''
            prods.append((name, re.sub(r'\s+', ' ', doc).strip()))
    return reserved, tokens, prec, prods


def _canon_value(path, fname):
    """`token.value = '<c>'` inside a token function, if present."""
    tree = ast.parse(open(path).read())
    f = _find_method(tree, 'Lexer', fname)
    if f is None:
        return None
    for st in ast.walk(f):
        if (isinstance(st, ast.Assign) and isinstance(st.targets[0], ast.Attribute)
                and st.targets[0].attr == 'value' and isinstance(st.value, ast.Constant)):
            return st.value.value
    return None


def spellings_of(rx):
    """Literal alternatives of a verbose-mode regex made only of escaped literals and `|`."""
    parts = []
    cur = []
    rx = re.sub(r'\s+', '', rx)
    i = 0
    while i < len(rx):
        ch = rx[i]
        if ch == '\\' and i + 1 < len(rx):
            cur.append(rx[i + 1])
            i += 2
            continue
        if ch == '|':
            parts.append(''.join(cur))
            cur = []
        else:
            cur.append(ch)
        i += 1
    parts.append(''.join(cur))
    return parts


COUT = os.path.join(HERE, '..', 'lean', 'Generated', 'CTables.lean')


def write_ctables():
    """C19: regenerate lean/Generated/CTables.lean from the four `.pyx` back ends
    (line-structured reader in harness/cpyx.py).  Returns (sha256, changed, data)."""
    import cpyx
    try:
        data = cpyx.extract_all(REPO)
        # the Python twin of the rules (harness/checks_cwrap.py) says which exits through exceptions
        # still own something; `exitLeaks_twins_agree` (DDProps/C19) compares with the Lean rules
        import checks_cwrap
        data['exit_leaks_py'] = checks_cwrap.exit_leaks(data)
        text = cpyx.lean_ctables(data)
    except Exception as e:  # noqa: BLE001
        # the reader itself failed: empty tables make every C19 obligation fail (never a stale
        # pass) without disturbing the tables of the other properties
        data = dict(error=repr(e))
        text = cpyx.lean_ctables_stub(repr(e))
    os.makedirs(os.path.dirname(COUT), exist_ok=True)
    old = open(COUT).read() if os.path.exists(COUT) else None
    if old != text:
        with open(COUT, 'w') as f:
            f.write(text)
    return hashlib.sha256(text.encode()).hexdigest(), old != text, data


def decimal_zeros():
    """Zero digits of the runs of ten consecutive decimal digits (category Nd) that `\\d` matches."""
    import unicodedata
    chars = re.findall(r'\d', ''.join(map(chr, range(0x110000))))
    zeros = []
    cps = sorted(ord(c) for c in chars)
    seen = set(cps)
    for cp in cps:
        if unicodedata.digit(chr(cp)) == 0:
            if not all((cp + k) in seen and unicodedata.digit(chr(cp + k)) == k for k in range(10)):
                raise ValueError(f'digit run at {cp:#x} is not 0..9')
            zeros.append(cp)
    if len(zeros) * 10 != len(cps):
        raise ValueError('decimal digits outside runs of ten')
    return zeros


def lex_rule_order():
    """Names of the token rules in the order PLY tries them (functions in definition
    order, then strings by decreasing regex length)."""
    sys.path.insert(0, REPO)
    import importlib
    prs = importlib.import_module('dd._parser')
    lx = prs.Lexer().lexer
    names = []
    for _rx, findex in lx.lexstatere['INITIAL']:
        for item in findex:
            if item is None:
                continue
            _f, name = item
            if name is None:
                # ignored rule (a function that returns no token): recover its name
                name = getattr(_f, '__name__', 't_?')[2:]
            names.append(name)
    return names


def lex_ignore():
    sys.path.insert(0, REPO)
    import importlib
    prs = importlib.import_module('dd._parser')
    return prs.Lexer.t_ignore


def extract_dddmp():
    """Introspect dd.dddmp (imported from the working tree): the reserved words of the header
    lexer, its token rules in the order of PLY's master regular expression, `t_ignore`, and the
    productions of the header grammar."""
    sys.path.insert(0, REPO)
    import importlib
    dm = importlib.import_module('dd.dddmp')
    lx = dm.Lexer()
    reserved = sorted(lx.reserved.items())
    rules = []
    for _rx, findex in lx.lexer.lexstatere['INITIAL']:
        for item in findex:
            if item is None:
                continue
            _f, name = item
            if name is None:
                name = getattr(_f, '__name__', 't_?')[2:]
            elif _f is not None:
                name = getattr(_f, '__name__', 't_' + name)[2:]
            rules.append(name)
    regex = {}
    for name in dir(dm.Lexer):
        if name.startswith('t_') and name not in ('t_error', 't_ignore'):
            obj = getattr(dm.Lexer, name)
            rx = (obj.__doc__ or '') if callable(obj) else obj
            regex[name[2:]] = ''.join(rx.split())
    prods = []
    for name in sorted(dir(dm.Parser)):
        if name.startswith('p_') and name != 'p_error':
            doc = getattr(dm.Parser, name).__doc__ or ''
            prods.append((name, re.sub(r'\s+', ' ', doc).strip()))
    return reserved, rules, regex, dm.Lexer.t_ignore, prods


def generate():
    write_ctables()
    bdd_py = os.path.join(REPO, 'dd', 'bdd.py')
    mdd_py = os.path.join(REPO, 'dd', 'mdd.py')
    utils_py = os.path.join(REPO, 'dd', '_utils.py')
    rows, shape = extract_apply(bdd_py, 'BDD')
    mrows, mshape = extract_apply(mdd_py, 'MDD')
    consts = extract_consts(bdd_py)
    un, bi, te, al = extract_vocab()
    arity_ok = (extract_arity(utils_py) == ARITY_EXPECTED)
    reserved, tokens, prec, prods = extract_parser()
    L = []
    L.append('/- GENERATED by harness/extract.py from /repo — do not edit. -/')
    L.append('import DD.TableTypes')
    L.append('namespace Gen')
    L.append('open DD')
    def rows_lean(rs):
        return lean_list([
            '⟨' + lean_list([lean_str(a) for a in al_]) + ', ' + t + '⟩'
            for al_, t in rs])
    L.append(f'def applyTable : List ApplyRow := {rows_lean(rows)}')
    L.append(f'def applyShapeOk : Bool := {"true" if shape else "false"}')
    L.append(f'def mddApplyTable : List ApplyRow := {rows_lean(mrows)}')
    L.append(f'def mddApplyShapeOk : Bool := {"true" if mshape else "false"}')
    L.append(f'def unaryOps : List String := {lean_list(map(lean_str, un))}')
    L.append(f'def binaryOps : List String := {lean_list(map(lean_str, bi))}')
    L.append(f'def ternaryOps : List String := {lean_list(map(lean_str, te))}')
    L.append(f'def allOps : List String := {lean_list(map(lean_str, al))}')
    L.append(f'def arityShapeOk : Bool := {"true" if arity_ok else "false"}')
    L.append(f'def reorderStarts : Nat := {consts.get("REORDER_STARTS", 0)}')
    L.append(f'def reorderFactor : Nat := {consts.get("REORDER_FACTOR", 0)}')
    L.append(f'def growthFactor : Nat := {consts.get("GROWTH_FACTOR", 0)}')
    # parser
    L.append('def reserved : List (String × String) := ' + lean_list(
        f'({lean_str(k)}, {lean_str(v)})' for k, v in sorted(reserved.items())))
    simple = {'AND', 'OR', 'NOT', 'IMPLIES', 'EQUIV', 'XOR', 'EQUALS', 'LPAREN', 'RPAREN',
              'MINUS', 'COMMA', 'COLON', 'FORALL', 'EXISTS', 'RENAME', 'DIV', 'AT'}
    sp = []
    for name, rx, canon in sorted(tokens):
        if name in simple:
            for s in spellings_of(rx):
                sp.append(f'({lean_str(s)}, {lean_str(name)}, {lean_str(canon if canon is not None else s)})')
    L.append('/-- spelling ↦ (token type, canonical value) -/')
    L.append('def spellings : List (String × String × String) := ' + lean_list(sp))
    other = []
    for name, rx, canon in sorted(tokens):
        if name not in simple:
            other.append(f'({lean_str(name)}, {lean_str(re.sub(chr(92)+"s+", "", rx) if False else "".join(rx.split()))})')
    L.append('/-- the remaining token rules, whitespace-stripped verbose regexes -/')
    L.append('def otherTokens : List (String × String) := ' + lean_list(other))
    L.append('/-- precedence, low to high -/')
    L.append('def precedence : List (Assoc × String) := ' + lean_list(
        f'(.{a}, {lean_str(t)})' for a, t in prec))
    L.append('def productions : List (String × String) := ' + lean_list(
        f'({lean_str(n)}, {lean_str(d)})' for n, d in prods))
    # the same productions, one entry per alternative: (function, left-hand side, right-hand side
    # symbols); `%prec X` annotations dropped (they only resolve conflicts)
    gram = []
    for n, d in prods:
        lhs, _, rhs = d.partition(':')
        for alt in rhs.split('|'):
            syms = alt.split()
            if '%prec' in syms:
                syms = syms[:syms.index('%prec')]
            gram.append(f'({lean_str(n)}, {lean_str(lhs.strip())}, ' + lean_list(map(lean_str, syms)) + ')')
    L.append('def grammar : List (String × String × List String) := ' + lean_list(gram))
    # lexer facts of the Python runtime / PLY that the tokenizer model relies on
    L.append('/-- code points of the zero digits of the Unicode decimal-digit runs matched by `\\d` (str patterns) -/')
    L.append('def decimalZeros : List Nat := ' + lean_list(str(z) for z in decimal_zeros()))
    L.append('/-- token rules in the order of the PLY master regular expression -/')
    L.append('def lexRuleOrder : List String := ' + lean_list(lean_str(n) for n in lex_rule_order()))
    L.append('def lexIgnore : String := ' + lean_str(lex_ignore()))
    # DDDMP header lexer / grammar (dd/dddmp.py)
    dres, drules, dregex, dignore, dprods = extract_dddmp()
    L.append('/-- reserved words of the DDDMP header lexer: text ↦ token type -/')
    L.append('def dddmpReserved : List (String × String) := ' + lean_list(
        f'({lean_str(k)}, {lean_str(v)})' for k, v in dres))
    L.append('/-- its token rules in the order of the PLY master regular expression -/')
    L.append('def dddmpLexRuleOrder : List String := ' + lean_list(lean_str(n) for n in drules))
    L.append('/-- ... and their whitespace-stripped verbose regexes -/')
    L.append('def dddmpTokenRules : List (String × String) := ' + lean_list(
        f'({lean_str(k)}, {lean_str(v)})' for k, v in sorted(dregex.items())))
    L.append('def dddmpLexIgnore : String := ' + lean_str(dignore))
    L.append('def dddmpProductions : List (String × String) := ' + lean_list(
        f'({lean_str(n)}, {lean_str(d)})' for n, d in dprods))
    L.append('end Gen')
    text = '\n'.join(L) + '\n'
    os.makedirs(os.path.dirname(OUT), exist_ok=True)
    old = open(OUT).read() if os.path.exists(OUT) else None
    if old != text:
        with open(OUT, 'w') as f:
            f.write(text)
    return hashlib.sha256(text.encode()).hexdigest(), old != text


if __name__ == '__main__':
    h, changed = generate()
    print(h, 'changed' if changed else 'unchanged')
