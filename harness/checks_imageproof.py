"""C13 extension (slice imageproof).

1. `preimage` with a renaming in which two keys share a value (`{a: b, c: b}`): it meets the
   literal preconditions of C13 (keys disjoint from values) and must equal
   quantify(trans & rename(target)) -- the former finding F5b, repaired (Lean: `DD.C13_preimage`;
   the fused recursion is not used for such a renaming).  The deterministic witness runs first,
   then generated dictionaries, with targets independent of the shared value and not.
2. Correspondence-only sessions (no oracle): `image` / `preimage` with ARBITRARY renamings
   (not injective, not adjacent, overlapping, levels out of range, undeclared names as keys or
   values), to pin the model's error behaviour to the code's.
"""
import checks_more as cm
from lib import SECTIONS_L2, TT
from funcs import Space, Builder
from checks_core import fresh


def _noninj_case(ctx, s, sp, bld, b, allnames, order, tr, tg, ren, q, fa):
    rtr = bld.build(sp, tr)
    rtg = bld.build(sp, tg)
    ans = s.op(0, 'preimage', rtr, rtg,
               ','.join(f'n:{k}=n:{v}' for k, v in ren.items()),
               ','.join('n:' + n for n in q), fa)
    got = s.val(ans)
    conj = tr & sp.rename(tg, ren)
    want = sp.forall(conj, q) if fa else sp.exists(conj, q)
    ctx.evaluations += 1
    if got is None or TT(b, allnames).of(got) != want:
        ctx.violation(
            'preimage differs from quantify(trans & rename(target)) for a renaming in which '
            'two keys share a value', dict(
                order=order, trans=tr, target=tg, rename=ren, qvars=q, forall=fa, got=ans,
                expected_tt=want,
                tags=dict(call='preimage')))


def extra_C13(ctx):
    rng = ctx.rng
    # ---- 1a. the witness: order a < b < c, preimage(TRUE, a & ~c, {a: b, c: b}, {b}, exists)
    names = ['a', 'b', 'c']
    sp = Space(names)
    s = fresh(ctx, names)
    bld = Builder(s)
    b = s.mgr(0)
    tg = sp.var('a') & (sp.full & ~sp.var('c'))
    _noninj_case(ctx, s, sp, bld, b, names, names, sp.full, tg, {'a': 'b', 'c': 'b'}, ['b'], 0)
    ctx.case(('noninj-witness',))
    ctx.add_session(s, SECTIONS_L2, 'C13 non-injective witness')
    s.close()
    # ---- 1b. generated dictionaries {k1: v, k2: v} with k1, v, k2 consecutive in the order
    for k in range(12 if ctx.tier == 'quick' else 120):
        if ctx.time_left() < 5:
            break
        names = [f'v{i}' for i in range(rng.randint(3, 5))]
        order = list(names)
        rng.shuffle(order)
        i = rng.randrange(1, len(order) - 1)
        k1, v, k2 = order[i - 1], order[i], order[i + 1]
        ren = {k1: v, k2: v}
        allnames = sorted(names)
        sp = Space(allnames)
        s = fresh(ctx, order)
        bld = Builder(s)
        b = s.mgr(0)
        for _ in range(6):
            tr = rng.randrange(sp.full + 1)
            tg = rng.randrange(sp.full + 1)
            if rng.random() < 0.5:
                tg = sp.cof(tg, v, rng.randint(0, 1))
            q = [n for n in allnames if (n == v and rng.random() < 0.8) or rng.random() < 0.3]
            q = sorted(set(q))
            _noninj_case(ctx, s, sp, bld, b, allnames, order, tr, tg, ren, q, rng.randint(0, 1))
        ctx.case(('noninj', tuple(order), i))
        ctx.add_session(s, SECTIONS_L2, f'C13 non-injective {order}')
        s.close()
    # ---- 2. correspondence only: arbitrary renamings
    names = ['a', 'b', 'c', 'd']
    for k in range(25 if ctx.tier == 'quick' else 250):
        if ctx.time_left() < 5:
            break
        order = list(names)
        rng.shuffle(order)
        sp = Space(sorted(names))
        s = fresh(ctx, order)
        bld = Builder(s)
        b = s.mgr(0)
        for _ in range(8):
            tr = bld.build(sp, rng.randrange(sp.full + 1))
            tg = bld.build(sp, rng.randrange(sp.full + 1))
            ks = rng.sample(names, rng.randint(0, 3))
            ren = {x: rng.choice(names) for x in ks}
            aslev = rng.random() < 0.4

            def key(n):
                if aslev:
                    off = rng.choice([0, 0, 0, 3, -5]) if rng.random() < 0.2 else 0
                    return f'l:{b.vars[n] + off}'
                return f'n:{n}' if rng.random() < 0.9 else 'n:zz'
            rs = ','.join(f'{key(x)}={key(y)}' for x, y in ren.items())
            # (declared names only in qvars: `_map_to_level(set(qvars))` looks at an arbitrary
            # first element, so an undeclared name there gives KeyError or ValueError by hash order)
            q = [n for n in names if rng.random() < 0.4]
            qs = ','.join((f'l:{b.vars[n]}' if aslev else f'n:{n}') for n in q)
            fa = rng.randint(0, 1)
            s.op(0, 'preimage', tr, tg, rs, qs, fa)
            s.op(0, 'image', tr, tg, rs, qs, fa)
            ctx.evaluations += 2
        ctx.case(('arbitrary-renaming', tuple(order), k))
        ctx.add_session(s, SECTIONS_L2, f'C13 arbitrary renamings {order}')
        s.close()
    # ---- 3. correspondence only: a target / trans that is not a node.  The test `fused` reads
    # the support of the target (KeyError) before the recursion looks at `trans`: with
    # `trans = FALSE` the call used to return FALSE without touching the target.
    for order in (['a', 'b', 'c'], ['b', 'a', 'c'], ['a', 'c', 'b']):
        s = fresh(ctx, order)
        va = s.val(s.op(0, 'var', 'a'))
        for tr, tg in ((-1, 9999), (1, 9999), (-1, -9999), (9999, va), (9999, 9999), (va, 9999)):
            for rs in ('n:a=n:b', 'n:a=n:c', 'n:a=n:b,n:c=n:b', ''):
                s.op(0, 'preimage', tr, tg, rs, 'n:b', 0)
                s.op(0, 'image', tr, tg, rs, 'n:a', 0)
                ctx.evaluations += 2
        ctx.case(('not-a-node', tuple(order)))
        ctx.add_session(s, SECTIONS_L2, f'C13 operands that are not nodes {order}')
        s.close()


def check_C13(ctx):
    cm.check_C13(ctx)
    extra_C13(ctx)


REGISTRY = {
    'C13': (check_C13,
            'exhaustive one primed/unprimed pair (16x16 functions, both orders, all qvars, both '
            'quantifiers, names/levels); sampled 2-3 pairs, adjacent and (image) arbitrary orders; '
            'preimage with renamings in which two keys share a value (witness + generated), targets '
            'depending on the rename values; '
            'correspondence-only image/preimage with arbitrary renamings (not injective, not '
            'adjacent, overlapping, out-of-range levels, undeclared names)'),
}
