#!/usr/bin/env python3
"""Run the registered checks against a seeded change:  seedtest.py <seeded dir> [check ids...]

Applies <dir>/patch.diff to /repo, confirms the baseline tests still pass and the demo
fails, runs the given checks (quick tier), undoes the patch, and writes <dir>/result.json.
"""
import json
import os
import subprocess
import sys
import time

REPO = '/repo'
# while other agents are running checks against /repo, test seeds on a scratch worktree
SCRATCH = os.environ.get('SEED_SCRATCH', '/tmp/seedrepo')
if SCRATCH:
    if not os.path.isdir(SCRATCH):
        subprocess.run(f'git -C /repo worktree add -q --detach {SCRATCH} HEAD', shell=True)
    else:
        subprocess.run(f'git -C {SCRATCH} checkout -q --detach $(git -C /repo rev-parse HEAD)', shell=True)
    REPO = SCRATCH
VERIF = os.path.dirname(os.path.dirname(os.path.abspath(__file__)))


def sh(cmd, cwd=None, env=None, timeout=1800):
    p = subprocess.run(cmd, shell=True, cwd=cwd, env=env, text=True,
                       stdout=subprocess.PIPE, stderr=subprocess.STDOUT, timeout=timeout)
    return p.returncode, p.stdout


def main():
    d = os.path.abspath(sys.argv[1])
    checks = sys.argv[2:]
    meta = {}
    mp = os.path.join(d, 'meta.json')
    if os.path.exists(mp):
        meta = json.load(open(mp))
    if not checks:
        checks = meta.get('checks', [meta.get('property')])
    rc, out = sh('git status --porcelain --untracked-files=no', cwd=REPO)
    if out.strip():
        print('repo not clean:', out)
        return 2
    res = dict(patch=os.path.join(d, 'patch.diff'), checks={})
    env = dict(os.environ, PYTHONPATH=REPO, PYTHONDONTWRITEBYTECODE='1', DD_REPO=REPO)
    demo = os.path.join(d, 'demo.py')
    rc0, out0 = sh(f'/venv/bin/python {demo}', cwd=d, env=env)
    res['demo_clean_rc'] = rc0
    rc, out = sh(f'git apply {d}/patch.diff', cwd=REPO)
    if rc != 0:
        print('patch does not apply:', out)
        return 2
    try:
        rc, out = sh('/venv/bin/python -m pytest -q -p no:cacheprovider --timeout=900 '
                     '--continue-on-collection-errors 2>&1 | tail -1', cwd=REPO,
                     env=dict(os.environ, PYTHONPATH=REPO))
        res['tests_tail'] = out.strip()
        rc1, out1 = sh(f'/venv/bin/python {demo}', cwd=d, env=env)
        res['demo_patched_rc'] = rc1
        for c in checks:
            t = time.time()
            rc, out = sh(f'/venv/bin/python harness/vcheck.py {c} --tier quick', cwd=VERIF,
                         env=dict(os.environ, VERIF_SEED=os.environ.get('VERIF_SEED', '0'), DD_REPO=REPO,
                                  VERIF_EVIDENCE_DIR=os.path.join(VERIF, '.work', 'seed-evidence')))
            viol = [ln for ln in out.split('\n') if ln.startswith('VIOLATION')]
            res['checks'][c] = dict(exit=rc, violations=viol[:3], wall=round(time.time() - t, 1),
                                    tail=out.strip().split('\n')[-1][:300])
    finally:
        sh('git checkout -- .', cwd=REPO)
        sh('rm -f bdd bdd.dot bdd.ext', cwd=REPO)
    # the unchanged tree must be quiet again (evidence files are rewritten)
    with open(os.path.join(d, 'result.json'), 'w') as f:
        json.dump(res, f, indent=1)
    print(json.dumps(res, indent=1))
    caught = [c for c, r in res['checks'].items() if r['exit'] == 1]
    print('CAUGHT BY:', caught if caught else 'NONE')
    return 0


if __name__ == '__main__':
    sys.exit(main())
