"""Check C15 — MDD conversion and MDD operations preserve meaning.

Protocol ops of this slice (real code side; the model side is `lean/DD/MddDriver.lean`,
exe `ddvmdd`):

    <mdd id> mdd_new [<dvars>|none]          MDD(dvars) / MDD()
    <mdd id> mdd_foa <level> <n0,n1,...>     find_or_add
    <mdd id> mdd_ite <g> <u> <v>
    <mdd id> mdd_apply <op> <u> [<v> [<w>]]
    <mdd id> mdd_incref|mdd_decref|mdd_ref <u>
    <mdd id> mdd_gc [<roots>]
    <mdd id> mdd_len | mdd_contains <u> | mdd_succ <u> | mdd_var_at_level <i> | mdd_level_of_var <v>
    <mdd id> mdd_state                       canonical dump (vars, succ, ref, max, free, pred, cache)
    <bdd id> bdd_to_mdd <dvars> <mdd id>     answer: the `umap`, sorted

`dvars` = comma separated `name:level:len:bit0.bit1...` in dict order.
Recorded nondeterminism: every `self._free.pop()` of `MDD._allocate` (`pop=<n>`), the order
of `bdd.levels(skip_terminals=True)` inside `bdd_to_mdd` (`lev=...`), BDD swaps (`swap=...`,
recorded by impl.py).
"""
import itertools

import impl as implmod
import lib
from lib import Session, TT, check_invariants, SECTIONS_L3
from funcs import Space, Builder

import dd.mdd as _mdd

_bdd = implmod._bdd

MDD_SECTIONS = SECTIONS_L3 + ('term', 'max', 'free')

# ---------------------------------------------------------------------------
# real-code side of the protocol
# ---------------------------------------------------------------------------

_orig_allocate = _mdd.MDD._allocate
_orig_levels = _bdd.BDD.levels


def _allocate_w(self):
    had = bool(self._free)
    u = _orig_allocate(self)
    if had:
        implmod.REC.items.append(f'pop={u}')
    return u


def _levels_w(self, skip_terminals=False):
    if getattr(self, '_verif_b2m', False):
        snap = [u for u, _i, _v, _w in _orig_levels(self, skip_terminals)]
        implmod.REC.items.append('lev=' + '.'.join(map(str, snap)))
    return _orig_levels(self, skip_terminals)


_mdd.MDD._allocate = _allocate_w
_bdd.BDD.levels = _levels_w


def parse_dvars(s):
    d = {}
    for item in implmod.split1(s):
        f = item.split(':')
        name, level, ln = f[0], int(f[1]), int(f[2])
        bits = f[3].split('.') if len(f) > 3 and f[3] else []
        d[name] = dict(level=level, len=ln, bitnames=bits)
    return d


def fmt_dvars(dvars):
    """`dvars`: list of (name, level, len, bits) in dict order."""
    return ','.join(f'{n}:{lv}:{ln}:' + '.'.join(bits) for n, lv, ln, bits in dvars)


def dump_mdd(m):
    vars_ = ','.join(f"{v}:{d['level']}:{d['len']}" for v, d in m.vars.items())
    t1 = m._succ.get(1)
    if t1 is None:
        term = '0'
    elif t1 == (len(m.vars), None):
        term = '1'
    else:
        term = 'BROKEN'
    succ = ','.join(
        f'{u}:{t[0]}:' + '.'.join(map(str, t[1:]))
        for u, t in sorted(m._succ.items()) if u != 1)
    ref = ','.join(f'{u}:{c}' for u, c in sorted(m._ref.items()))
    pred = ','.join(
        ':'.join(map(str, t)) + f'>{u}'
        for t, u in sorted(m._pred.items(), key=lambda tu: tu[1]))
    cache = ','.join(
        f'{g}:{u}:{v}>{w}' for (g, u, v), w in sorted(m._ite_table.items()))
    free = ','.join(map(str, sorted(m._free)))
    return (f'vars={vars_}|term={term}|succ={succ}|ref={ref}|max={m._max}'
            f'|free={free}|pred={pred}|cache={cache}')


def _mdds(impl):
    return impl.objs.setdefault('mdd', {})


def _op_mdd_new(impl, mid, a):
    if not a:
        m = _mdd.MDD(dict())
    elif a[0] == 'none':
        m = _mdd.MDD()
    else:
        m = _mdd.MDD(parse_dvars(a[0]))
    _mdds(impl)[mid] = m
    return '-'


def _op_bdd_to_mdd(impl, mid, a):
    b = impl.mgrs[mid]
    dvars = parse_dvars(a[0])
    dst = int(a[1])
    b._verif_b2m = True
    try:
        m, umap = _mdd.bdd_to_mdd(b, dvars)
    finally:
        b._verif_b2m = False
    _mdds(impl)[dst] = m
    return ','.join(f'{u}:{r}' for u, r in sorted(umap.items()))


def _mdd_op(name):
    def run(impl, mid, a):
        m = _mdds(impl)[mid]
        return name(m, a)
    return run


def _foa(m, a):
    return str(m.find_or_add(int(a[0]), *map(int, implmod.split1(a[1]) if len(a) > 1 else [])))


def _succ_str(m, a):
    t = m._succ[abs(int(a[0]))]
    return f'{t[0]}:' + '.'.join(map(str, t[1:]))


def _gc(m, a):
    if a:
        m.collect_garbage(list(map(int, implmod.split1(a[0]))))
    else:
        m.collect_garbage()
    return '-'


def _unit(f):
    def g(m, a):
        f(m, a)
        return '-'
    return g


implmod.EXT_LINE_OPS.update({
    'mdd_new': _op_mdd_new,
    'bdd_to_mdd': _op_bdd_to_mdd,
    'mdd_foa': _mdd_op(_foa),
    'mdd_ite': _mdd_op(lambda m, a: str(m.ite(int(a[0]), int(a[1]), int(a[2])))),
    'mdd_apply': _mdd_op(lambda m, a: str(m.apply(a[0], *map(int, a[1:])))),
    'mdd_incref': _mdd_op(_unit(lambda m, a: m.incref(int(a[0])))),
    'mdd_decref': _mdd_op(_unit(lambda m, a: m.decref(int(a[0])))),
    'mdd_ref': _mdd_op(lambda m, a: str(m.ref(int(a[0])))),
    'mdd_gc': _mdd_op(_gc),
    'mdd_len': _mdd_op(lambda m, a: str(len(m))),
    'mdd_contains': _mdd_op(lambda m, a: implmod.show_bool(int(a[0]) in m)),
    'mdd_succ': _mdd_op(_succ_str),
    'mdd_var_at_level': _mdd_op(lambda m, a: m.var_at_level(int(a[0]))),
    'mdd_level_of_var': _mdd_op(lambda m, a: str(m.level_of_var(a[0]))),
    'mdd_state': _mdd_op(lambda m, a: dump_mdd(m)),
})


# ---------------------------------------------------------------------------
# independent oracles (walk `mdd._succ` / `bdd._succ` only)
# ---------------------------------------------------------------------------

def mdd_eval(m, u, asg):
    """Value of the MDD reference `u` under `asg` (level -> integer value)."""
    sgn = 1
    for _ in range(len(m.vars) + 2):
        if abs(u) == 1:
            return (u * sgn) == 1
        if u < 0:
            sgn = -sgn
        t = m._succ[abs(u)]
        u = t[1 + asg[t[0]]]
    raise AssertionError('walk too long (diagram not ordered)')


class MSpace:
    """All integer assignments of an MDD manager, by level."""

    def __init__(self, m):
        by_level = {d['level']: (v, d['len']) for v, d in m.vars.items()}
        self.n = len(m.vars)
        self.lens = [by_level[j][1] for j in range(self.n)]
        self.names = [by_level[j][0] for j in range(self.n)]
        self.asgs = list(itertools.product(*[range(k) for k in self.lens]))
        self.size = len(self.asgs)
        self.full = (1 << self.size) - 1
        self.index = {a: k for k, a in enumerate(self.asgs)}

    def tt(self, m, u):
        t = 0
        for k, a in enumerate(self.asgs):
            if mdd_eval(m, u, a):
                t |= 1 << k
        return t

    def neg(self, t):
        return self.full & ~t

    def cof(self, t, level, val):
        """Truth table of the cofactor (still over the whole space)."""
        r = 0
        for k, a in enumerate(self.asgs):
            b = a[:level] + (val,) + a[level + 1:]
            if (t >> self.index[b]) & 1:
                r |= 1 << k
        return r

    def depends(self, t, level):
        c0 = self.cof(t, level, 0)
        return any(self.cof(t, level, v) != c0 for v in range(1, self.lens[level]))


def check_mdd_invariants(m, ledger=None, sp=None):
    """Structure of the MDD manager + exact counts (in-degree + ledger) + allocator + cache."""
    bad = []
    succ = m._succ
    n = len(m.vars)
    lvl_len = {d['level']: d['len'] for d in m.vars.values()}
    if succ.get(1) != (n, None):
        bad.append(f'terminal is {succ.get(1)}')
    indeg = {u: 0 for u in succ}
    seen = {}
    for u, t in succ.items():
        if u == 1:
            continue
        i, kids = t[0], t[1:]
        if u < 2:
            bad.append(f'node number {u}')
        if not (0 <= i < n):
            bad.append(f'node {u} level {i}')
            continue
        if len(kids) != lvl_len.get(i):
            bad.append(f'node {u} has {len(kids)} successors, variable has {lvl_len.get(i)} values')
        if not kids or kids[0] is None or kids[0] <= 0:
            bad.append(f'node {u}: first successor {kids[:1]} not regular')
        if len(set(kids)) == 1:
            bad.append(f'node {u} redundant')
        for x in kids:
            if x is None or abs(x) not in succ:
                bad.append(f'node {u} successor {x} missing')
            else:
                if not (i < succ[abs(x)][0]):
                    bad.append(f'node {u} not ordered wrt {x}')
                indeg[abs(x)] += 1
        if t in seen:
            bad.append(f'duplicate tuple {t}: {seen[t]}, {u}')
        seen[t] = u
        if m._pred.get(t) != u:
            bad.append(f'_pred[{t}] = {m._pred.get(t)}, node {u}')
    if len(m._pred) != len(succ) - (1 if 1 in succ else 0):
        bad.append(f'_pred has {len(m._pred)} entries for {len(succ) - 1} nodes')
    for u in succ:
        ext = 0 if ledger is None else ledger.get(u, 0)
        want = indeg[u] + ext
        if u not in m._ref:
            bad.append(f'no count for {u}')
        elif ledger is not None and m._ref[u] != want:
            bad.append(f'ref[{u}]={m._ref[u]} expected {want} (indeg {indeg[u]}, held {ext})')
        elif ledger is None and m._ref[u] < indeg[u]:
            bad.append(f'ref[{u}]={m._ref[u]} < indeg {indeg[u]}')
    for u in m._ref:
        if u not in succ:
            bad.append(f'count for missing node {u}')
    # allocator: every number in 2.._max is either a node or free, never both
    used = set(succ) - {1}
    if used & m._free:
        bad.append(f'free and used: {sorted(used & m._free)}')
    if (used | m._free) != set(range(2, m._max + 1)):
        bad.append(f'allocator: used {sorted(used)} free {sorted(m._free)} max {m._max}')
    # computed table
    if not bad and sp is not None:
        for (g, u, v), w in m._ite_table.items():
            if any(abs(x) not in succ for x in (g, u, v, w)):
                bad.append(f'cache entry {(g, u, v, w)} names a dead node')
                continue
            tg, tu, tv, tw = (sp.tt(m, x) for x in (g, u, v, w))
            if tw != ((tg & tu) | (sp.neg(tg) & tv)):
                bad.append(f'cache entry {(g, u, v)} -> {w} is not the if-then-else')
    return bad


def mdd_reachable(m, roots):
    seen = set()
    stack = [abs(r) for r in roots]
    while stack:
        u = stack.pop()
        if u in seen:
            continue
        seen.add(u)
        if u != 1:
            stack.extend(abs(x) for x in m._succ[u][1:])
    return seen


def mdd_canon_problems(m, sp):
    """Equal functions must be equal references (complemented edges included)."""
    bad = []
    seen = {}
    for u in m._succ:
        for r in (u, -u):
            t = sp.tt(m, r)
            if t in seen and seen[t] != r:
                bad.append(f'references {seen[t]} and {r} denote the same function')
            seen[t] = r
    return bad


class MBuilder:
    """Builds MDD functions (truth tables over `MSpace`) bottom-up with `mdd_foa` lines."""

    def __init__(self, sess, mid, sp):
        self.s = sess
        self.mid = mid
        self.sp = sp
        self.memo = {}

    def build(self, t, level=0):
        sp = self.sp
        if t == 0:
            return -1
        if t == sp.full:
            return 1
        r = self.memo.get(t)
        if r is not None:
            return r
        j = level
        while not sp.depends(t, j):
            j += 1
        kids = [self.build(sp.cof(t, j, v), j + 1) for v in range(sp.lens[j])]
        ans = self.s.op(self.mid, 'mdd_foa', j, ','.join(map(str, kids)))
        r = self.s.val(ans)
        if r is None:
            raise RuntimeError(f'building failed: {ans}')
        self.memo[t] = r
        return r


class MLedger:
    """References the harness holds in MDD managers."""

    def __init__(self, sess):
        self.s = sess
        self.d = {}

    def of(self, mid):
        return self.d.setdefault(mid, {})

    def incref(self, mid, u):
        r = self.s.op(mid, 'mdd_incref', u)
        if r.startswith('ok'):
            d = self.of(mid)
            d[abs(u)] = d.get(abs(u), 0) + 1
        return r

    def decref(self, mid, u):
        d = self.of(mid)
        held = d.get(abs(u), 0)
        r = self.s.op(mid, 'mdd_decref', u)
        if r.startswith('ok') and held > 0:
            d[abs(u)] = held - 1
        return r


def get_mdd(sess, mid):
    return sess.impl.objs['mdd'][mid]


# ---------------------------------------------------------------------------
# part A — bdd_to_mdd
# ---------------------------------------------------------------------------

GROUPINGS = [sizes for k in (1, 2, 3) for sizes in itertools.product((1, 2, 3), repeat=k)
             if sum(sizes) <= 6]
WIDE_GROUPINGS = [(4,), (4, 3), (3, 4), (4, 4, 2), (2, 4, 4), (4, 3, 3), (1, 4, 4), (4, 2, 4), (3, 3, 4), (4, 4, 3)]
INT_NAMES = ['x', 'y', 'z']


def bit_names(n):
    return [f'b{k}' for k in range(n)]


def int_value(sp, groups, a, var):
    """Integer value of `var` under the bit assignment index `a` of Space `sp`."""
    bits = dict(groups)[var]
    return sum(((a >> sp.idx(b)) & 1) << k for k, b in enumerate(bits))


def random_function(rng, sp, groups):
    """A truth table over the bits: uniform, sparse, bit-subset or integer-structured."""
    kind = rng.choice(['uniform', 'uniform', 'sparse', 'subset', 'int', 'int', 'const'])
    if kind == 'uniform':
        return rng.getrandbits(sp.size)
    if kind == 'sparse':
        t = 0
        for _ in range(rng.randint(1, 3)):
            t |= 1 << rng.randrange(sp.size)
        return t if rng.random() < 0.5 else sp.neg(t)
    if kind == 'subset':
        keep = rng.sample(sp.names, rng.randint(1, min(3, sp.n)))
        table = rng.getrandbits(1 << len(keep))
        t = 0
        for a in range(sp.size):
            k = sum(((a >> sp.idx(b)) & 1) << j for j, b in enumerate(keep))
            if (table >> k) & 1:
                t |= 1 << a
        return t
    if kind == 'const':
        return rng.choice([0, sp.full])
    # integer structured
    names = [v for v, _ in groups]
    x = rng.choice(names)
    y = rng.choice(names)
    c = rng.randrange(8)
    rel = rng.choice(['eq', 'lt', 'sum', 'xeq', 'odd'])
    t = 0
    for a in range(sp.size):
        vx = int_value(sp, groups, a, x)
        vy = int_value(sp, groups, a, y)
        if rel == 'eq':
            val = vx == vy if x != y else vx == c % (1 << len(dict(groups)[x]))
        elif rel == 'lt':
            val = vx < vy if x != y else vx < c
        elif rel == 'sum':
            val = (vx + vy) % 3 == c % 3
        elif rel == 'xeq':
            val = vx == c % (1 << len(dict(groups)[x]))
        else:
            val = (vx + vy + c) % 2 == 1
        if val:
            t |= 1 << a
    return t


def conversion_oracle(ctx, s, sp, groups, levels, held, before, ans, replay):
    """`held`: BDD references the harness holds; `before`: their truth tables by name."""
    bad = []
    b = s.mgr(0)
    if not ans.startswith('ok'):
        return [f'bdd_to_mdd answered {ans}']
    umap = {}
    for item in implmod.split1(ans[3:]):
        k, v = item.split(':')
        umap[int(k)] = int(v)
    m = get_mdd(s, 0)
    # the BDD: intact
    bad += check_invariants(b, s.ledger.get(0))
    tt = TT(b, sp.names)
    for r in held:
        if abs(r) not in b._succ:
            bad.append(f'held BDD reference {r} deleted')
        elif tt.of(r) != before[r]:
            bad.append(f'held BDD reference {r} changed its function')
    # bits in zones: the order `bdd_to_mdd` asked for
    want_order = [bit for var in sorted(levels, key=levels.get) for bit in dict(groups)[var]]
    if [b._level_to_var[i] for i in range(len(b.vars))] != want_order:
        bad.append(f'bit order {b.vars}, zones want {want_order}')
    if bad:
        return bad
    # the MDD
    bad += check_mdd_invariants(m, {})
    if bad:
        return bad
    msp = MSpace(m)
    bad += mdd_canon_problems(m, msp)
    # every referenced BDD node has an image
    for r in held:
        if abs(r) not in umap:
            bad.append(f'held BDD reference {r} missing from umap')
    # meaning: evaluate on every integer assignment (first listed bit least significant)
    def lift(t):
        r = 0
        for k, asg in enumerate(msp.asgs):
            a = 0
            for j, val in enumerate(asg):
                for kk, bit in enumerate(dict(groups)[msp.names[j]]):
                    if (val >> kk) & 1:
                        a |= 1 << sp.idx(bit)
            if (t >> a) & 1:
                r |= 1 << k
        return r

    def first_diff(t1, t2):
        d = t1 ^ t2
        k = (d & -d).bit_length() - 1
        return dict(zip(msp.names, msp.asgs[k]))

    for u, r in sorted(umap.items()):
        if abs(r) not in m._succ:
            bad.append(f'umap[{u}] = {r} is not an MDD node')
            continue
        want = lift(tt.of(u))
        got = msp.tt(m, r)
        ctx.evaluations += msp.size
        if got != want:
            bad.append(f'umap[{u}] = {r}: MDD and BDD differ at {first_diff(got, want)}')
    for r in held:
        if abs(r) in umap and abs(umap[abs(r)]) in m._succ:
            mr = -umap[abs(r)] if r < 0 else umap[abs(r)]
            want = lift(before[r])
            got = msp.tt(m, mr)
            if got != want:
                bad.append(f'held reference {r}: flip(umap[{abs(r)}], {r}) = {mr} differs from the '
                           f'function held before the call at {first_diff(got, want)}')
    return bad


def conversion_case(ctx, nbits, sizes, bit_order, perm_bits, int_levels, dict_order, tts,
                    warm=False, garbage=True, label='conv', dyn=False):
    """One `bdd_to_mdd` call on a manager holding the functions `tts` (over Space of the bits).

    `perm_bits`: the bits in the order they are dealt to the integer variables;
    `int_levels`: level of each integer variable; `dict_order`: order of `dvars` entries."""
    rng = ctx.rng
    bits = bit_names(nbits)
    sp = Space(bits)
    groups = []
    pos = 0
    for k, sz in enumerate(sizes):
        groups.append((INT_NAMES[k], list(perm_bits[pos:pos + sz])))
        pos += sz
    levels = {INT_NAMES[k]: int_levels[k] for k in range(len(sizes))}
    s = Session(ctx)
    s.new(0, bit_order)
    if dyn:
        # dynamic reordering enabled with a low threshold: `cofactor` is a decorated method
        s.op(0, 'configure', 1)
        s.op(0, 'set_last_len', rng.randint(1, 6))
        ctx.count('conv:dynamic-reordering-on')
    if warm:
        # a used manager: freed and re-used numbers, swaps
        from checks_core import warm_up
        warm_up(ctx, s, bits, steps=rng.randint(8, 25))
        ctx.count('conv:warm')
    bld = Builder(s)
    held = []
    for t in tts:
        bld.reset()
        r = bld.build(sp, t)
        if rng.random() < 0.3:
            r = -r
        s.incref(0, r)
        held.append(r)
    if garbage:
        for _ in range(rng.randint(0, 3)):
            bld.reset()
            bld.build(sp, rng.getrandbits(sp.size))
    b = s.mgr(0)
    tt = TT(b, sp.names)
    before = {r: tt.of(r) for r in held}
    dvars = [(v, levels[v], 1 << len(bs), bs) for v, bs in groups]
    dvars = [dvars[k] for k in dict_order]
    if dyn:
        # arm the harness trigger: the first ELIGIBLE reordering request inside the call would fire
        # (and sifting would destroy the zone order mid-loop); none may become eligible
        s.op(0, 'set_last_len', 1)
        s.op(0, 'fire_in', 1)
    ans = s.op(0, 'bdd_to_mdd', fmt_dvars(dvars), 0)
    if dyn:
        if implmod._FIRE.get(id(b)) != 1:
            ctx.violation('a reordering request became eligible inside bdd_to_mdd', dict(
                dvars=fmt_dvars(dvars), lines=list(s.lines),
                tags=dict(call='bdd_to_mdd', request_inside=True)))
        s.op(0, 'fire_off')
    replay = dict(bit_order=list(bit_order), dvars=fmt_dvars(dvars), tts=list(tts), held=held,
                  lines=list(s.lines))
    bad = conversion_oracle(ctx, s, sp, groups, levels, held, before, ans, replay)
    if bad:
        ctx.violation('bdd_to_mdd does not preserve meaning', dict(
            problems=bad[:5], tags=dict(call='bdd_to_mdd'), **replay))
    ctx.count('conv:' + 'x'.join(map(str, sizes)))
    ctx.count(f'conv:functions={len(tts)}')
    ctx.case((label, tuple(bit_order), fmt_dvars(dvars), tuple(tts)))
    s.op(0, 'state')
    if ans.startswith('ok'):
        s.op(0, 'mdd_state')
    return s


def check_conversions(ctx, budget):
    rng = ctx.rng
    t_end = ctx.t0 + budget
    import time
    n = 0
    # dense part: every function of <= 3 bits, every grouping, bit order, integer order (thorough);
    # quick: a seed-dependent slice of it
    dense = []
    for nbits in (1, 2, 3):
        bits = bit_names(nbits)
        for sizes in GROUPINGS:
            if sum(sizes) != nbits:
                continue
            for bit_order in itertools.permutations(bits):
                for perm_bits in itertools.permutations(bits):
                    for int_levels in itertools.permutations(range(len(sizes))):
                        dense.append((nbits, sizes, bit_order, perm_bits, int_levels))
    if ctx.tier == 'quick':
        rng.shuffle(dense)
        dense = dense[:40]
    else:
        # one part of the dense enumeration per shard of a sharded thorough run
        dense = dense[getattr(ctx, 'shard', 0)::max(1, getattr(ctx, 'nshards', 1))]
        rng.shuffle(dense)
    for nbits, sizes, bit_order, perm_bits, int_levels in dense:
        if time.time() > t_end:
            break
        sp_size = 1 << (1 << nbits)
        if ctx.tier == 'quick':
            tts_list = [[rng.randrange(sp_size)] for _ in range(2)] + [[rng.randrange(sp_size) for _ in range(2)]]
        else:
            tts_list = [[t] for t in range(sp_size)] if nbits <= 2 else \
                [[t] for t in rng.sample(range(sp_size), 40)]
            tts_list += [[rng.randrange(sp_size) for _ in range(rng.randint(2, 3))] for _ in range(3)]
        for tts in tts_list:
            dict_order = list(range(len(sizes)))
            rng.shuffle(dict_order)
            s = conversion_case(ctx, nbits, sizes, bit_order, perm_bits, int_levels, dict_order, tts,
                                label='dense')
            ctx.add_session(s, MDD_SECTIONS, 'C15 conversion (dense)')
            s.close()
            n += 1
    # sampled part: 4..6 bits
    while time.time() < t_end:
        sizes = rng.choice(GROUPINGS)
        if rng.random() < 0.2:
            # ten or more bits, integer variables with 16 values
            sizes = rng.choice(WIDE_GROUPINGS)
            ctx.count('conversion:wide')
        nbits = sum(sizes)
        bits = bit_names(nbits)
        bit_order = bits[:]
        rng.shuffle(bit_order)
        perm_bits = bits[:]
        rng.shuffle(perm_bits)
        int_levels = list(range(len(sizes)))
        rng.shuffle(int_levels)
        dict_order = list(range(len(sizes)))
        rng.shuffle(dict_order)
        sp = Space(bits)
        groups = []
        pos = 0
        for k, sz in enumerate(sizes):
            groups.append((INT_NAMES[k], perm_bits[pos:pos + sz]))
            pos += sz
        tts = [random_function(rng, sp, groups) for _ in range(rng.randint(1, 3))]
        # dynamic reordering only on fresh managers: the warm-up history does not track which of its
        # references survive an implicit reordering (a release of a dead number would steal a count)
        warm = rng.random() < 0.35
        s = conversion_case(ctx, nbits, sizes, bit_order, perm_bits, int_levels, dict_order, tts,
                            warm=warm, label='sampled', dyn=(not warm and rng.random() < 0.2))
        ctx.add_session(s, MDD_SECTIONS, 'C15 conversion (sampled)')
        s.close()
        n += 1
    ctx.count('conversions', n)


# ---------------------------------------------------------------------------
# part B — MDD ite / apply pointwise, canonical references
# ---------------------------------------------------------------------------

from funcs import CONNECTIVES, ALIASES, NOT_ALIASES, FORALL_ALIASES, EXISTS_ALIASES  # noqa: E402

SHAPES = [
    # lens by level
    (3, 2), (2, 3), (2, 2, 2), (4,), (3,), (2, 2), (5,), (3, 3), (2, 3, 2), (4, 2), (1, 3), (3, 1, 2),
]


def new_mdd(s, mid, lens, rng=None):
    """`MDD(dvars)` with variables v0.. of the given sizes at levels 0..; dict order shuffled."""
    dv = [(f'v{j}', j, ln, []) for j, ln in enumerate(lens)]
    if rng is not None:
        rng.shuffle(dv)
    s.op(mid, 'mdd_new', fmt_dvars(dv))
    return get_mdd(s, mid)


def all_mdd_functions(s, mid, sp, led, tts=None):
    bld = MBuilder(s, mid, sp)
    refs = {}
    for t in (range(sp.full + 1) if tts is None else tts):
        refs[t] = bld.build(t)
    for t, r in refs.items():
        if abs(r) != 1:
            led.incref(mid, r)
    return refs


def mconn(sp, name, a, b):
    class _S:
        full = sp.full

        @staticmethod
        def neg(t):
            return sp.neg(t)
    return CONNECTIVES[name](_S, a, b)


def check_pointwise(ctx, budget):
    import time
    rng = ctx.rng
    t_end = ctx.t0 + budget
    shapes = [sh for sh in SHAPES]
    if ctx.tier == 'quick':
        k = ctx.seed % len(shapes)
        shapes = [shapes[k], shapes[(k + 5) % len(shapes)], shapes[(k + 7) % len(shapes)]]
    elif getattr(ctx, 'nshards', 1) > 1:
        k, n = ctx.shard, ctx.nshards
        shapes = [sh for j, sh in enumerate(shapes) if j % n == k % len(shapes) % n] or [shapes[k % len(shapes)]]
    for lens in shapes:
        if time.time() > t_end:
            break
        s = Session(ctx)
        led = MLedger(s)
        m = new_mdd(s, 0, lens, rng)
        sp = MSpace(m)
        if sp.size <= 6:
            tts = list(range(sp.full + 1))
            exhaustive = True
        else:
            tts = sorted({rng.getrandbits(sp.size) for _ in range(40 if ctx.tier == 'quick' else 120)}
                         | {0, sp.full})
            exhaustive = False
        refs = all_mdd_functions(s, 0, sp, led, tts)
        # equal functions <=> equal references among everything built
        bad = check_mdd_invariants(m, led.of(0), sp) + mdd_canon_problems(m, sp)
        inv = {}
        for t, r in refs.items():
            if sp.tt(m, r) != t:
                bad.append(f'builder: reference {r} does not denote {t}')
            inv[r] = t
        if bad:
            ctx.violation('MDD manager not canonical after building functions', dict(
                problems=bad[:5], lens=lens, lines=list(s.lines), tags=dict(call='mdd.find_or_add')))
        known = dict(refs)

        def expect(call, args, ans, want):
            """`want`: truth table the answer must denote; canonical: equal to a known reference."""
            r = s.val(ans)
            ctx.evaluations += 1
            if r is None:
                ctx.violation(f'{call} failed', dict(args=args, answer=ans, lens=lens,
                                                    lines=list(s.lines), tags=dict(call=call)))
                return None
            got = sp.tt(m, r)
            if got != want:
                ctx.violation(f'{call} is not pointwise', dict(
                    args=args, result=r, got=got, want=want, lens=lens, lines=list(s.lines),
                    tags=dict(call=call)))
            elif want in known and known[want] != r:
                ctx.violation('equal MDD functions with different references', dict(
                    args=args, result=r, other=known[want], lens=lens, lines=list(s.lines),
                    tags=dict(call=call, canonical=False)))
            else:
                known.setdefault(want, r)
            return r

        items = list(refs.items())
        conns = list(CONNECTIVES)
        if ctx.tier == 'quick':
            # every pair for two connectives (one alias each), sampled pairs for the rest
            full_conns = [conns[ctx.seed % len(conns)], conns[(ctx.seed + 3) % len(conns)]]
        else:
            full_conns = conns
        for cname in conns:
            aliases = ALIASES[cname] if (ctx.tier == 'thorough' and exhaustive and sp.size <= 4) else \
                [rng.choice(ALIASES[cname])]
            for al in aliases:
                if cname in full_conns and len(items) <= 64:
                    pairs = [(a, b) for a in items for b in items]
                    ctx.exhaustive = True
                else:
                    pairs = [(rng.choice(items), rng.choice(items)) for _ in range(150)]
                for (ta, ra), (tb, rb) in pairs:
                    if rng.random() < 0.2:
                        ra, ta = -ra, sp.neg(ta)
                    ans = s.op(0, 'mdd_apply', al, ra, rb)
                    expect('mdd.apply', (al, ra, rb), ans, mconn(sp, cname, ta, tb))
                ctx.count('apply:' + cname, len(pairs))
                ctx.case(('pairs', lens, al, len(pairs)))
        for al in NOT_ALIASES:
            for t, r in items[:20]:
                expect('mdd.apply', (al, r), s.op(0, 'mdd_apply', al, r), sp.neg(t))
        nt = 400 if ctx.tier == 'quick' else 4000
        for _ in range(nt):
            (tg, rg), (tu, ru), (tv, rv) = (rng.choice(items) for _ in range(3))
            if rng.random() < 0.3:
                rg, tg = -rg, sp.neg(tg)
            want = (tg & tu) | (sp.neg(tg) & tv)
            if rng.random() < 0.5:
                expect('mdd.ite', (rg, ru, rv), s.op(0, 'mdd_ite', rg, ru, rv), want)
            else:
                expect('mdd.apply', ('ite', rg, ru, rv), s.op(0, 'mdd_apply', 'ite', rg, ru, rv), want)
        ctx.count('ite-triples', nt)
        # the quantifier aliases, unknown operators, wrong arities
        (ta, ra), (tb, rb) = items[1], items[2]
        for al in FORALL_ALIASES + EXISTS_ALIASES:
            ans = s.op(0, 'mdd_apply', al, ra, rb)
            if ans != 'err NotImplementedError':
                ctx.violation('quantifier alias of MDD.apply', dict(alias=al, answer=ans, tags=dict(call='mdd.apply')))
        for args in (('and', ra), ('not', ra, rb), ('ite', ra, rb), ('nand', ra, rb), ('and', ra, rb, rb),
                     ('and', ra, 9999), ('and', 9999, ra), ('ite', ra, rb, 9999), ('!', 9999)):
            ans = s.op(0, 'mdd_apply', *args)
            if ans != 'err ValueError':
                ctx.violation('malformed MDD.apply call accepted', dict(args=args, answer=ans, tags=dict(call='mdd.apply')))
        bad = check_mdd_invariants(m, led.of(0), sp) + mdd_canon_problems(m, sp)
        for t, r in refs.items():
            if abs(r) not in m._succ or sp.tt(m, r) != t:
                bad.append(f'held reference {r} no longer denotes {t}')
        if bad:
            ctx.violation('MDD manager broken after operations', dict(
                problems=bad[:5], lens=lens, lines=list(s.lines), tags=dict(call='mdd.invariant')))
        # collect: exactly the nodes reachable from the held ones remain
        s.op(0, 'mdd_gc')
        bad = gc_problems(m, led.of(0), sp)
        if bad:
            ctx.violation('MDD collection', dict(problems=bad[:5], lens=lens, lines=list(s.lines),
                                                tags=dict(call='mdd.collect_garbage')))
        s.op(0, 'mdd_state')
        ctx.add_session(s, MDD_SECTIONS, f'C15 pointwise {lens}')
        s.close()


def gc_problems(m, ledger, sp=None):
    bad = check_mdd_invariants(m, ledger, sp)
    held = [u for u, c in ledger.items() if c > 0]
    for u in held:
        if u not in m._succ:
            bad.append(f'held node {u} deleted')
    if bad:
        return bad
    want = mdd_reachable(m, held) | {1}
    have = set(m._succ)
    if want != have:
        bad.append(f'after collect_garbage: nodes {sorted(have)}, reachable from held {sorted(want)}')
    if m._ite_table:
        bad.append('computed table not empty after collection')
    return bad


# ---------------------------------------------------------------------------
# part C — collect / operate interleavings, rejected calls
# ---------------------------------------------------------------------------

BIN_OPS = [al for als in ALIASES.values() for al in als]


class MHistory:
    """Random history on one MDD manager (id `mid` of session `s`)."""

    def __init__(self, ctx, s, mid, led):
        self.ctx = ctx
        self.rng = ctx.rng
        self.s = s
        self.mid = mid
        self.led = led
        self.m = get_mdd(s, mid)
        self.sp = MSpace(self.m)
        self.pool = [1, -1]
        self.held = []
        self.held_tt = {}

    def live(self, u):
        return abs(u) in self.m._succ

    def prune(self):
        self.pool = [u for u in self.pool if self.live(u)] or [1, -1]

    def add(self, ans):
        v = self.s.val(ans)
        if v is not None and v not in self.pool:
            self.pool.append(v)
        return v

    def pick(self):
        return self.rng.choice(self.pool)

    def hold(self, u):
        self.led.incref(self.mid, u)
        self.held.append(u)
        self.held_tt[u] = self.sp.tt(self.m, u)

    def release(self):
        if self.held:
            u = self.held.pop(self.rng.randrange(len(self.held)))
            self.led.decref(self.mid, u)

    def level_of(self, u):
        return self.m._succ[abs(u)][0]

    def step(self, weights=None):
        rng, s, mid, m = self.rng, self.s, self.mid, self.m
        kinds = weights or dict(foa=6, apply=8, neg=1, ite=4, hold=4, release=2, gc=2, gc_roots=1,
                                query=1, reject=1)
        k = rng.choices(list(kinds), weights=list(kinds.values()))[0]
        self.ctx.count('mop:' + k)
        n = self.sp.n
        if k == 'foa' and n:
            # respect the documented precondition: level above all successors
            j = rng.randrange(n)
            cands = [u for u in self.pool if self.level_of(u) > j]
            kids = [rng.choice(cands) for _ in range(self.sp.lens[j])]
            self.add(s.op(mid, 'mdd_foa', j, ','.join(map(str, kids))))
        elif k == 'apply':
            self.add(s.op(mid, 'mdd_apply', rng.choice(BIN_OPS), self.pick(), self.pick()))
        elif k == 'neg':
            self.add(s.op(mid, 'mdd_apply', rng.choice(NOT_ALIASES), self.pick()))
        elif k == 'ite':
            self.add(s.op(mid, 'mdd_ite', self.pick(), self.pick(), self.pick()))
        elif k == 'hold':
            self.hold(self.pick())
        elif k == 'release':
            self.release()
        elif k == 'gc':
            s.op(mid, 'mdd_gc')
            self.prune()
            return 'gc'
        elif k == 'gc_roots':
            # roots of either sign: `collect_garbage` takes `abs` (repaired finding F14)
            roots = sorted({self.pick() for _ in range(rng.randint(1, 3))})
            s.op(mid, 'mdd_gc', ','.join(map(str, roots)))
            self.prune()
            return 'gc_roots'
        elif k == 'query':
            q = rng.choice(['mdd_len', 'mdd_ref', 'mdd_contains', 'mdd_succ', 'mdd_var_at_level',
                            'mdd_level_of_var'])
            if q == 'mdd_len':
                s.op(mid, q)
            elif q == 'mdd_var_at_level':
                s.op(mid, q, rng.randrange(-1, n + 1))
            elif q == 'mdd_level_of_var':
                s.op(mid, q, rng.choice(list(m.vars) + ['nope']))
            else:
                s.op(mid, q, rng.choice([self.pick(), 9999, 0]))
        elif k == 'reject':
            self.reject()
        return k

    def reject(self):
        """A call the code must reject, leaving everything as it was."""
        rng, s, mid, m = self.rng, self.s, self.mid, self.m
        n = self.sp.n
        u = self.pick()
        calls = [
            ('mdd_foa', [n, '1,-1'], 'ValueError'),
            ('mdd_foa', [-1, '1,-1'], 'ValueError'),
            ('mdd_ite', [9999, u, u], 'KeyError'),
            ('mdd_ite', [0, u, u], 'KeyError'),
            ('mdd_apply', ['and', u, 9999], 'ValueError'),
            ('mdd_apply', ['nor', u, u], 'ValueError'),
            ('mdd_apply', [rng.choice(FORALL_ALIASES + EXISTS_ALIASES), u, u], 'NotImplementedError'),
            ('mdd_incref', [9999], 'KeyError'),
            ('mdd_decref', [9999], 'KeyError'),
            ('mdd_ref', [9999], 'KeyError'),
            ('mdd_gc', ['9999'], 'KeyError'),
        ]
        if n:
            j = rng.randrange(n)
            ln = self.sp.lens[j]
            calls += [
                ('mdd_foa', [j, ','.join(['1'] * (ln + 1))], 'ValueError'),
                ('mdd_foa', [j, ','.join(['1'] * (ln - 1))], 'ValueError'),
                ('mdd_foa', [j, ','.join(['9999'] + ['1'] * (ln - 1))], 'ValueError'),
                ('mdd_foa', [j, ','.join(['0'] * ln)], 'ValueError'),
            ]
        op, args, want = rng.choice(calls)
        before = dump_mdd(m)
        ans = s.op(mid, op, *args)
        self.ctx.count('reject:' + want)
        if ans != 'err ' + want or dump_mdd(m) != before:
            self.ctx.violation('rejected MDD call', dict(
                op=op, args=args, answer=ans, expected=want, state_changed=(dump_mdd(m) != before),
                lines=list(s.lines), tags=dict(call='mdd.reject')))

    def check(self, after=None):
        bad = check_mdd_invariants(self.m, self.led.of(self.mid), self.sp)
        if not bad:
            bad = mdd_canon_problems(self.m, self.sp)
        if not bad:
            for u in self.held:
                if not self.live(u):
                    bad.append(f'held reference {u} deleted')
                elif self.sp.tt(self.m, u) != self.held_tt[u]:
                    bad.append(f'held reference {u} changed its function')
        if not bad and after == 'gc':
            bad = gc_problems(self.m, self.led.of(self.mid))
        return bad


def run_history(ctx, h, steps, label):
    for _ in range(steps):
        k = h.step()
        bad = h.check(after=k)
        ctx.evaluations += 1
        if bad:
            ctx.violation('MDD manager broken in a collect/operate interleaving', dict(
                problems=bad[:5], after=k, lines=list(h.s.lines), tags=dict(call='mdd.history')))
            return False
    return True


def check_histories(ctx, budget):
    import time
    rng = ctx.rng
    t_end = ctx.t0 + budget
    k = 0
    while time.time() < t_end:
        k += 1
        s = Session(ctx)
        led = MLedger(s)
        if rng.random() < 0.3:
            # an MDD that came out of `bdd_to_mdd`
            sizes = rng.choice([g for g in GROUPINGS if sum(g) <= 4])
            nbits = sum(sizes)
            bits = bit_names(nbits)
            order = bits[:]
            rng.shuffle(order)
            perm = bits[:]
            rng.shuffle(perm)
            s.close()
            s = conversion_case(ctx, nbits, sizes, order, perm, rng.sample(range(len(sizes)), len(sizes)),
                                rng.sample(range(len(sizes)), len(sizes)),
                                [rng.getrandbits(1 << nbits) for _ in range(rng.randint(1, 3))],
                                label='conv+history')
            led = MLedger(s)
            if 'mdd' not in s.impl.objs or 0 not in s.impl.objs['mdd']:
                s.close()
                continue
            h = MHistory(ctx, s, 0, led)
            h.pool = [1, -1] + [u for u in h.m._succ if u != 1]
            ctx.count('history:converted')
        else:
            lens = rng.choice(SHAPES[:8])
            new_mdd(s, 0, lens, rng)
            h = MHistory(ctx, s, 0, led)
            ctx.count('history:fresh')
        ok = run_history(ctx, h, rng.randint(15, 90), 'history')
        s.op(0, 'mdd_state')
        ctx.case(('history', k, len(s.lines)))
        ctx.add_session(s, MDD_SECTIONS, 'C15 history')
        s.close()
    # degenerate managers
    s = Session(ctx)
    s.op(0, 'mdd_new', 'none')          # MDD(): no terminal, nothing works
    for op, args in (('mdd_ite', [1, 5, 6]), ('mdd_ite', [2, 1, 1]), ('mdd_foa', [0, '1,-1']),
                     ('mdd_contains', [1]), ('mdd_len', []), ('mdd_gc', []), ('mdd_incref', [1]),
                     ('mdd_apply', ['not', 1]), ('mdd_state', [])):
        s.op(0, op, *args)
    s.op(1, 'mdd_new', '')              # MDD({}): only the terminal
    for op, args in (('mdd_ite', [1, -1, 1]), ('mdd_ite', [-1, -1, 1]), ('mdd_apply', ['and', 1, -1]),
                     ('mdd_foa', [0, '1,-1']), ('mdd_incref', [-1]), ('mdd_ref', [1]), ('mdd_gc', []),
                     ('mdd_decref', [1]), ('mdd_decref', [1]), ('mdd_gc', ['1']), ('mdd_state', [])):
        s.op(1, op, *args)
    # levels with a gap / duplicate levels: `var_at_level` raises KeyError, later entries win
    s.op(2, 'mdd_new', 'p:0:2:,q:2:2:')
    s.op(3, 'mdd_new', 'p:0:2:,q:0:3:')
    for mid in (2, 3):
        for op, args in (('mdd_foa', [0, '1,-1']), ('mdd_foa', [0, '1,-1,1']), ('mdd_foa', [1, '1,-1']),
                         ('mdd_var_at_level', [0]), ('mdd_var_at_level', [1]), ('mdd_state', [])):
            s.op(mid, op, *args)
    ctx.add_session(s, MDD_SECTIONS, 'C15 degenerate managers')
    s.close()


# ---------------------------------------------------------------------------
# part D — rejected conversions leave the BDD functions intact
# ---------------------------------------------------------------------------

def check_rejected_conversions(ctx, n_cases):
    rng = ctx.rng
    for k in range(n_cases):
        nbits = rng.randint(2, 4)
        bits = bit_names(nbits)
        order = bits[:]
        rng.shuffle(order)
        sp = Space(bits)
        s = Session(ctx)
        s.new(0, order)
        bld = Builder(s)
        held = []
        for _ in range(rng.randint(1, 2)):
            bld.reset()
            r = bld.build(sp, rng.getrandbits(sp.size))
            s.incref(0, r)
            held.append(r)
        b = s.mgr(0)
        before = {r: TT(b, sp.names).of(r) for r in held}
        cut = rng.randint(1, nbits - 1)
        good = [('x', 0, 1 << cut, bits[:cut]), ('y', 1, 1 << (nbits - cut), bits[cut:])]
        kind = rng.choice(['missing-bit', 'extra-bit', 'level-gap', 'wrong-len', 'no-bits', 'foreign-bit',
                           'dup-level'])
        x, y = good
        if kind == 'missing-bit':
            dv, want = [x, ('y', 1, y[2], y[3][:-1])] if len(y[3]) > 1 else [x], 'ValueError'
        elif kind == 'extra-bit':
            dv, want = [x, ('y', 1, 2 * y[2], y[3] + ['zz'])], 'ValueError'
        elif kind == 'level-gap':
            dv, want = [x, ('y', 2, y[2], y[3])], 'KeyError'
        elif kind == 'wrong-len':
            dv, want = [x, ('y', 1, y[2] + 1, y[3])], 'ValueError'
        elif kind == 'no-bits':
            dv, want = [x, y, ('z', 2, 1, [])], 'OtherError'
        elif kind == 'foreign-bit':
            dv, want = [x, ('y', 1, y[2], y[3][:-1] + ['zz'])], 'KeyError'
        else:
            dv, want = [x, ('y', 0, y[2], y[3])], 'ValueError'
        ans = s.op(0, 'bdd_to_mdd', fmt_dvars(dv), 0)
        ctx.count('rejected-conv:' + kind)
        bad = []
        if kind == 'wrong-len' and all(abs(r) == 1 for r in held) and ans.startswith('ok'):
            pass        # nothing to convert: no MDD node is ever requested
        elif kind == 'wrong-len' and ans.startswith('ok'):
            # `y` may not occur in any held function
            pass
        elif ans != 'err ' + want:
            bad.append(f'answer {ans}, expected err {want}')
        bad += check_invariants(b, s.ledger.get(0))
        if not bad:
            tt = TT(b, sp.names)
            for r in held:
                if abs(r) not in b._succ or tt.of(r) != before[r]:
                    bad.append(f'held BDD reference {r} lost its function')
        ctx.evaluations += 1
        if bad:
            ctx.violation('rejected bdd_to_mdd call', dict(
                kind=kind, dvars=fmt_dvars(dv), problems=bad[:5], lines=list(s.lines),
                tags=dict(call='bdd_to_mdd', rejected=kind)))
        ctx.case(('rejected-conv', kind, k))
        s.op(0, 'state')
        ctx.add_session(s, MDD_SECTIONS, 'C15 rejected conversion')
        s.close()


def probe_negative_root(ctx):
    """Deterministic witness of the repaired finding F14: `MDD.collect_garbage(roots)` with a
    complemented unreferenced root frees the node (as `dd.bdd` does, `abs` of the roots)."""
    s = Session(ctx)
    new_mdd(s, 0, (2, 2))
    u = s.val(s.op(0, 'mdd_foa', 1, '1,-1'))
    v = s.val(s.op(0, 'mdd_foa', 0, f'{u},-{u}'))
    ans = s.op(0, 'mdd_gc', str(-v))
    m = get_mdd(s, 0)
    ctx.evaluations += 1
    ctx.case(('complemented-root', -v))
    if ans != 'ok -' or v in m._succ or u in m._succ or m._free != {u, v}:
        ctx.violation('MDD.collect_garbage(roots=[-u]) does not free the unreferenced node u', dict(
            answer=ans, nodes=sorted(m._succ), free=sorted(m._free), lines=list(s.lines),
            tags=dict(call='mdd.collect_garbage', complemented_root=True)))
    # both signs of a held node: nothing is freed
    w = s.val(s.op(0, 'mdd_foa', 1, '1,-1'))
    s.op(0, 'mdd_incref', -w)
    ans2 = s.op(0, 'mdd_gc', f'{-w},{w}')
    if ans2 != 'ok -' or w not in m._succ:
        ctx.violation('MDD.collect_garbage(roots) freed a held node', dict(
            answer=ans2, lines=list(s.lines), tags=dict(call='mdd.collect_garbage', held_root=True)))
    s.op(0, 'mdd_state')
    ctx.add_session(s, MDD_SECTIONS, 'C15 complemented root')
    s.close()


# ---------------------------------------------------------------------------

def check_C15(ctx):
    ctx.driver = 'ddvmdd'
    # this slice's driver is its own lean_exe
    import fcntl
    import os
    os.makedirs(lib.WORK, exist_ok=True)
    with open(os.path.join(lib.WORK, 'lake.lock'), 'w') as lockf:
        fcntl.flock(lockf, fcntl.LOCK_EX)
        try:
            rc, out = lib._lake(['build', 'ddvmdd'])
        finally:
            fcntl.flock(lockf, fcntl.LOCK_UN)
    if rc != 0:
        raise RuntimeError('lake build ddvmdd failed:\n' + out[-3000:])
    import time
    quick = ctx.tier == 'quick'
    # thorough: fractions of what is left of the budget (the sharded runner of the main tree calls
    # this function repeatedly with a per-shard budget)
    left = max(60.0, ctx.time_left())
    used = time.time() - ctx.t0
    probe_negative_root(ctx)
    check_pointwise(ctx, used + (6 if quick else 0.2 * left))
    used = time.time() - ctx.t0
    check_rejected_conversions(ctx, 60 if quick else 300)
    used = time.time() - ctx.t0
    check_histories(ctx, used + (9 if quick else 0.25 * left))
    used = time.time() - ctx.t0
    check_conversions(ctx, used + (14 if quick else 0.42 * left))


REGISTRY = {
    'C15': (check_C15,
            'bdd_to_mdd on sets of 1-3 referenced functions over <= 6 bits grouped into 1-3 integer variables of '
            '1-3 bits, integer orders, initial bit orders, dict orders, fresh and used managers (dense for <= 3 bits '
            'in thorough, sampled otherwise): every umap entry evaluated on every integer assignment vs the BDD truth '
            'table, held references intact; MDD apply (every pair of all functions of small spaces) / ite triples '
            'pointwise and canonical; collect/operate interleavings with in-degree + ledger + allocator + '
            'computed-table oracle; rejected calls; exact state (succ, pred, ref, free, max, cache) compared with '
            'the model after every session'),
}
