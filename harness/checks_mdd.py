"""Check C15 — MDD conversion and MDD operations preserve meaning.

Protocol ops of this slice (real code side; the model side is `lean/DD/MddDriver.lean`,
exe `ddvmdd`):

    <mdd id> mdd_new [<dvars>|none]          MDD(dvars) / MDD()
    <mdd id> mdd_foa <level> <n0,n1,...>     find_or_add
    <mdd id> mdd_ite <g> <u> <v>
    <mdd id> mdd_apply <op> <u> [<v> [<w>]]
    <mdd id> mdd_incref|mdd_decref|mdd_ref <u>
    <mdd id> mdd_gc [<roots>]
    <mdd id> mdd_len | mdd_contains <u> | mdd_succ <u> | mdd_var_at_level <i> | mdd_level_of_var <v>
    <mdd id> mdd_state                       canonical dump (vars, succ, ref, max, free, pred, cache)
    <bdd id> bdd_to_mdd <dvars> <mdd id>     answer: the `umap`, sorted

`dvars` = comma separated `name:level:len:bit0.bit1...` in dict order.
Recorded nondeterminism: every `self._free.pop()` of `MDD._allocate` (`pop=<n>`), the order
of `bdd.levels(skip_terminals=True)` inside `bdd_to_mdd` (`lev=...`), BDD swaps (`swap=...`,
recorded by impl.py).
"""
import itertools

import impl as implmod
import lib
from lib import Session, TT, check_invariants, SECTIONS_L3
from funcs import Space, Builder

import dd.mdd as _mdd

_bdd = implmod._bdd

MDD_SECTIONS = SECTIONS_L3 + ('term', 'max', 'free')

# ---------------------------------------------------------------------------
# real-code side of the protocol
# ---------------------------------------------------------------------------

_orig_allocate = _mdd.MDD._allocate
_orig_levels = _bdd.BDD.levels


def _allocate_w(self):
    had = bool(self._free)
    u = _orig_allocate(self)
    if had:
        implmod.REC.items.append(f'pop={u}')
    return u


def _levels_w(self, skip_terminals=False):
    if getattr(self, '_verif_b2m', False):
        snap = [u for u, _i, _v, _w in _orig_levels(self, skip_terminals)]
        implmod.REC.items.append('lev=' + '.'.join(map(str, snap)))
    return _orig_levels(self, skip_terminals)


_mdd.MDD._allocate = _allocate_w
_bdd.BDD.levels = _levels_w


def parse_dvars(s):
    d = {}
    for item in implmod.split1(s):
        f = item.split(':')
        name, level, ln = f[0], int(f[1]), int(f[2])
        bits = f[3].split('.') if len(f) > 3 and f[3] else []
        d[name] = dict(level=level, len=ln, bitnames=bits)
    return d


def fmt_dvars(dvars):
    """`dvars`: list of (name, level, len, bits) in dict order."""
    return ','.join(f'{n}:{lv}:{ln}:' + '.'.join(bits) for n, lv, ln, bits in dvars)


def dump_mdd(m):
    vars_ = ','.join(f"{v}:{d['level']}:{d['len']}" for v, d in m.vars.items())
    t1 = m._succ.get(1)
    if t1 is None:
        term = '0'
    elif t1 == (len(m.vars), None):
        term = '1'
    else:
        term = 'BROKEN'
    succ = ','.join(
        f'{u}:{t[0]}:' + '.'.join(map(str, t[1:]))
        for u, t in sorted(m._succ.items()) if u != 1)
    ref = ','.join(f'{u}:{c}' for u, c in sorted(m._ref.items()))
    pred = ','.join(
        ':'.join(map(str, t)) + f'>{u}'
        for t, u in sorted(m._pred.items(), key=lambda tu: tu[1]))
    cache = ','.join(
        f'{g}:{u}:{v}>{w}' for (g, u, v), w in sorted(m._ite_table.items()))
    free = ','.join(map(str, sorted(m._free)))
    return (f'vars={vars_}|term={term}|succ={succ}|ref={ref}|max={m._max}'
            f'|free={free}|pred={pred}|cache={cache}')


def _mdds(impl):
    return impl.objs.setdefault('mdd', {})


def _op_mdd_new(impl, mid, a):
    if not a:
        m = _mdd.MDD(dict())
    elif a[0] == 'none':
        m = _mdd.MDD()
    else:
        m = _mdd.MDD(parse_dvars(a[0]))
    _mdds(impl)[mid] = m
    return '-'


def _op_bdd_to_mdd(impl, mid, a):
    b = impl.mgrs[mid]
    dvars = parse_dvars(a[0])
    dst = int(a[1])
    b._verif_b2m = True
    try:
        m, umap = _mdd.bdd_to_mdd(b, dvars)
    finally:
        b._verif_b2m = False
    _mdds(impl)[dst] = m
    return ','.join(f'{u}:{r}' for u, r in sorted(umap.items()))


def _mdd_op(name):
    def run(impl, mid, a):
        m = _mdds(impl)[mid]
        return name(m, a)
    return run


def _foa(m, a):
    return str(m.find_or_add(int(a[0]), *map(int, implmod.split1(a[1]) if len(a) > 1 else [])))


def _succ_str(m, a):
    t = m._succ[abs(int(a[0]))]
    return f'{t[0]}:' + '.'.join(map(str, t[1:]))


def _gc(m, a):
    if a:
        m.collect_garbage(list(map(int, implmod.split1(a[0]))))
    else:
        m.collect_garbage()
    return '-'


def _unit(f):
    def g(m, a):
        f(m, a)
        return '-'
    return g


implmod.EXT_LINE_OPS.update({
    'mdd_new': _op_mdd_new,
    'bdd_to_mdd': _op_bdd_to_mdd,
    'mdd_foa': _mdd_op(_foa),
    'mdd_ite': _mdd_op(lambda m, a: str(m.ite(int(a[0]), int(a[1]), int(a[2])))),
    'mdd_apply': _mdd_op(lambda m, a: str(m.apply(a[0], *map(int, a[1:])))),
    'mdd_incref': _mdd_op(_unit(lambda m, a: m.incref(int(a[0])))),
    'mdd_decref': _mdd_op(_unit(lambda m, a: m.decref(int(a[0])))),
    'mdd_ref': _mdd_op(lambda m, a: str(m.ref(int(a[0])))),
    'mdd_gc': _mdd_op(_gc),
    'mdd_len': _mdd_op(lambda m, a: str(len(m))),
    'mdd_contains': _mdd_op(lambda m, a: implmod.show_bool(int(a[0]) in m)),
    'mdd_succ': _mdd_op(_succ_str),
    'mdd_var_at_level': _mdd_op(lambda m, a: m.var_at_level(int(a[0]))),
    'mdd_level_of_var': _mdd_op(lambda m, a: str(m.level_of_var(a[0]))),
    'mdd_state': _mdd_op(lambda m, a: dump_mdd(m)),
})
