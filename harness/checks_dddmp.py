"""Check C16 — a DDDMP file loads to the functions it describes.

Every case is ONE piece of generated data (header tables + node lines) from which the
harness writes (a) the text file read by the real `dd.dddmp.load` and (b) the abstract
one-line encoding read by the Lean model (`lean/DD/Dddmp.lean`, driver `ddvdddmp`).

Oracle (independent of the loader): the truth table of each root entry of the file,
computed by evaluating the file's node list directly (variable of a node line identified
through `.varinfo` / `.ids` / `.permids` / names, then-edge regular, else-edge possibly
complemented), compared with the truth tables BY VARIABLE NAME of the elements of the
returned manager's `roots`.  `bdd.roots` is a `set`: the correspondence root entry <->
element is lost by the API, so the comparison is between the two SETS of functions.
"""
import fcntl
import itertools
import os
import re

import impl as implmod
import lib
from lib import Session, TT, check_invariants, SECTIONS_L3
from funcs import Space
from checks_core import canon_problems

DRIVER = 'ddvdddmp'
SCRATCH = os.path.join(lib.WORK, 'dddmp')
INT_RE = re.compile(r'^-?\d+$')

LIST_KEYS = ('suppvarnames', 'orderedvarnames', 'ids', 'permids', 'auxids', 'rootids')
INT_KEYS = ('varinfo', 'nnodes', 'nvars', 'nsuppvars', 'nroots')
HEADER_ORDER = ('varinfo', 'nnodes', 'nvars', 'nsuppvars', 'orderedvarnames', 'suppvarnames',
                'ids', 'permids', 'auxids', 'nroots', 'rootids')


# ---------------------------------------------------------------------------
# one piece of data -> text file / abstract encoding
# ---------------------------------------------------------------------------

def render_text(F):
    """The text-mode DDDMP file with the content `F`.  Optional keys: `ver` (text after `.ver`,
    default `DDDMP-2.0`; None = no line), `mode` (default `A`; None = no line), `add` (an `.add`
    line), `dd` (a `.dd name` line), `rootnames` (refused by the parser)."""
    out = []
    if F.get('ver', 'DDDMP-2.0') is not None:
        out.append('.ver ' + F.get('ver', 'DDDMP-2.0'))
    if F.get('add'):
        out.append('.add')
    if F.get('mode', 'A') is not None:
        out.append('.mode ' + F.get('mode', 'A'))
    if F.get('dd') is not None:
        out.append('.dd ' + F['dd'])
    for k in HEADER_ORDER:
        if k not in F:
            continue
        v = F[k]
        if k in LIST_KEYS:
            out.append(f'.{k} ' + ' '.join(str(x) for x in v))
        else:
            out.append(f'.{k} {v}')
    if F.get('rootnames') is not None:
        out.append('.rootnames ' + ' '.join(F['rootnames']))
    out.append('.nodes')
    for u, info, index, v, w in F['nodes']:
        out.append(f'{u} {info} {index} {v} {w}')
    out.append('.end')
    return '\n'.join(out) + '\n'


def encode(F):
    """Fields of the protocol line (abstract content, for the model)."""
    fields = []
    for k in HEADER_ORDER:
        if k not in F:
            continue
        v = F[k]
        if k in LIST_KEYS:
            fields.append(f'{k}=' + ','.join(str(x) for x in v))
        else:
            fields.append(f'{k}={v}')
    fields.append('nodes=' + ';'.join(':'.join(str(x) for x in n) for n in F['nodes']))
    # header lines the loader never reads (the refused ones exist at the text level only)
    if F.get('add'):
        fields.append('add=1')
    if F.get('dd') is not None:
        fields.append('dd=' + F['dd'])
    if F.get('mode', 'A') is not None:
        fields.append('mode=' + F.get('mode', 'A'))
    if F.get('ver', 'DDDMP-2.0') is not None:
        fields.append('ver=' + F.get('ver', 'DDDMP-2.0'))
    if 'text' in F:
        fields.append('text=' + F['text'])
    return fields


def _tok(s):
    return int(s) if INT_RE.match(s) else s


def decode(fields):
    F = {}
    for f in fields:
        k, v = f.split('=', 1)
        if k in INT_KEYS:
            F[k] = int(v)
        elif k in LIST_KEYS:
            F[k] = [_tok(x) for x in v.split(',')] if v else []
        elif k == 'nodes':
            F[k] = [tuple(_tok(x) for x in n.split(':')) for n in v.split(';')] if v else []
        elif k in ('text', 'dd'):
            F[k] = v
        elif k == 'add':
            F[k] = (v == '1')
        elif k in ('mode', 'ver'):
            F[k] = v
    F.setdefault('mode', None)
    F.setdefault('ver', None)
    return F


def read_text(path):
    """A small reader of text-mode DDDMP files, independent of `dd.dddmp` (used for the
    sample files of the repository: text -> abstract content for the model)."""
    F = {'nodes': []}
    body = False
    for line in open(path):
        line = line.split('#', 1)[0].strip()
        if not line:
            continue
        if body:
            if line.startswith('.end'):
                break
            F['nodes'].append(tuple(_tok(x) for x in line.split(' ')))
            continue
        t = line.split()
        key = t[0][1:]
        if key == 'nodes':
            body = True
        elif key in INT_KEYS:
            F[key] = int(t[1])
        elif key in LIST_KEYS:
            F[key] = [_tok(x) for x in t[1:]]
    return F


def _load_op(impl, mid, args):
    """`<mid> dddmp_load <fields>` on the real code."""
    import dd.dddmp as _dddmp
    F = decode(args)
    if 'text' in F:
        path = F['text']
    else:
        os.makedirs(SCRATCH, exist_ok=True)
        path = os.path.join(SCRATCH, f'f{os.getpid()}.dddmp')
        with open(path, 'w') as f:
            f.write(render_text(F))
    impl.mgrs.pop(mid, None)
    b = _dddmp.load(path)
    impl.mgrs[mid] = b
    return ','.join(str(r) for r in sorted(b.roots))


def _eval_op(impl, mid, args):
    """`<mid> dddmp_eval names=<n1,n2,..> <fields>`: the harness's own evaluation of the
    node list (`file_tables`), in the format in which the Lean driver prints `evalFile`."""
    names = [_tok(x) for x in args[0][len('names='):].split(',')] if args[0] != 'names=' else []
    F = decode(args[1:])
    masks, full = lib.var_masks(names)
    tabs = file_tables(F, masks, full)
    out = [f'{n[0]}:{tabs[n[0]]}' for n in F['nodes']]
    out += [f'r{r}:{root_table(tabs, full, r)}' for r in F['rootids']]
    # the model also prints `evalFormat` (theorems `C16_format`, `C16_varinfo*`): the reading rule
    # of the format on the header lines, which is what `file_tables` implements (files without
    # names: the variable is known by its index `ids[j]`; the generated ones are coherent, i.e.
    # the loader's invented name `permids[permids[j]]` is that index: `C16_nameless_by_index`)
    out += [f'F{n[0]}:{tabs[n[0]]}' for n in F['nodes']]
    out += [f'Fr{r}:{root_table(tabs, full, r)}' for r in F['rootids']]
    return ';'.join(out)


def _text_op(impl, mid, args):
    """`<mid> dddmp_text <hex>`: `dd.dddmp.load` on a file with exactly these bytes."""
    import dd.dddmp as _dddmp
    os.makedirs(SCRATCH, exist_ok=True)
    path = os.path.join(SCRATCH, f't{os.getpid()}.dddmp')
    with open(path, 'wb') as f:
        f.write(bytes.fromhex(args[0]))
    impl.mgrs.pop(mid, None)
    b = _dddmp.load(path)
    impl.mgrs[mid] = b
    return ','.join(str(r) for r in sorted(b.roots))


def load_text(s, text, mid=0):
    """Run `dddmp_text` on the ASCII text `text`; returns the answer."""
    return s._do('\t'.join([str(mid), 'dddmp_text', text.encode('ascii').hex()]))


implmod.EXT_LINE_OPS['dddmp_text'] = _text_op
implmod.EXT_LINE_OPS['dddmp_load'] = _load_op
implmod.EXT_LINE_OPS['dddmp_eval'] = _eval_op


# ---------------------------------------------------------------------------
# generator: functions -> shared diagram with complemented else-edges -> file data
# ---------------------------------------------------------------------------

class Diagram:
    """Reduced ordered diagram in the convention of CUDD / DDDMP: the then-edge of a node
    is regular, else-edges and root references may be complemented.  Node 1 = terminal."""

    def __init__(self, sp, order):
        self.sp = sp
        self.order = list(order)
        self.nodes = {}          # internal number -> (name, then, else)
        self.key = {}
        self.memo = {}

    def build(self, t):
        sp = self.sp
        if t == sp.full:
            return 1
        if t == 0:
            return -1
        r = self.memo.get(t)
        if r is not None:
            return r
        nm = next(v for v in self.order if sp.depends(t, v))
        hi = self.build(sp.cof(t, nm, 1))
        lo = self.build(sp.cof(t, nm, 0))
        sign = 1
        if hi < 0:
            hi, lo, sign = -hi, -lo, -1
        k = (nm, hi, lo)
        u = self.key.get(k)
        if u is None:
            u = len(self.nodes) + 2
            self.nodes[u] = k
            self.key[k] = u
        self.memo[t] = sign * u
        return sign * u


def linear_extensions(nodes):
    """All orders of the non-terminal nodes in which children come before parents."""
    us = sorted(nodes)
    for perm in itertools.permutations(us):
        pos = {u: i for i, u in enumerate(perm)}
        ok = all(pos[abs(c)] < pos[u]
                 for u, (_n, hi, lo) in nodes.items() for c in (hi, lo) if abs(c) != 1)
        if ok:
            yield perm


def random_extension(rng, nodes):
    left = dict(nodes)
    done = {1}
    out = []
    while left:
        ready = [u for u, (_n, hi, lo) in left.items() if abs(hi) in done and abs(lo) in done]
        u = rng.choice(sorted(ready))
        out.append(u)
        done.add(u)
        del left[u]
    return tuple(out)


def make_file(rng, dg, roots, numbering, opts):
    """File data for the diagram `dg` with the given root references.

    `numbering`: the non-terminal nodes in the order in which they get the numbers 2, 3, ...
    `opts`: varinfo, ordered (`.orderedvarnames` present), names (`.suppvarnames` present),
    gaps, extra (number of variables of the writer that are not in the support), aux,
    list_unused, ids_identity, nameless_perm, line_order.
    Returns `(F, name_of)`: `name_of[v]` = the name by which the loaded manager must know
    the generator's variable `v`."""
    num = {1: 1}
    for i, u in enumerate(numbering):
        num[u] = i + 2

    def ref(x):
        return num[abs(x)] * (1 if x > 0 else -1)

    used = {n[0] for n in dg.nodes.values()}
    # top-to-bottom list of the support (some files list variables the nodes do not use)
    lv = [v for v in dg.order
          if v in used or (opts.get('list_unused') and rng.random() < 0.5)]
    if not lv:
        lv = [dg.order[0]]
    n = len(lv)
    nameless = not opts['names'] and not opts['ordered']
    ordered = None
    if opts['ordered']:
        # all variables of the manager that wrote the file, in its order
        extra = [f'X{i}' for i in range(opts.get('extra', 0))]
        total = n + len(extra)
        slots = sorted(rng.sample(range(total), n))
        ordered = [None] * total
        for s_, v in zip(slots, lv):
            ordered[s_] = v
        it = iter(extra)
        ordered = [next(it) if v is None else v for v in ordered]
        permid = {v: ordered.index(v) for v in lv}
        nvars = total
    elif not nameless:
        nvars = n + ((rng.randint(6, 10) if opts.get('wide_gaps') else rng.randint(1, 4))
                     if opts.get('gaps') else opts.get('extra', 0))
        slots = sorted(rng.sample(range(nvars), n)) if opts.get('gaps') else list(range(n))
        permid = dict(zip(lv, slots))
    else:
        nvars = n + opts.get('extra', 0)
        permid = {v: k for k, v in enumerate(lv)}
    # variable indices (`.ids`)
    if nameless:
        # a variable is known by its index only; the loader names level k `permids[k]`
        perm = list(range(n))
        if opts.get('nameless_perm') == 'involution':
            perm = _random_involution(rng, n)
        elif opts.get('nameless_perm') == 'any':
            rng.shuffle(perm)
        vid = {v: perm.index(k) for k, v in enumerate(lv)}
    elif opts.get('ids_identity'):
        vid = dict(permid)
    else:
        pool = rng.sample(range(max(nvars, n) + 2), n)
        vid = dict(zip(lv, pool))
    by_id = sorted(lv, key=lambda v: vid[v])
    F = dict(varinfo=opts['varinfo'], nvars=nvars, nsuppvars=n)
    if ordered is not None:
        F['orderedvarnames'] = ordered
    if opts['names']:
        F['suppvarnames'] = by_id
    F['ids'] = [vid[v] for v in by_id]
    F['permids'] = [permid[v] for v in by_id]
    if opts.get('aux'):
        # auxiliary ids are free-form integers that the loader only counts: make them DIFFER from
        # the ids (a permutation of them, or unrelated numbers)
        ids_ = [vid[v] for v in by_id]
        mode = rng.randrange(3)
        if mode == 0:
            F['auxids'] = ids_
        elif mode == 1:
            F['auxids'] = rng.sample(ids_, len(ids_))
        else:
            F['auxids'] = [rng.randrange(0, 50) for _ in ids_]
    rootids = [ref(r) for r in roots]
    F['nroots'] = len(rootids)
    F['rootids'] = rootids
    lines = [(1, 'T', 1, 0, 0)]
    for u in numbering:
        nm, hi, lo = dg.nodes[u]
        info = {0: vid[nm], 1: permid[nm], 3: nm}[opts['varinfo']]
        lines.append((num[u], info, by_id.index(nm), ref(hi), ref(lo)))
    if opts.get('line_order') == 'shuffled':
        rng.shuffle(lines)
    F['nodes'] = lines
    F['nnodes'] = len(lines)
    # header lines the loader ignores (`C16_header_ignored`): `.add`, `.dd`, `.ver` texts, no `.ver` / `.mode`
    if opts.get('add'):
        F['add'] = True
    if opts.get('dd') is not None:
        F['dd'] = opts['dd']
    if 'ver' in opts:
        F['ver'] = opts['ver']
    if 'mode' in opts:
        F['mode'] = opts['mode']
    name_of = {v: (vid[v] if nameless else v) for v in lv}
    return F, name_of


def _random_involution(rng, n):
    perm = list(range(n))
    idx = list(range(n))
    rng.shuffle(idx)
    while len(idx) >= 2:
        a = idx.pop()
        b = idx.pop()
        if rng.random() < 0.7:
            perm[a], perm[b] = perm[b], perm[a]
    return perm


# ---------------------------------------------------------------------------
# oracle: evaluate the node list of the file
# ---------------------------------------------------------------------------

def file_tables(F, masks, full, rename=None):
    """Truth table of every node id of the file (by the variable names of the file,
    optionally renamed to the keys of `masks`)."""
    vi = F['varinfo']
    ids, permids = F['ids'], F['permids']
    names = F.get('suppvarnames')
    lines = {n[0]: n for n in F['nodes']}

    ordered = F.get('orderedvarnames')

    def name(info):
        if vi == 3:
            nm = info
        else:
            k = ids.index(info) if vi == 0 else permids.index(info)
            if ordered is not None:
                # documented in `load`: `.orderedvarnames` has priority over `.suppvarnames`
                nm = ordered[permids[k]]
            elif names is not None:
                nm = names[k]
            else:
                nm = ids[k]
        return nm if rename is None else rename[nm]

    memo = {}

    def node(u):
        if u in memo:
            return memo[u]
        _u, info, _idx, v, w = lines[u]
        if info == 'T' and v == 0 and w == 0:
            r = full
        else:
            mk = masks[name(info)]
            assert v > 0
            hi = node(v)
            lo = node(abs(w))
            if w < 0:
                lo = full & ~lo
            r = (mk & hi) | (full & ~mk & lo)
        memo[u] = r
        return r

    return {u: node(u) for u in lines}


def root_table(tables, full, r):
    t = tables[abs(r)]
    return (full & ~t) if r < 0 else t


# ---------------------------------------------------------------------------
# the text layer: header fields, line dispatch, lexical quirks (model: DD/DddmpText.lean)
# ---------------------------------------------------------------------------

def base_text(y='y', extra_header=(), mode='A', ver='DDDMP-2.0', varinfo=3):
    """A small valid `.varinfo 3` file: `x` (level 0), the variable `y` (level 1),
    root 3 = ite(x, TRUE, y)."""
    lab = {3: ('x', y), 0: ('0', '1'), 1: ('0', '1')}[varinfo]
    lines = []
    if ver is not None:
        lines.append(f'.ver {ver}')
    if mode is not None:
        lines.append(f'.mode {mode}')
    lines += [f'.varinfo {varinfo}', '.nnodes 3', '.nvars 2', '.nsuppvars 2',
              f'.orderedvarnames x {y}', f'.suppvarnames x {y}', '.ids 0 1', '.permids 0 1',
              '.nroots 1', '.rootids 3']
    lines += list(extra_header)
    lines += ['.nodes', '1 T 1 0 0', f'2 {lab[1]} 1 1 -1', f'3 {lab[0]} 0 1 2', '.end']
    return '\n'.join(lines) + '\n'


ODD_VAR_NAMES = ['y.end', 'y.nodes', 'y.e', 'a.b', '.foo', "y'", 'y@2', '_y', 'T', 'y.', 'end', 'nodes',
                 '.nodesX', 'x.ends', '7', '-7', 'Y_1.z']

HEADER_PIECES = ['.add', '.dd foo', '.dd 5', '.rootnames f', '.rootnames f g 3', '.rootnames', '.mode A',
                 '.mode B', '.mode C', '.mode', '.mode A A', '.ver DDDMP-2.0', '.ver x--2.-0', '.ver DDDMP-2',
                 '.ver DDDMP 2.0', '.auxids 4 5', '.auxids 4', '# a comment', '# .nodes in a comment',
                 '#.end', '', '   ', '\t', '.nvars 2', '.nvars 3', '.nnodes 3 .nvars 2', '.ids 0', '1',
                 '.ids 0\n 1', '.varinfo 3', '.varinfo - 3', '.varinfo -3', '.varinfo 1_0', '.foo', '.foo 3',
                 '$', '.', '-', '..', '.5', '. ver', '.ver', 'x', '.permids 0 1 # tail', '.nsuppvars 2\r',
                 '.suppvarnames x y .', '.rootnames f .', '.rootnames f $', '.rootnames f - x', '.rootnames f -',
                 '.rootnames f .ids', '.rootnames f .ids 0 1 $', '.orderedvarnames x 1', '.end', 'a.nodes']

BODY_PIECES = ['', ' ', '# comment', '1 T 1 0 0 ', '1 T 1 0', '1  T 1 0 0', '1\tT 1 0 0', '+1 T 1 0 0',
               '01 T 1 0 0', '1_0 T 1 0 0', '1 T 1 0 0 0', '4 x 0 1 -1', '4 x.end 0 1 -1', '4 zz 0 1 -1',
               '4 x 0 -1 1', '4 x 0 1 x', 'x x 0 1 1', '4 x x 1 1', '4 0 0 1 1', '4 +0 0 1 1', '.end',
               '.endx', '4 x 0 1 1 .end', '.nodes', '1 T 1 0 0\r', '2 y 1 1 -1', '4 T 0 0 0', '-4 x 0 1 -1']


def mutate_text(rng, text):
    """One random edit of a file text, at the level of lines or of characters."""
    lines = text.split('\n')
    k = rng.randrange(9)
    try:
        i_nodes = lines.index('.nodes')
    except ValueError:
        i_nodes = len(lines)
    if k == 0:      # a header piece somewhere in the header
        lines.insert(rng.randrange(i_nodes + 1), rng.choice(HEADER_PIECES))
    elif k == 1:    # a body piece somewhere in the body
        lines.insert(rng.randrange(i_nodes, len(lines)) + 1 if i_nodes < len(lines) else len(lines),
                     rng.choice(BODY_PIECES))
    elif k == 2 and lines:    # drop a line
        del lines[rng.randrange(len(lines))]
    elif k == 3 and len(lines) > 1:   # swap two header lines
        i, j = rng.randrange(max(i_nodes, 1)), rng.randrange(max(i_nodes, 1))
        if i < len(lines) and j < len(lines):
            lines[i], lines[j] = lines[j], lines[i]
    elif k == 4 and lines:    # join a line with the next (lists may run over lines)
        i = rng.randrange(len(lines))
        if i + 1 < len(lines):
            lines[i:i + 2] = [lines[i] + rng.choice([' ', '  ', '\t', '']) + lines[i + 1]]
    elif k == 5 and lines:    # replace a line by a piece
        i = rng.randrange(len(lines))
        lines[i] = rng.choice(HEADER_PIECES if i < i_nodes else BODY_PIECES)
    elif k == 6:    # rename the variable y
        nm = rng.choice(ODD_VAR_NAMES)
        lines = [re.sub(r'\by\b', lambda _m: nm, ln) for ln in lines]
    elif k == 7:    # one character
        t = '\n'.join(lines)
        if t:
            i = rng.randrange(len(t))
            c = rng.choice(list(' \t\n\r.-#_@\'$0123456789aTxy:;,+') + ['\r\n', '\x0b', '\x1c'])
            t = t[:i] + c + (t[i + 1:] if rng.random() < 0.5 else t[i:])
        return t
    else:           # line ends
        return rng.choice(['\r\n', '\r']).join(lines)
    return '\n'.join(lines)


def text_case(ctx, s, text, label, expect_ok=None):
    """Model and code on the text of a file: same answer, same state when a manager is returned."""
    ans = load_text(s, text)
    if ans.startswith('ok'):
        s.state(0)
        ctx.count('text:accepted')
    else:
        ctx.count('text:' + ans)
    ctx.case(('text', text), nontrivial=True)
    if expect_ok and not ans.startswith('ok'):
        # a VALID file of the fixed list is refused
        ctx.violation(f'text layer: {label}: load of a valid file raised: {ans}',
                      dict(file=text, answer=ans,
                           tags=dict(call='dddmp.load', symptom='raises', case=label)))
    elif expect_ok is False and ans.startswith('ok'):
        ctx.notes.append(f'text layer: {label}: expected a refusal, the file is accepted')
    return ans


def text_layer(ctx):
    """Header fields the parser accepts / refuses, the substring dispatch of lines, lexical quirks:
    exact correspondence of `loadDddmpText` (DD/DddmpText.lean) with `dd.dddmp.load` on the same
    bytes."""
    rng = ctx.rng
    s = Session(ctx)
    # (i) every header line the grammar knows, alone on top of a valid file
    fixed = [('plain', base_text(), True), ('no-ver', base_text(ver=None), True),
             ('no-mode', base_text(mode=None), True), ('mode-B', base_text(mode='B'), False),
             ('mode-other', base_text(mode='C'), False), ('add', base_text(extra_header=['.add']), True),
             ('dd', base_text(extra_header=['.dd foo']), True),
             ('rootnames', base_text(extra_header=['.rootnames f']), False),
             ('auxids', base_text(extra_header=['.auxids 7 9']), True),
             ('auxids-short', base_text(extra_header=['.auxids 7']), False),
             ('ver-odd', base_text(ver='x--2.-0'), True), ('ver-short', base_text(ver='DDDMP-2'), False),
             ('comment-nodes', base_text(extra_header=['# the .nodes follow']), True),
             ('indented-nodes-line', base_text().replace('.nodes', ' .nodes'), False),
             ('nodes-line-with-tail', base_text().replace('.nodes', '.nodes 3 # here'), True),
             ('end-line-with-tail', base_text().replace('.end', '.endx 1 2'), True),
             ('empty', '', False), ('header-only', base_text().split('.nodes')[0], False),
             ('no-end', base_text().replace('.end\n', ''), True),
             ('after-end', base_text() + 'garbage here\n', True),
             ('crlf', base_text().replace('\n', '\r\n'), True),
             ('blank-body-line', base_text().replace('.end', '\n.end'), False),
             ('rootnames-then-bad', base_text(extra_header=['.rootnames f .ids 0 1 $']), False),
             ('rootnames-bad-lookahead', base_text(extra_header=['.rootnames f $']), False)]
    for vi in (0, 1):
        fixed.append((f'varinfo-{vi}', base_text(varinfo=vi), True))
    # `.add` is accepted and never read: an ADD file (terminal lines `id T value 0 0`) is read as a BDD
    add1 = base_text(extra_header=['.add']).replace('1 T 1 0 0', '1 T 7 0 0')
    fixed.append(('add-file-one-terminal', add1, True))
    fixed.append(('add-file-two-terminals',
                  add1.replace('.nnodes 3', '.nnodes 4').replace('2 y 1 1 -1', '2 y 1 1 4\n4 T 3 0 0'), False))
    fixed.append(('add-file-float', add1.replace('1 T 7 0 0', '1 T 0.5 0 0'), False))
    for label, text, ok in fixed:
        text_case(ctx, s, text, label, expect_ok=ok)
        ctx.count('text-fixed:' + label)
    # (ii) the name of the second variable (dotted names are NAME tokens of the lexer; before f9d6f33
    # a name that CONTAINS `.end` / `.nodes` made the loader cut the file there: F23)
    refused = []
    for nm in ODD_VAR_NAMES:
        for vi in (3, 0):
            ans = text_case(ctx, s, base_text(y=nm, varinfo=vi), 'name ' + nm)
            if not ans.startswith('ok'):
                refused.append(f'{nm!r} (varinfo {vi}): {ans[4:]}')
            ctx.count('text-name')
    ctx.notes.append('files refused because of the NAME of a variable (`T` is the label of the terminal; '
                     'names that contain `.end` / `.nodes` load since f9d6f33, finding F23): '
                     + ('; '.join(refused) or 'none'))
    ctx.add_session(s, SECTIONS_L3, 'text layer: fixed')
    s.close()
    # (iii) random edits of valid files (1-3 edits each)
    n = 400 if ctx.tier == 'quick' else 6000
    s = Session(ctx)
    for k in range(n):
        if ctx.time_left() < 6:
            ctx.notes.append('time budget reached in the text fuzzer')
            break
        text = base_text(varinfo=rng.choice([3, 3, 0, 1]),
                         extra_header=rng.sample(HEADER_PIECES[:4] + ['.auxids 1 2'], rng.randrange(2)))
        for _ in range(rng.choice([1, 1, 2, 3])):
            text = mutate_text(rng, text)
        if any(ord(c) >= 128 for c in text):
            continue
        text_case(ctx, s, text, 'fuzz')
        ctx.count('text-fuzz')
        if k % 250 == 249:
            ctx.add_session(s, SECTIONS_L3, 'text layer: fuzz')
            s.close()
            s = Session(ctx)
    ctx.add_session(s, SECTIONS_L3, 'text layer: fuzz')
    s.close()
    tmp = os.path.join(SCRATCH, f't{os.getpid()}.dddmp')
    if os.path.exists(tmp):
        os.remove(tmp)


# ---------------------------------------------------------------------------
# the check
# ---------------------------------------------------------------------------

def _build_driver(ctx):
    os.makedirs(lib.WORK, exist_ok=True)
    with open(os.path.join(lib.WORK, 'lake.lock'), 'w') as lockf:
        fcntl.flock(lockf, fcntl.LOCK_EX)
        try:
            rc, out = lib._lake(['build', DRIVER])
        finally:
            fcntl.flock(lockf, fcntl.LOCK_UN)
    if rc != 0:
        raise RuntimeError('lake build ' + DRIVER + ' failed:\n' + out[-3000:])


def load_and_check(ctx, s, F, expect, names, label, extra_tags=None, chain=None):
    """Load `F` into manager 0 of session `s`; `expect` = set of truth tables (over the
    sorted `names`, by the names the manager must use) of the file's root entries, or None
    when only the correspondence with the model is wanted."""
    # the same file through the TEXT layer of the model (lexer, grammar, line dispatch) ...
    if 'text' in F:
        with open(F['text'], 'rb') as fh:
            raw = fh.read()
        anst = s._do('\t'.join(['0', 'dddmp_text', raw.hex()])) if all(c < 128 for c in raw) else None
    else:
        anst = load_text(s, render_text(F))
    if anst is not None and anst.startswith('ok'):
        s.state(0)
    # ... and as abstract content
    ans = s._do('\t'.join(['0', 'dddmp_load'] + encode(F)))
    if anst is not None and anst != ans:
        raise RuntimeError(f'harness: text and abstract encodings of one file disagree: {anst} / {ans}')
    if not ans.startswith('ok'):
        if expect is not None:
            ctx.violation(f'{label}: load of a well-formed file raised: {ans}',
                          dict(file=render_text(F), answer=ans,
                               tags=dict(call='dddmp.load', symptom='raises', **(extra_tags or {}))))
        return None
    s.state(0)
    b = s.mgr(0)
    if expect is None:
        return b
    # the specification of the theorems (`evalFile` in Lean) against the harness's evaluator
    s._do('\t'.join(['0', 'dddmp_eval', 'names=' + ','.join(str(x) for x in names)] + encode(F)))
    # the returned manager is a reachable state with an EMPTY ledger (theorem `C16_load_good`):
    # counts = stored edges exactly (no reference on the roots), reordering off, roots are nodes
    bad = check_invariants(b, ledger={})
    if b._last_len is not None:
        bad.append(f'_last_len = {b._last_len} after load')
    bad += [f'root {r} is not a node' for r in b.roots if abs(r) not in b._succ]
    # the order is the file's (`C16_order_ordered`, `C16_order_supp`)
    want = expected_order(F)
    if want is not None and dict(b.vars) != want:
        bad.append(f'variable order {dict(b.vars)} != order of the file {want}')
    str_names = [v for v in b.vars]
    bad += canon_problems(b, sorted(str_names, key=str))
    if bad:
        ctx.violation(f'{label}: manager after load: {bad[:3]}',
                      dict(file=render_text(F), problems=bad[:5],
                           tags=dict(call='dddmp.load', symptom='not-canonical', **(extra_tags or {}))))
        return b
    missing = [v for v in b.vars if v not in names]
    tt = TT(b, sorted(list(names) + missing, key=str) if missing else names)
    if missing:
        # variables the oracle space does not know (extra ordered variables): the loaded
        # functions must not depend on them; compare on the projection
        ctx.count('extra-vars-declared')
    got = set()
    for r in b.roots:
        if abs(r) not in b._succ:
            got.add(('missing', r))
        else:
            got.add(tt.of(r))
    if missing:
        exp = set(_lift(expect_t, names, tt) for expect_t in expect)
    else:
        exp = set(expect)
    if got != exp:
        ctx.violation(
            f'{label}: roots of the loaded manager denote other functions than the root entries '
            f'of the file',
            dict(file=render_text(F), roots=sorted(b.roots), rootids=F['rootids'],
                 expected=sorted(map(str, exp)), got=sorted(map(str, got)),
                 names=[str(x) for x in tt.names],
                 tags=dict(call='dddmp.load', symptom='roots-denote-other-functions',
                           **(extra_tags or {}))))
    elif chain == 'hold' and b.roots:
        chain_after_load(ctx, s, b, F, exp, tt.names, label)
    elif chain == 'unheld':
        unheld_gc_after_load(ctx, s, b, F, label)
    return b


def expected_order(F):
    """Variable order the loaded manager must have, from the header lines alone: with
    `.orderedvarnames` that list; else `suppvarnames[j]` at the rank of `permids[j]`;
    None for files without names or with repeated entries (outside the theorems)."""
    ordered = F.get('orderedvarnames')
    if ordered is not None:
        if len(set(ordered)) != len(ordered):
            return None
        return {v: k for k, v in enumerate(ordered)}
    names = F.get('suppvarnames')
    permids = F.get('permids')
    if names is None or permids is None or len(names) != len(permids):
        return None
    if len(set(names)) != len(names) or len(set(permids)) != len(permids):
        return None
    rank = {k: i for i, k in enumerate(sorted(permids))}
    return {v: rank[k] for v, k in zip(names, permids)}


def chain_after_load(ctx, s, b, F, expect, names, label):
    """The loaded manager is used as any other manager (theorems `C16_then_apply`,
    `C16_then_exist`, `C16_then_gc`): hold the roots, a connective of two roots, a
    quantification, a collection — answers and states compared with the model, results with
    the truth tables (over `names`) of the file's root entries `expect`."""
    names = list(names)
    tt0 = TT(b, names)
    roots = sorted(b.roots)
    for r in roots:
        s.incref(0, r)
    bad = []
    r1, r2 = roots[0], roots[-1]
    t1, t2 = tt0.of(r1), tt0.of(r2)
    ans = s.op(0, 'apply', 'and', r1, r2)
    u = s.val(ans)
    if u is None:
        bad.append(f'apply(and, {r1}, {r2}) on the loaded manager: {ans}')
    elif TT(b, names).of(u) != (t1 & t2):
        bad.append(f'apply(and, {r1}, {r2}) = {u} denotes another function')
    str_vars = sorted(v for v in b.vars if isinstance(v, str) and v in names
                      and ',' not in v and '\t' not in v)
    if str_vars:
        v = str_vars[len(str_vars) // 2]
        ans = s.op(0, 'quantify', r1, 'n:' + v, 0)
        q = s.val(ans)
        if q is None:
            bad.append(f'exist({v}, {r1}) on the loaded manager: {ans}')
        else:
            k = names.index(v)
            want = 0
            for a in range(1 << len(names)):
                if ((t1 >> (a | (1 << k))) & 1) or ((t1 >> (a & ~(1 << k))) & 1):
                    want |= 1 << a
            if TT(b, names).of(q) != want:
                bad.append(f'exist({v}, {r1}) = {q} denotes another function')
    s.op(0, 'gc')
    s.state(0)
    bad += check_invariants(b, ledger=s.ledger.get(0, {}))
    tt1 = TT(b, names)
    got = set()
    for r in roots:
        if abs(r) not in b._succ:
            bad.append(f'held root {r} collected')
        else:
            got.add(tt1.of(r))
    if not bad and got != set(expect):
        bad.append('roots denote other functions after the collection')
    for r in roots:
        s.decref(0, r)
    if bad:
        ctx.violation(f'{label}: using the loaded manager: {bad[:3]}',
                      dict(file=render_text(F), problems=bad[:5],
                           tags=dict(call='dddmp.load', symptom='loaded-manager-not-usable')))
    ctx.count('chain-after-load')


def unheld_gc_after_load(ctx, s, b, F, label):
    """`C16_gc_unheld`: nobody holds the roots, so a collection right after `load` empties the
    manager (model and code compared; the oracle only asks that no node survives)."""
    s.op(0, 'gc')
    s.state(0)
    if len(b._succ) != 1:
        ctx.violation(f'{label}: collection right after load keeps nodes nobody holds',
                      dict(file=render_text(F), succ=repr(dict(b._succ)),
                           tags=dict(call='dddmp.load', symptom='unheld-nodes-survive-gc')))
    ctx.count('unheld-gc-after-load')


def _lift(t, names, tt):
    """Truth table `t` over `names` re-expressed over `tt.names` (a superset)."""
    pos = [tt.names.index(v) for v in names]
    r = 0
    for a in range(1 << len(tt.names)):
        a0 = 0
        for k, p in enumerate(pos):
            a0 |= ((a >> p) & 1) << k
        if (t >> a0) & 1:
            r |= 1 << a
    return r


VARIANTS = [
    # varinfo, names, ordered
    dict(varinfo=0, names=True, ordered=False),
    dict(varinfo=0, names=True, ordered=True),
    dict(varinfo=1, names=True, ordered=False),
    dict(varinfo=1, names=True, ordered=True),
    dict(varinfo=3, names=True, ordered=True),
    dict(varinfo=0, names=False, ordered=False),
    dict(varinfo=1, names=False, ordered=False),
    dict(varinfo=3, names=False, ordered=True),
]


def random_opts(rng, k):
    o = dict(VARIANTS[k % len(VARIANTS)])
    o['gaps'] = rng.random() < 0.5
    # up to 9 more variables in the writer's manager: permids / ids / levels with two digits
    o['extra'] = rng.choice([0, 0, 1, 2, 7, 9])
    o['wide_gaps'] = rng.random() < 0.3
    o['aux'] = rng.random() < 0.5
    o['list_unused'] = rng.random() < 0.3
    o['ids_identity'] = rng.random() < 0.3
    if not o['names'] and not o['ordered']:
        o['nameless_perm'] = rng.choice(['identity', 'involution'])
    o['add'] = rng.random() < 0.25
    if rng.random() < 0.25:
        o['dd'] = rng.choice(['f', 'out.bdd', '_d@1', "g'"])
    if rng.random() < 0.3:
        o['ver'] = rng.choice([None, 'DDDMP-2.0', 'DDDMP-1.0', 'x--2.-0', 'v-10.3'])
    if rng.random() < 0.2:
        o['mode'] = None
    return o


def opts_label(o):
    return (f"varinfo={o['varinfo']},names={int(o['names'])},ordered={int(o['ordered'])},"
            f"gaps={int(bool(o.get('gaps')) and o['names'] and not o['ordered'])}")


def check_C16(ctx):
    rng = ctx.rng
    ctx.driver = DRIVER
    _build_driver(ctx)
    quick = ctx.tier == 'quick'
    ctx.notes.append('bdd.roots is a set: root entries and returned roots are compared as sets of functions')
    # 0. regression corpus, run first.  F23 (repaired in f9d6f33): a valid `.varinfo 3` file whose
    #    variable is called `y.end` / `y.nodes` (dots are legal in NAME tokens; dd.cudd writes the
    #    names of its variables verbatim) was refused with AssertionError / TypeError because the
    #    loader cut the file at the first line that CONTAINED `.end` / `.nodes`
    s = Session(ctx)
    for nm in ('y.end', 'y.nodes', 'x.nodes.end'):
        F = dict(varinfo=3, nnodes=3, nvars=2, nsuppvars=2, orderedvarnames=['x', nm],
                 suppvarnames=['x', nm], ids=[0, 1], permids=[0, 1], nroots=2, rootids=[3, -2],
                 nodes=[(1, 'T', 1, 0, 0), (2, nm, 1, 1, -1), (3, 'x', 0, 1, 2)])
        sp = Space(['x', nm])
        tabs = file_tables(F, sp.masks, sp.full)
        load_and_check(ctx, s, F, {root_table(tabs, sp.full, r) for r in F['rootids']}, sp.names,
                       'corpus-F23', extra_tags=dict(name=nm), chain='hold')
        ctx.case('corpus-F23 ' + nm)
    ctx.add_session(s, SECTIONS_L3, 'corpus-F23')
    s.close()
    # the minimal reproduction of finding F1 (roots stored untranslated; repaired in /repo)
    s = Session(ctx)
    F = dict(varinfo=0, nnodes=3, nvars=2, nsuppvars=2, suppvarnames=['a', 'b'],
             orderedvarnames=['a', 'b'], ids=[0, 1], permids=[0, 1], nroots=2, rootids=[2, -3],
             nodes=[(1, 'T', 1, 0, 0), (2, 0, 0, 1, -1), (3, 1, 1, 1, -1)])
    sp = Space(['a', 'b'])
    tabs = file_tables(F, sp.masks, sp.full)
    load_and_check(ctx, s, F, {root_table(tabs, sp.full, r) for r in F['rootids']}, sp.names,
                   'corpus-F1', chain='hold')
    ctx.case('corpus-F1')
    # the file of the chain example of `DDProps/C16Chain.lean` (`dddmpChain`): order z < x < y differs
    # from the listing, gaps in .permids, a complemented else-edge, parent-first numbering
    F = dict(varinfo=0, nnodes=4, nvars=6, nsuppvars=3, suppvarnames=['x', 'y', 'z'],
             ids=[4, 7, 1], permids=[2, 5, 0], nroots=2, rootids=[2, -4],
             nodes=[(2, 1, 2, 4, 3), (1, 'T', 1, 0, 0), (4, 4, 0, 1, -3), (3, 7, 1, 1, -1)])
    sp = Space(['x', 'y', 'z'])
    tabs = file_tables(F, sp.masks, sp.full)
    for chain in ('hold', 'unheld'):
        load_and_check(ctx, s, F, {root_table(tabs, sp.full, r) for r in F['rootids']}, sp.names,
                       'corpus-chain', chain=chain)
    ctx.case('corpus-chain')
    ctx.add_session(s, SECTIONS_L3, 'corpus-F1')
    s.close()
    # 1. the sample files of the repository
    for k in range(4):
        path = os.path.join(lib.REPO, 'tests', f'sample{k}.dddmp')
        if not os.path.exists(path):
            continue
        F = read_text(path)
        F['text'] = path
        s = Session(ctx)
        names_f = F.get('orderedvarnames') or F.get('suppvarnames') or F['ids']
        spn = sorted(names_f, key=str)
        masks, full = lib.var_masks(spn)
        tabs = file_tables(F, masks, full)
        expect = {root_table(tabs, full, r) for r in F['rootids']}
        load_and_check(ctx, s, F, expect, spn, f'sample{k}', chain='hold')
        ctx.case(f'sample{k}')
        ctx.count('sample-file')
        ctx.add_session(s, SECTIONS_L3, f'sample{k}')
        s.close()
    # 2. generated files
    n_sets = 10 if quick else 60
    max_exh = 5
    n_rand_ext = 6 if quick else 30
    case_no = 0
    for nv in ((1, 2, 3, 4) if quick else (1, 2, 3, 4, 5)):
        names = [chr(ord('a') + i) for i in range(nv)]
        sp = Space(names)
        for _ in range(n_sets):
            if ctx.time_left() < 12:
                ctx.notes.append('time budget reached in generated files')
                break
            order = names[:]
            rng.shuffle(order)
            n_roots = rng.choice([1, 1, 2, 2, 3])
            fns = [rng.randrange(sp.full + 1) for _ in range(n_roots)]
            if rng.random() < 0.15:
                fns[0] = rng.choice([0, sp.full])      # a constant root
            dg = Diagram(sp, order)
            roots = [dg.build(t) for t in fns]
            if rng.random() < 0.3 and len(roots) > 1:
                roots.append(-roots[0])                 # the complement of another root
                fns.append(sp.neg(fns[0]))
            n = len(dg.nodes)
            if n <= max_exh:
                exts = list(linear_extensions(dg.nodes))
                ctx.count('numberings-exhaustive')
            else:
                exts = list({random_extension(rng, dg.nodes) for _ in range(n_rand_ext)})
                ctx.count('numberings-sampled')
            if quick and len(exts) > 40:
                exts = rng.sample(exts, 40)
            s = Session(ctx)
            n_var = len(VARIANTS) if (not quick or len(exts) <= 30) else 3
            for ext, _k in itertools.product(exts, range(n_var)):
                opts = random_opts(rng, case_no)
                case_no += 1
                F, name_of = make_file(rng, dg, roots, ext, opts)
                # generator self-check + oracle tables by the names the manager must use
                onames = sorted((name_of[v] for v in name_of), key=str)
                masks, full = lib.var_masks(onames)
                tabs = file_tables(F, masks, full)
                expect = set()
                for r, t in zip(F['rootids'], fns):
                    te = root_table(tabs, full, r)
                    expect.add(te)
                    t_named = _rename_table(sp, t, name_of, onames)
                    if te != t_named:
                        raise RuntimeError(f'generator: file does not encode the function {F} {t}')
                label = opts_label(opts)
                ctx.count(label)
                if any(r < 0 for r in F['rootids']):
                    ctx.count('complemented-root')
                if list(ext) != sorted(ext):
                    ctx.count('numbering-not-in-generator-order')
                # every 3rd case goes on using the loaded manager; every 7th collects at once
                chain = 'hold' if case_no % 3 == 0 else ('unheld' if case_no % 7 == 0 else None)
                load_and_check(ctx, s, F, expect, onames, label, chain=chain)
                ctx.case((tuple(fns), tuple(order), ext, label, tuple(F['permids']), tuple(F['ids'])))
            ctx.add_session(s, SECTIONS_L3, f'generated nv={nv}')
            s.close()
    # 3. files outside the well-formed domain: model and code must agree (answers only)
    malformed(ctx)
    # 4. the text layer
    text_layer(ctx)
    ctx.exhaustive = False
    tmp = os.path.join(SCRATCH, f'f{os.getpid()}.dddmp')
    if os.path.exists(tmp):
        os.remove(tmp)


def _rename_table(sp, t, name_of, onames):
    """Truth table `t` over `sp.names` as a table over `onames` (= renamed support);
    `t` must not depend on names outside `name_of`."""
    r = 0
    for a in range(1 << len(onames)):
        a0 = 0
        for k, v in enumerate(sp.names):
            if v in name_of:
                p = onames.index(name_of[v])
                a0 |= ((a >> p) & 1) << k
        if (t >> a0) & 1:
            r |= 1 << a
    return r


def malformed(ctx):
    """Quirks and rejected files: correspondence only."""
    rng = ctx.rng
    base = dict(varinfo=0, nnodes=4, nvars=3, nsuppvars=2, suppvarnames=['a', 'b'],
                ids=[0, 2], permids=[0, 2], nroots=1, rootids=[-4],
                nodes=[(1, 'T', 1, 0, 0), (2, 2, 1, 1, -1), (3, 2, 1, 1, -1), (4, 0, 0, 2, -3)])
    base['nodes'][2] = (3, 0, 0, 1, 2)
    base['nodes'][3] = (4, 0, 0, 2, -1)
    base['nnodes'] = 4
    cases = []

    def mod(label, **kw):
        F = {k: (list(v) if isinstance(v, list) else v) for k, v in base.items()}
        for k, v in kw.items():
            if v is None:
                F.pop(k, None)
            else:
                F[k] = v
        cases.append((label, F))

    mod('base')
    for c in (2, 4, 5, -1):
        mod(f'varinfo-{c}', varinfo=c)
    mod('varinfo-absent', varinfo=None)
    mod('varinfo-3-no-ordered', varinfo=3)
    mod('ids-absent', ids=None)
    mod('permids-absent', permids=None)
    mod('rootids-absent', rootids=None)
    mod('nvars-absent', nvars=None)
    mod('nnodes-absent', nnodes=None)
    mod('nnodes-wrong', nnodes=7)
    mod('nsuppvars-wrong', nsuppvars=3)
    mod('nroots-wrong', nroots=2)
    mod('aux-wrong', auxids=[1])
    mod('ordered-wrong-length', orderedvarnames=['a', 'b'])
    mod('then-complemented', nodes=[(1, 'T', 1, 0, 0), (2, 2, 1, -1, 1), (3, 0, 0, 1, 2), (4, 0, 0, 2, -1)])
    mod('unknown-info', nodes=[(1, 'T', 1, 0, 0), (2, 7, 1, 1, -1), (3, 0, 0, 1, 2), (4, 0, 0, 2, -1)])
    mod('terminal-not-1', nodes=[(9, 'T', 1, 0, 0), (2, 2, 1, 9, -9), (3, 0, 0, 9, 2), (4, 0, 0, 2, -9)])
    mod('child-missing', nodes=[(1, 'T', 1, 0, 0), (2, 2, 1, 1, -1), (3, 0, 0, 1, 8), (4, 0, 0, 2, -1)])
    mod('then-zero', nodes=[(1, 'T', 1, 0, 0), (2, 2, 1, 0, -1), (3, 0, 0, 1, 2), (4, 0, 0, 2, -1)])
    mod('else-zero', nodes=[(1, 'T', 1, 0, 0), (2, 2, 1, 1, 0), (3, 0, 0, 1, 2), (4, 0, 0, 2, -1)])
    mod('duplicate-id', nodes=[(1, 'T', 1, 0, 0), (2, 2, 1, 1, -1), (2, 0, 0, 1, 2), (4, 0, 0, 2, -1)], nnodes=3)
    mod('same-level-child', nodes=[(1, 'T', 1, 0, 0), (2, 0, 1, 1, -1), (3, 0, 0, 1, 2), (4, 0, 0, 2, -1)])
    mod('redundant-node', nodes=[(1, 'T', 1, 0, 0), (2, 2, 1, 1, -1), (3, 0, 0, 2, 2), (4, 0, 0, 3, -1)])
    mod('duplicate-permids', permids=[2, 2])
    mod('nameless-gap', suppvarnames=None)
    mod('nameless-non-involution', suppvarnames=None, nsuppvars=3, ids=[0, 1, 2], permids=[1, 2, 0],
        nodes=[(1, 'T', 1, 0, 0), (2, 1, 1, 1, -1), (3, 0, 0, 1, 2), (4, 2, 2, 3, -1)])
    mod('number-names', suppvarnames=[10, 20])
    mod('var-named-T', varinfo=3, suppvarnames=['T', 'b'], orderedvarnames=['T', 'x', 'b'],
        nodes=[(1, 'T', 1, 0, 0), (2, 'b', 1, 1, -1), (3, 'T', 0, 1, 2), (4, 'T', 0, 2, -1)])
    mod('negative-permid', permids=[-3, 2], ids=[0, 2])
    mod('root-unknown', rootids=[17])
    mod('info-T-nonterminal', nodes=[(1, 'T', 1, 0, 0), (2, 'T', 1, 1, -1), (3, 0, 0, 1, 2), (4, 0, 0, 2, -1)])
    mod('negative-node-id', nodes=[(1, 'T', 1, 0, 0), (-2, 2, 1, 1, -1), (3, 0, 0, 1, 2), (4, 0, 0, 2, -1)])
    mod('terminal-only', nnodes=1, nodes=[(1, 'T', 1, 0, 0)], rootids=[-1])
    s = Session(ctx)
    for label, F in cases:
        load_and_check(ctx, s, F, None, None, label)
        ctx.count('outside-domain:' + label)
        ctx.case('outside:' + label, nontrivial=False)
    ctx.add_session(s, SECTIONS_L3, 'outside-domain')
    s.close()


REGISTRY = {
    'C16': (check_C16,
            'generated text-mode DDDMP files (same data -> text file for dd.dddmp.load and abstract '
            'content for the model): sampled root sets over 1-4 variables (10 per size; thorough: 60, up to 5 '
            'variables), every children-first numbering of diagrams with <=5 nodes (random ones beyond), '
            'varinfo 0/1/3, .orderedvarnames/.suppvarnames present or absent, gaps in permids, extra '
            'variables, complemented and constant roots; the 4 sample files; ~35 malformed/quirk files '
            '(answers compared only). Oracle: node list of the file evaluated directly vs truth tables by '
            'name of the returned roots (as sets), invariants + canonicity of the manager, counts exact '
            'for the EMPTY ledger, reordering off, variable order = the order the header lines '
            'prescribe; the Lean specifications evalFile and evalFormat are printed by the driver for '
            'every node/root and compared with the harness evaluator; every 3rd case goes on using the '
            'loaded manager (incref roots, and of two roots, exist, collect_garbage: results against '
            'the file tables, exact counts for the ledger), every 7th collects at once (nothing held: '
            'no node survives); every file is loaded from its TEXT by the model too (loadDddmpText: line dispatch, header lexer, '
            'grammar with actions, node lines) and the two encodings must agree; generated files carry .add / .dd / odd or absent '
            '.ver / absent .mode; text layer: every header line of the grammar on a valid file, 17 odd variable names (y.end, '
            'y.nodes, .foo, ...) in modes 3 and 0, 400 (thorough 6000) random edits of valid texts; exact-state correspondence throughout'),
}
