"""C17, `RuntimeError('full: reached max_nodes')`: the capacity layer of the model
(lean/DD/Capacity.lean, exe `ddvcap`) against the real code with `bdd.max_nodes = k`, line by line.

Protocol op added here: `<id> set_max_nodes <k>|max` (`bdd.max_nodes = k`; `max` = `sys.maxsize`).
On a manager whose capacity was lowered the driver runs `foa` / `ite` / `var` on the capacity-aware
model (the LITERAL store / search / delete variant, cross-checked inside the driver against the
abstract variant the theorems are about: ` LAYERS-DIFFER`); every other line is `DD.stepLine`'s.

Each scenario: a manager with some held functions, `max_nodes` lowered to a few numbers around
`_min_free`, node-creating calls until one is refused, `state` after EVERY call (the dump after the
refusal, and after the next successful calls, must be the model's), then the limit raised, the
refused call repeated, a collection, more calls.

Independent oracles on the real manager (they do not read the model):
  * a refused `find_or_add` leaves the dump of before the call (`DD.C17_full_unchanged`);
  * a refused `ite` / `var` leaves a structurally sound manager with counts exact for the held
    ledger, every held function unchanged, old nodes untouched, `_min_free` free, the
    reordering-context flag cleared, the threshold unchanged (`DD.C17_ite_full_dyn`);
  * the repeated call, with the limit raised, returns the right function.
With commit 9f1005b reverted the first two fail (violation with the protocol lines); the un-repaired
model `*_old` of the driver is then run on the same lines and the replay says whether it predicts
the damaged state exactly.

Finding F22 (known_findings.json): `BDD.swap` calls `find_or_add` in the middle of its rewrite, so
`max_nodes` reached THERE leaves the manager half-swapped.  `swap_witness` / `swap_variants` run the
minimal history and random variants (explicit `swap`, `reorder`, a decorated call that serves a
reordering request at capacity); the damage is tagged `call='swap:full'` only when the
`RuntimeError` crossed the frame of `swap`.  The explicit `swap` sessions are also replayed on the
model with capacity (`swapCapL`), which predicts the half-swapped state.
"""
import os
import subprocess
import sys

import impl
from lib import Session, SECTIONS_L3, TT, check_invariants, run_model, filter_state, LEAN

DRIVER = 'ddvcap'


def _set_max_nodes(_imp, b, a):
    b.max_nodes = sys.maxsize if a[0] == 'max' else int(a[0])
    return '-'


impl.EXT_OPS['set_max_nodes'] = _set_max_nodes


def build_driver():
    p = subprocess.run(['lake', 'build', DRIVER], cwd=LEAN, text=True,
                       stdout=subprocess.PIPE, stderr=subprocess.STDOUT, timeout=3000)
    if p.returncode != 0:
        raise RuntimeError(f'lake build {DRIVER} failed:\n' + p.stdout[-3000:])


def _sections(dump):
    """`ok vars=..|succ=..` -> dict section -> text"""
    if not dump.startswith('ok vars='):
        return {}
    return dict(p.split('=', 1) for p in dump[3:].split('|') if '=' in p)


def _unrepaired_model_agrees(lines, answers):
    """Run the lines with `foa` / `ite` / `var` renamed to the un-repaired model ops on capped managers;
    True when every answer (and every dump) equals the real code's: the damage observed is exactly
    what the model of the code before 9f1005b predicts."""
    capped = set()
    out_lines = []
    for ln in lines:
        f = ln.split('\t')
        if len(f) >= 3 and f[1] == 'set_max_nodes':
            (capped.discard if f[2] == 'max' else capped.add)(f[0])
        if len(f) >= 2 and f[0] in capped and f[1] in ('foa', 'ite', 'var', 'apply', 'quantify', 'cofactor', 'let_b', 'compose', 'let_r', 'rename', 'let_n', 'cube', 'add_expr'):
            f[1] += '_old'
        out_lines.append('\t'.join(f))
    try:
        out = run_model(out_lines, driver=DRIVER)
    except Exception:  # noqa: BLE001
        return None
    return all(filter_state(a, SECTIONS_L3) == filter_state(m, SECTIONS_L3)
               for a, m in zip(answers, out)) and len(out) == len(answers)


APPLY2 = ['or', '\\/', '|', '||', 'and', '/\\', '&', '&&', '#', 'xor', '^', '=>', '->', 'implies',
          '<=>', '<->', 'equiv', 'diff', '-']
QUANT = ['\\A', 'forall', '\\E', 'exists']


class _Scn:
    def __init__(self, ctx, nv):
        self.ctx = ctx
        self.rng = ctx.rng
        self.s = Session(ctx)
        self.names = [chr(ord('a') + i) for i in range(nv)]
        self.s.new(0, self.names)
        self.b = self.s.mgr(0)
        self.pool = [1, -1]
        self.ledger = self.s.ledger[0]

    def pick(self):
        u = self.rng.choice(self.pool)
        return u if self.rng.random() < 0.6 else -u

    def random_call(self):
        rng = self.rng
        r = rng.random()
        if r < 0.12:
            return ('var', rng.choice(self.names))
        if r < 0.3:
            # raw find_or_add under its documented precondition (level above both children)
            i = rng.randrange(len(self.names))
            cands = [u for u in self.pool if abs(u) == 1 or self.b._succ[abs(u)][0] > i]
            v, w = rng.choice(cands), rng.choice(cands)
            return ('foa', i, v if rng.random() < 0.5 else -v, w if rng.random() < 0.7 else -w)
        g, u, v = self.pick(), self.pick(), self.pick()
        k = rng.random()
        if r < 0.35:
            # `cofactor` / `let` with Boolean values (the model with capacity: `cofactorCapL`)
            q = rng.sample(self.names, rng.randint(1, min(3, len(self.names))))
            return (rng.choice(['cofactor', 'let_b']), u,
                    ','.join(f'n:{x}={rng.choice([0, 1])}' for x in q))
        if r < 0.4:
            # `quantify` over names (the model with capacity: `quantifyCapL`)
            q = rng.sample(self.names, rng.randint(1, min(3, len(self.names))))
            return ('quantify', u, ','.join('n:' + x for x in q), rng.choice([0, 1]))
        if r < 0.6:
            # `apply`: every connective, the ternary `ite`, negation (one `self.ite` each), and the
            # quantifier aliases (`quantify` over the support of the first operand)
            op = rng.choice(APPLY2 + ['ite', 'ite', 'not', '~'] + QUANT)
            if op == 'ite':
                return ('apply', op, g, u, v)
            if op in ('not', '~'):
                return ('apply', op, u)
            return ('apply', op, u, v)
        if k < 0.25:
            return ('ite', g, u, -1)          # and
        if k < 0.5:
            return ('ite', g, -u, u)          # xor
        return ('ite', g, u, v)

    def quant_call(self):
        rng = self.rng
        u, v = self.pick(), self.pick()
        k = rng.random()
        if k < 0.3:
            q = rng.sample(self.names, rng.randint(1, min(3, len(self.names))))
            return (rng.choice(['cofactor', 'let_b']), u,
                    ','.join(f'n:{x}={rng.choice([0, 1])}' for x in q))
        if k < 0.65:
            return ('apply', rng.choice(QUANT), u, v)
        q = rng.sample(self.names, rng.randint(1, min(3, len(self.names))))
        return ('quantify', u, ','.join('n:' + x for x in q), rng.choice([0, 1]))

    def call(self, c):
        a = self.s.op(0, *c)
        r = self.s.val(a)
        if r is not None and abs(r) in self.b._succ and r not in self.pool and -r not in self.pool:
            self.pool.append(r)
        return a

    def hold(self, u):
        if abs(u) != 1:
            self.s.incref(0, u)

    def violation(self, what, call, problems, kind):
        agrees = _unrepaired_model_agrees(self.s.lines, self.s.answers)
        self.ctx.violation(what, dict(
            lines=list(self.s.lines), call='\t'.join(map(str, call)), problems=problems[:5],
            max_nodes=self.b.max_nodes, unrepaired_model_predicts_it=agrees,
            tags=dict(call='full:' + kind)))


def scenario(ctx, wide=False):
    rng = ctx.rng
    nv = rng.randint(9, 10) if wide else rng.randint(3, 6)
    h = _Scn(ctx, nv)
    s, b = h.s, h.b
    try:
        for v in rng.sample(h.names, min(len(h.names), rng.randint(2, 5))):
            a = h.call(('var', v))
            if rng.random() < 0.8:
                h.hold(s.val(a))
        if rng.random() < 0.3:
            s.op(0, 'configure', 1)      # dynamic reordering enabled (never due on these sizes)
        for _ in range(rng.randint(0, 10)):
            a = h.call(h.random_call())
            r = s.val(a)
            if r is not None and rng.random() < 0.4:
                h.hold(r)
        if rng.random() < 0.7:
            s.op(0, 'gc')
            h.pool = [u for u in h.pool if abs(u) in b._succ]
        s.state(0)
        # lower the limit: around `_min_free` (the boundary: a store at `u` needs a free number in
        # `(u, max_nodes)`), sometimes far below, sometimes a few nodes above
        k = max(0, b._min_free + rng.choice([-2, 0, 1, 1, 2, 2, 3, 4, 6]))
        if rng.random() < 0.1:
            k = rng.choice([0, 1, 2, len(b)])
        s.op(0, 'set_max_nodes', k)
        refused = None
        focus_q = rng.random() < 0.35      # insist on `quantify` / the quantifier aliases
        for _ in range(25):
            c = h.quant_call() if focus_q else h.random_call()
            before = s.state(0)
            held_tt = {u: TT(b, h.names).of(u) for u, n in h.ledger.items() if n > 0}
            last_len, old_succ = b._last_len, dict(b._succ)
            a = h.call(c)
            after = s.state(0)
            ctx.evaluations += 1
            if a != 'err RuntimeError':
                continue
            refused = c
            ctx.count('cap:refused-' + c[0])
            # --- independent oracles on the real manager -------------------------------------
            bad = []
            if c[0] == 'foa' and after != before:
                sb, sa = _sections(before), _sections(after)
                bad.append('refused find_or_add changed: ' + ', '.join(
                    f'{x}: {sb.get(x)} -> {sa.get(x)}' for x in sa if sa.get(x) != sb.get(x))[:300])
            bad += check_invariants(b, h.ledger, probe=False)
            tt = TT(b, h.names)
            for u, t in held_tt.items():
                if u not in b._succ or tt.of(u) != t:
                    bad.append(f'held node {u} changed or disappeared')
            for u, t in old_succ.items():
                if b._succ.get(u) != t:
                    bad.append(f'node {u} existed and was touched')
            if b._min_free in b._succ:
                bad.append('_min_free names a stored node')
            if b._reordering_context:
                bad.append('the reordering-context flag is still set')
            if b._last_len != last_len:
                bad.append('the reordering threshold changed')
            if bad:
                h.violation('max_nodes reached: the refused call damaged the manager', c, bad, c[0])
                ctx.add_session(s, SECTIONS_L3, 'C17 capacity (damaged)')
                return
            break
        if refused is None:
            ctx.count('cap:not-reached')
        else:
            # still full: the same call is refused again and again changes nothing more than the
            # first time (nodes created before the refusal are found, not created)
            h.call(refused)
            s.state(0)
            # a copy of the manager has the limit of its source
            if rng.random() < 0.3:
                s.op(0, 'mcopy', 1)
                s.op(1, *refused)
                s.state(1)
            # calls that need no new node still succeed on the full manager
            if len(h.pool) > 2:
                u = h.pool[-1]
                h.call(('ite', u, 1, -1))
                h.call(('ite', 1, u, -u))
                s.state(0)
            # raise the limit: the refused call now returns, and returns the right function
            s.op(0, 'set_max_nodes', 'max' if rng.random() < 0.6 else b._min_free + 40)
            tt0 = TT(b, h.names)
            want = None
            if refused[0] == 'ite':
                g, u, v = (tt0.of(x) for x in refused[1:])
                want = (g & u) | (tt0.full & ~g & v)
            a = h.call(refused)
            s.state(0)
            r = s.val(a)
            if r is None:
                h.violation('the refused call still fails after the limit was raised', refused, [a], 'retry')
            elif want is not None and TT(b, h.names).of(r) != want:
                h.violation('the repeated call returns another function', refused, [a], 'retry')
            else:
                h.hold(r)
        # go on: collections and more calls, every state compared with the model
        for _ in range(rng.randint(2, 6)):
            if rng.random() < 0.3:
                s.op(0, 'gc')
                h.pool = [u for u in h.pool if abs(u) in b._succ]
            else:
                h.call(h.random_call())
            s.state(0)
        bad = check_invariants(b, h.ledger, probe=True)
        if bad:
            h.violation('manager damaged after going on from a full manager', refused or (), bad, 'after')
        ctx.case(('cap', nv, refused and refused[0], len(s.lines)))
        ctx.add_session(s, SECTIONS_L3, 'C17 capacity')
    finally:
        s.close()


def witness(ctx):
    """The non-vacuity example of lean/DDProps/C17Capacity.lean on the real code: a, b, c; nodes
    2, 3, 4 held; `max_nodes = 7`; `ite(b, a, c)` stores node 5 and is refused at node 6."""
    s = Session(ctx)
    s.new(0, ['a', 'b', 'c'])
    for v in 'abc':
        s.incref(0, s.val(s.op(0, 'var', v)))
    s.op(0, 'set_max_nodes', 7)
    s.state(0)
    a = s.op(0, 'ite', 3, 2, 4)
    st = s.state(0)
    b = s.mgr(0)
    bad = check_invariants(b, s.ledger[0], probe=False)
    if a != 'err RuntimeError':
        bad.append(f'ite(3, 2, 4) with max_nodes = 7 answered {a}')
    sec = _sections(st)
    if sec.get('min_free') != '6' or '5:1:-4:1' not in sec.get('succ', '') or ',6:' in sec.get('succ', ''):
        bad.append('expected node 5 stored, node 6 refused, _min_free = 6: ' + st[:200])
    if bad:
        ctx.violation('max_nodes reached half-way through ite: manager damaged', dict(
            lines=list(s.lines), problems=bad[:5],
            unrepaired_model_predicts_it=_unrepaired_model_agrees(s.lines, s.answers),
            tags=dict(call='full:ite')))
    s.op(0, 'set_max_nodes', 6)
    s.op(0, 'foa', 0, 4, 3)            # one refused find_or_add (`DD.C17_full_unchanged`)
    s.state(0)
    s.op(0, 'set_max_nodes', 'max')
    s.op(0, 'ite', 3, 2, 4)
    s.state(0)
    ctx.evaluations += 1
    ctx.add_session(s, SECTIONS_L3, 'C17 capacity witness')
    s.close()


# --- finding F22: `max_nodes` reached inside `BDD.swap` ------------------------------------------
# `swap` (hence `reorder`, sifting, dynamic reordering inside any decorated call) goes through
# `find_or_add` in the middle of its rewrite of two levels; a `RuntimeError('full')` raised there
# leaves the manager half-swapped (9f1005b makes each `find_or_add` clean, not the swap around it).
# The failing FRAME is recorded by a wrapper of `BDD.swap`: only a damage whose `RuntimeError`
# crossed `swap` is tagged `call='swap:full'` (the known finding); a full manager damaged anywhere
# else is tagged `full:<call>` and stays a violation.

FULL_SITES = []
_swap_below = impl._bdd.BDD.swap


def _swap_site(self, *a, **k):
    try:
        return _swap_below(self, *a, **k)
    except RuntimeError as e:
        if str(e).startswith('full'):
            FULL_SITES.append('swap')
        raise


impl._bdd.BDD.swap = _swap_site


def _f22(ctx, s, b, kind, call, bad):
    ctx.count('cap:swap-full-damaged:' + kind)
    ctx.violation('max_nodes reached inside swap: the manager is left half-swapped', dict(
        lines=list(s.lines), call=call, problems=bad[:5], max_nodes=b.max_nodes, variant=kind,
        tags=dict(call='swap:full')))


def swap_witness(ctx):
    """The minimal history of F22, on the real code AND on the model with capacity (`swapCapL`,
    lean/DDProofs/CapacitySwap.lean `swapCap_breaks_inv` is this state): the model predicts the
    half-swapped manager exactly."""
    s = Session(ctx)
    s.new(0, ['a', 'b', 'c'])
    for v in 'abc':
        s.op(0, 'var', v)
    s.incref(0, s.val(s.op(0, 'ite', 2, 3, 4)))
    s.op(0, 'gc')
    s.state(0)
    s.op(0, 'set_max_nodes', 7)
    del FULL_SITES[:]
    a = s.op(0, 'swap', 'l:0', 'l:1')
    s.state(0)
    b = s.mgr(0)
    bad = check_invariants(b, s.ledger[0], probe=False) if a == 'err RuntimeError' else []
    if bad and FULL_SITES:
        _f22(ctx, s, b, 'swap', 'swap(0, 1)', bad)
    elif bad:
        ctx.violation('max_nodes reached: manager damaged', dict(
            lines=list(s.lines), problems=bad[:5], tags=dict(call='full:swap-witness')))
    else:
        ctx.count('cap:swap-full-clean')
    ctx.evaluations += 1
    ctx.add_session(s, SECTIONS_L3, 'C17 capacity: swap at capacity (F22)')
    s.close()


def swap_variants(ctx, n):
    """Random managers at capacity: an explicit `swap` (compared with the model with capacity),
    `reorder` (sifting) and a decorated `ite` whose reordering request is served at capacity (real
    code only: the model of sifting has no capacity)."""
    rng = ctx.rng
    for k in range(n):
        if ctx.time_left() < 5:
            break
        h = _Scn(ctx, rng.randint(3, 5))
        s, b = h.s, h.b
        try:
            for v in h.names:
                h.call(('var', v))
            for _ in range(rng.randint(2, 6)):
                c = h.random_call()
                if c[0] == 'foa':
                    continue
                r = s.val(h.call(c))
                if r is not None and rng.random() < 0.6:
                    h.hold(r)
            s.op(0, 'gc')
            h.pool = [u for u in h.pool if abs(u) in b._succ]
            if len(b) < 3:
                continue
            kind = ('swap', 'reorder', 'dynamic')[k % 3]
            s.state(0)
            if kind == 'dynamic':
                s.op(0, 'configure', 1)
            s.op(0, 'set_max_nodes', max(0, b._min_free + rng.choice([0, 0, 1, 1, 2, 3])))
            held_tt = {u: TT(b, h.names).of(u) for u, m_ in h.ledger.items() if m_ > 0}
            del FULL_SITES[:]
            if kind == 'swap':
                i = rng.randrange(len(h.names) - 1)
                call = ('swap', f'l:{i}', f'l:{i + 1}')
            elif kind == 'reorder':
                call = ('reorder',)
            else:
                s.op(0, 'fire_in', 1)
                call = ('ite', h.pick(), h.pick(), h.pick())
            a = s.op(0, *call)
            if kind == 'dynamic':
                s.op(0, 'fire_off')      # (the trigger is keyed by `id(bdd)`: never leave one behind)
            s.state(0)
            ctx.evaluations += 1
            if a != 'err RuntimeError':
                ctx.count(f'cap:{kind}-not-refused')
            else:
                bad = check_invariants(b, h.ledger, probe=False)
                tt = TT(b, h.names)
                for u, t in held_tt.items():
                    if u not in b._succ or tt.of(u) != t:
                        bad.append(f'held node {u} changed or disappeared')
                if bad and FULL_SITES:
                    _f22(ctx, s, b, kind, '\t'.join(map(str, call)), bad)
                elif bad:
                    h.violation('max_nodes reached: the refused call damaged the manager', call, bad, kind)
                else:
                    ctx.count(f'cap:{kind}-refused-clean')
            ctx.case(('cap-swap', kind, len(s.lines)))
            if kind == 'swap':
                # the model with capacity (`swapCapL`) must predict the state, damaged or not
                ctx.add_session(s, SECTIONS_L3, 'C17 capacity: swap at capacity (F22)')
        finally:
            s.close()


# --- every other node-creating operation at capacity: oracle on the real code ------------------
# `apply` with the quantifier aliases, `quantify`, `cofactor` / `let` (three forms), `compose`,
# `rename`, `cube`, `add_expr`, `copy_bdd` have no capacity-aware model; their refusal half-way is
# checked on the real manager only (structure, exact counts for the held ledger, truth tables of
# the held references, old nodes untouched, `_min_free` free, flag cleared, threshold unchanged),
# then the limit is raised and the refused call must return the function the truth-table oracle
# computes.  The sessions are NOT replayed on the model.

OP_KINDS = ['apply2', 'apply3', 'applyq', 'quantify', 'cofactor', 'let_b', 'let_r', 'let_n',
            'compose', 'rename', 'cube', 'add_expr', 'var']


def _op_call(h, sp, tt, kind=None):
    """A random call `(protocol fields, expected truth table or None)`."""
    rng = h.rng
    u, v, w = h.pick(), h.pick(), h.pick()
    tu, tv, tw = tt.of(u), tt.of(v), tt.of(w)
    names = h.names
    kind = kind or rng.choice(OP_KINDS)
    if kind == 'apply2':
        op = rng.choice(APPLY2)
        f = {'or': lambda: tu | tv, 'and': lambda: tu & tv, 'xor': lambda: tu ^ tv,
             'imp': lambda: sp.neg(tu) | tv, 'eq': lambda: sp.neg(tu ^ tv), 'diff': lambda: tu & sp.neg(tv)}
        cls = ('or' if op in APPLY2[:4] else 'and' if op in APPLY2[4:8] else 'xor' if op in APPLY2[8:11]
               else 'imp' if op in APPLY2[11:14] else 'eq' if op in APPLY2[14:17] else 'diff')
        return ('apply', op, u, v), f[cls]()
    if kind == 'apply3':
        return ('apply', 'ite', u, v, w), sp.ite(tu, tv, tw)
    if kind == 'applyq':
        op = rng.choice(QUANT)
        q = sp.support(tu)
        return ('apply', op, u, v), (sp.forall(tv, q) if op in QUANT[:2] else sp.exists(tv, q))
    if kind == 'quantify':
        q = rng.sample(names, rng.randint(1, min(3, len(names))))
        fa = rng.random() < 0.5
        return (('quantify', u, ','.join('n:' + x for x in q), int(fa)),
                sp.forall(tu, q) if fa else sp.exists(tu, q))
    if kind in ('cofactor', 'let_b'):
        q = rng.sample(names, rng.randint(1, min(3, len(names))))
        vals = {x: rng.random() < 0.5 for x in q}
        t = tu
        for x, b_ in vals.items():
            t = sp.cof(t, x, b_)
        return (kind, u, ','.join(f'n:{x}={int(b_)}' for x, b_ in vals.items())), t
    if kind in ('compose', 'let_r'):
        q = rng.sample(names, rng.randint(1, min(2, len(names))))
        sub = {x: h.pick() for x in q}
        return ((kind, u, ','.join(f'{x}={r}' for x, r in sub.items())),
                sp.compose(tu, {x: tt.of(r) for x, r in sub.items()}))
    if kind in ('rename', 'let_n'):
        supp = sp.support(tu)
        free = [x for x in names if x not in supp]
        if not supp or not free:
            return ('var', rng.choice(names)), None
        x, y = rng.choice(sorted(supp)), rng.choice(free)
        return (kind, u, f'{x}={y}'), sp.rename(tu, {x: y})
    if kind == 'cube':
        q = rng.sample(names, rng.randint(1, min(4, len(names))))
        vals = {x: rng.random() < 0.5 for x in q}
        t = sp.full
        for x, b_ in vals.items():
            t &= sp.var(x) if b_ else sp.neg(sp.var(x))
        return ('cube', ','.join(f'{x}={int(b_)}' for x, b_ in vals.items())), t
    if kind == 'add_expr' and 'add_expr' in impl.EXT_OPS:
        def gen(d):
            if d == 0 or rng.random() < 0.3:
                x = rng.choice(names)
                return x, sp.var(x)
            k = rng.random()
            if k < 0.2:
                e, t = gen(d - 1)
                return f'~ ({e})', sp.neg(t)
            e1, t1 = gen(d - 1)
            e2, t2 = gen(d - 1)
            if k < 0.6:
                return f'({e1}) /\\ ({e2})', t1 & t2
            return f'({e1}) \\/ ({e2})', t1 | t2
        e, t = gen(3)
        return ('add_expr', e), t
    return ('var', rng.choice(names)), None


def op_scenario(ctx, k):
    rng = ctx.rng
    h = _Scn(ctx, rng.randint(4, 6))
    s, b = h.s, h.b
    from funcs import Space
    sp = Space(h.names)
    pre_unmodelled = False
    try:
        for v in h.names:
            a = h.call(('var', v))
            if rng.random() < 0.7:
                h.hold(s.val(a))
        for _ in range(rng.randint(3, 9)):
            c, _t = _op_call(h, sp, TT(b, h.names), rng.choice(['apply2', 'apply3', 'apply2', None]))
            r = s.val(h.call(c))
            if r is not None and rng.random() < 0.5:
                h.hold(r)
        if rng.random() < 0.3:
            s.op(0, 'configure', 1)
        s.op(0, 'gc')
        h.pool = [1, -1] + [u for u in h.pool if abs(u) != 1 and abs(u) in b._succ]
        target = None
        if k % 5 == 4:
            # `copy_bdd` INTO a manager at capacity: manager 1, same variables, another order
            s.op(1, 'new', ','.join(f'{v}={i}' for i, v in enumerate(reversed(h.names))))
            target = s.mgr(1)
            for v in h.names[:2]:
                s.incref(1, s.val(s.op(1, 'var', v)))
        cb = target if target is not None else b
        mid = 1 if target is not None else 0
        s.op(mid, 'set_max_nodes', max(0, cb._min_free + rng.choice([0, 0, 1, 1, 2, 2, 3, 4])))
        refused = None
        # most scenarios insist on ONE kind of call until it is refused (else the calls that always
        # need a node — `cube`, `var` — would take every refusal)
        focus = OP_KINDS[k % len(OP_KINDS)] if rng.random() < 0.8 else None
        unmodelled = pre_unmodelled
        for _ in range(20):
            tt = TT(b, h.names)
            if target is not None:
                u = h.pick()
                c, want = ('copy', u, 1), tt.of(u)
            else:
                c, want = _op_call(h, sp, tt, focus)
            led = s.ledger.setdefault(mid, {})
            held_tt = {x: TT(cb, h.names).of(x) for x, n_ in led.items() if n_ > 0}
            last_len, old_succ, before = cb._last_len, dict(cb._succ), impl.dump_state(cb)
            del FULL_SITES[:]
            a = s.op(0, *c)
            ctx.evaluations += 1
            if a != 'err RuntimeError':
                r = s.val(a)
                if r is not None and target is None and abs(r) in b._succ and r not in h.pool and -r not in h.pool:
                    h.pool.append(r)
                continue
            refused = (c, want)
            ctx.count('cap-op:refused-' + c[0] + (':quant' if c[0] == 'apply' and c[1] in QUANT else ''))
            bad = check_invariants(cb, led, probe=False)
            tt2 = TT(cb, h.names)
            for x, t in held_tt.items():
                if x not in cb._succ or tt2.of(x) != t:
                    bad.append(f'held node {x} changed or disappeared')
            for x, t in old_succ.items():
                if cb._succ.get(x) != t:
                    bad.append(f'node {x} existed and was touched')
            if cb._min_free in cb._succ:
                bad.append('_min_free names a stored node')
            if cb._reordering_context or b._reordering_context:
                bad.append('the reordering-context flag is still set')
            if cb._last_len != last_len:
                bad.append('the reordering threshold changed')
            if bad and FULL_SITES:
                _f22(ctx, s, cb, 'op:' + c[0], '\t'.join(map(str, c)), bad)
                return
            if bad:
                ctx.violation('max_nodes reached: the refused call damaged the manager', dict(
                    lines=list(s.lines), call='\t'.join(map(str, c)), problems=bad[:5],
                    max_nodes=cb.max_nodes, state_before=before[:600],
                    tags=dict(call='full:' + c[0])))
                return
            break
        if refused is None:
            ctx.count('cap-op:not-reached')
        else:
            c, want = refused
            s.op(mid, 'set_max_nodes', 'max')
            a = s.op(0, *c)
            r = s.val(a)
            if r is None:
                ctx.violation('the refused call still fails after the limit was raised', dict(
                    lines=list(s.lines), call='\t'.join(map(str, c)), answer=a, tags=dict(call='full:retry')))
            elif want is not None and TT(cb, h.names).of(r) != want:
                ctx.violation('the repeated call returns another function', dict(
                    lines=list(s.lines), call='\t'.join(map(str, c)), answer=a, tags=dict(call='full:retry')))
            s.op(mid, 'gc')
            bad = check_invariants(cb, s.ledger.get(mid, {}), probe=True)
            if bad:
                ctx.violation('manager damaged after going on from a full manager', dict(
                    lines=list(s.lines), problems=bad[:5], tags=dict(call='full:after')))
        ctx.case(('cap-op', len(h.names), refused and refused[0][0], len(s.lines)))
        if not unmodelled:
            # every call of this scenario has a twin with capacity: replay it on `ddvcap` too
            s.state(0)
            if target is not None:
                s.state(1)
            ctx.add_session(s, SECTIONS_L3, 'C17 capacity (operations)')
            ctx.count('cap-op:replayed-on-model')
    finally:
        s.close()


def extra_C17_capacity(ctx):
    saved = ctx.driver
    ctx.flush_model()
    ctx.driver = DRIVER
    if not getattr(ctx, 'no_model', False):
        build_driver()
    try:
        witness(ctx)
        swap_witness(ctx)
        swap_variants(ctx, 45 if ctx.tier == 'quick' else 600)
        n = 0
        want = 60 if ctx.tier == 'quick' else 1500
        while n < want and ctx.time_left() > 5:
            scenario(ctx, wide=(n % 12 == 11))
            n += 1
            if n % 20 == 0:
                ctx.flush_model()
        nops = 0
        want_ops = 400 if ctx.tier == 'quick' else 6000
        while nops < want_ops and ctx.time_left() > 5:
            op_scenario(ctx, nops)
            nops += 1
        ctx.notes.append(f'capacity, oracle only: {nops} scenarios over apply (connectives, ite, quantifier '
                         'aliases), quantify, cofactor, let (3 forms), compose, rename, cube, add_expr, copy_bdd '
                         'at capacities around the point of refusal')
        ctx.notes.append(f'capacity: {n} scenarios with max_nodes lowered around _min_free '
                         '(find_or_add / ite / var until refused, state after every call, limit raised, '
                         'call repeated, collections); replayed on ddvcap')
        ctx.flush_model()
    finally:
        ctx.driver = saved


EXTRAS = {'C17': [extra_C17_capacity]}
EXTRA_DRIVERS = [DRIVER]
