"""Check C19 -- C back ends: same operator meanings, a reference held for every handle.

Source level only (the Cython extensions cannot be built here).  The Lean side
(`lean/DDProps/C19.lean`) decides the obligations over `lean/Generated/CTables.lean`;
this module is the failing-input search / oracle side over the SAME extraction
(`harness/cpyx.py`), with its own, independently written tables of what the C functions
mean:

* every accepted `apply` branch of every back end is interpreted in Python over the 8
  Boolean operand valuations and compared with the real `dd.bdd.BDD.apply` on the
  constants `bdd.true` / `bdd.false`; quantifier branches are additionally interpreted over
  real BDDs of two variables (cube operands) with `dd.bdd` as the algebra;
* accepted vs. declared vocabulary;
* every extracted reference trace is run through a Python re-implementation of the
  balance rules; the first offending event is reported.

No protocol lines, no Lean driver.
"""
import hashlib
import itertools
import os

import cpyx
import extract

REPO = extract.REPO

# ---------------------------------------------------------------------------
# independent reading of the C API (kept separate from lean/DD/CWrap.lean on purpose)
# ---------------------------------------------------------------------------

C_CONST = {
    'Cudd_ReadOne': True, 'Cudd_ReadLogicZero': False, 'Cudd_ReadZddOne/0': True,
    'Cudd_ReadZero': False, 'sylvan_true': True, 'sylvan_false': False,
    'bdd_true': True, 'bdd_false': False,
}
C_UN = {'Cudd_Not': 'not', 'sylvan_not': 'not', 'bdd_not': 'not'}
C_BIN = {
    'Cudd_bddAnd': 'and', 'Cudd_bddOr': 'or', 'Cudd_bddXor': 'xor', 'Cudd_bddXnor': 'equiv',
    'Cudd_bddNand': 'nand', 'Cudd_bddNor': 'nor',
    'Cudd_zddIntersect': 'and', 'Cudd_zddUnion': 'or', 'Cudd_zddDiff': 'diff',
    'sylvan_and': 'and', 'sylvan_or': 'or', 'sylvan_xor': 'xor', 'sylvan_imp': 'implies',
    'sylvan_biimp': 'equiv', 'sylvan_equiv': 'equiv', 'sylvan_diff': 'diff',
    'bdd_and': 'and', 'bdd_or': 'or', 'bdd_xor': 'xor', 'bdd_imp': 'implies', 'bdd_biimp': 'equiv',
}
C_TER = {'Cudd_bddIte', 'Cudd_zddIte', 'cuddZddIte', 'sylvan_ite', 'bdd_ite'}
C_QUANT = cpyx.QUANT_SIG

FRESH = {
    'Cudd_bddAnd', 'Cudd_bddOr', 'Cudd_bddXor', 'Cudd_bddXnor', 'Cudd_bddIte',
    'Cudd_bddExistAbstract', 'Cudd_bddUnivAbstract', 'Cudd_bddAndAbstract', 'Cudd_Support',
    'Cudd_bddCompose', 'Cudd_bddVectorCompose', 'Cudd_Cofactor', 'Cudd_bddSwapVariables',
    'Cudd_bddRestrict', 'Cudd_CubeArrayToBdd', 'Cudd_bddComputeCube', 'Cudd_bddTransfer',
    'Cudd_bddTransferRename', 'cuddUniqueInter', 'Cudd_bddNewVar',
    'Cudd_bddNewVarAtLevel',
    'Cudd_zddDiff', 'Cudd_zddIntersect', 'Cudd_zddUnion', 'Cudd_zddIte', 'cuddZddIte',
    'Cudd_zddIthVar', 'Cudd_zddSupport', 'Cudd_zddSubset0', 'Cudd_zddSubset1',
    'Cudd_zddPortFromBdd', 'Cudd_zddPortToBdd', 'cuddUniqueInterZdd', 'cuddCacheLookup2Zdd',
    'sylvan_and', 'sylvan_or', 'sylvan_xor', 'sylvan_imp', 'sylvan_biimp', 'sylvan_equiv',
    'sylvan_diff', 'sylvan_ite', 'sylvan_exists', 'sylvan_forall', 'sylvan_and_exists',
    'sylvan_ithvar', 'sylvan_nithvar', 'sylvan_support', 'sylvan_compose', 'sylvan_restrict',
    'sylvan_constrain',
    'bdd_and', 'bdd_or', 'bdd_xor', 'bdd_not', 'bdd_imp', 'bdd_biimp', 'bdd_ite', 'bdd_apply',
    'bdd_exist', 'bdd_forall', 'bdd_appex', 'bdd_appall', 'bdd_makeset', 'bdd_replace',
    'bdd_ithvar', 'bdd_nithvar', 'bdd_support',
}
OWNED = {'Dddmp_cuddBddLoad'}
# may create nodes, but the result is a projection function, which the manager references itself
PERMANENT = {'Cudd_bddIthVar'}
RECURSIVE_DEREFS = {'Cudd_RecursiveDeref', 'Cudd_RecursiveDerefZdd', 'Cudd_IterDerefBdd'}
# CUDD's non-recursive dereference: decrements the count and nothing else (the node is not declared
# dead, its children keep their references) -- only for a node that is handed on alive
PLAIN_DEREFS = {'Cudd_Deref', 'cuddDeref'}
# which dereference functions belong to which back end (the wrappers' own methods aside), and
# which of them a handle must use to give its reference back for good
ALLOWED_DEREFS = {
    'cudd': {'Cudd_RecursiveDeref', 'Cudd_IterDerefBdd', 'Cudd_Deref', 'cuddDeref', '_decref', 'decref'},
    'cuddZdd': {'Cudd_RecursiveDerefZdd', 'Cudd_Deref', 'cuddDeref', '_decref', 'decref'},
    'sylvan': {'sylvan_deref', 'decref'},
    'buddy': {'bdd_delref', 'decref'},
}
DISPOSAL_DEREFS = {
    'cudd': {'Cudd_RecursiveDeref', 'Cudd_IterDerefBdd'},
    'cuddZdd': {'Cudd_RecursiveDerefZdd'},
    'sylvan': {'sylvan_deref'},
    'buddy': {'bdd_delref'},
}
# calls whose result is a handle of a node that the manager references for ever (projection functions)
PERMANENT_HANDLE_CALLS = {'self.var'}
ALLOCS = {'PyMem_Malloc'}
FREES = {'PyMem_Free', 'FREE'}
BORROWED = {
    'Cudd_Not', 'Cudd_Regular', 'Cudd_T', 'Cudd_E', 'Cudd_ReadOne', 'Cudd_ReadLogicZero',
    '_int_to_ddref', '<DdRef>', 'DdNode.next', 'Cudd_ReadZddOne', 'Cudd_ReadZero', 'DD_ONE', 'DD_ZERO',
    'cuddT', 'cuddE', 'sylvan_not', 'sylvan_low', 'sylvan_high', 'sylvan_true', 'sylvan_false',
    'bdd_true', 'bdd_false', 'bdd_low', 'bdd_high',
}
REFS = {'Cudd_Ref', 'cuddRef', 'sylvan_ref', 'bdd_addref', '_incref', 'incref'}
DEREFS = {'Cudd_RecursiveDeref', 'Cudd_RecursiveDerefZdd', 'Cudd_IterDerefBdd', 'Cudd_Deref',
          'cuddDeref', 'sylvan_deref', 'bdd_delref', '_decref', 'decref'}


class NoMeaning(Exception):
    pass


def alg_eval(e, env, alg):
    """Evaluate an extracted expression in an algebra `alg` (dict of operations)."""
    if e[0] == 'arg':
        return env[e[1]]
    if e[0] != 'call':
        raise NoMeaning(repr(e))
    name, sub = e[1], e[2]
    if len(sub) == 0:
        if name in C_CONST:
            return alg['const'](C_CONST[name])
        raise NoMeaning(name)
    if name in C_QUANT and len(sub) == 2:
        fa, bi, ci = C_QUANT[name]
        body = alg_eval(sub[bi], env, alg)
        return alg['quant'](fa, body, vars_of(sub[ci], env, alg))
    xs = [alg_eval(x, env, alg) for x in sub]
    if len(sub) == 1 and name in C_UN:
        return alg['not'](xs[0])
    if len(sub) == 2 and name in C_BIN:
        return alg['bin'](C_BIN[name], xs[0], xs[1])
    if len(sub) == 3 and name in C_TER:
        return alg['ite'](xs[0], xs[1], xs[2])
    raise NoMeaning(name)


def vars_of(e, env, alg):
    """The variables a cube-position expression denotes."""
    if e[0] == 'arg':
        return alg['support'](env[e[1]])
    if (e[0] == 'call' and e[1] == '_dict_to_zdd' and len(e[2]) == 1
            and e[2][0][0] == 'call' and e[2][0][1] == 'support' and e[2][0][2][0][0] == 'arg'):
        return alg['support'](env[e[2][0][2][0][1]])
    raise NoMeaning('cube ' + repr(e))


def bool_alg():
    def bin_(op, a, b):
        return {'and': a and b, 'or': a or b, 'xor': a != b, 'equiv': a == b,
                'implies': (not a) or b, 'diff': a and not b, 'nand': not (a and b),
                'nor': not (a or b)}[op]
    return {
        'not': lambda a: not a,
        **dict(
        const=lambda c: c,
        quant=lambda fa, body, vs: body,     # a constant has no variables to quantify
        support=lambda x: frozenset(),
        ite=lambda a, b, c: b if a else c,
        bin=bin_)}


def bdd_alg(b):
    def bin_(op, x, y):
        if op == 'nand':
            return -b.apply('and', x, y)
        if op == 'nor':
            return -b.apply('or', x, y)
        return b.apply(op, x, y)
    alg = dict(
        const=lambda c: b.true if c else b.false,
        quant=lambda fa, body, vs: b.quantify(body, vs, forall=fa),
        support=lambda x: frozenset(b.support(x)),
        ite=lambda x, y, z: b.ite(x, y, z),
        bin=bin_)
    alg['not'] = lambda x: -x
    return alg


roles_of = cpyx.roles_of


# ---------------------------------------------------------------------------
# reference traces: Python re-implementation of the rules of DD/CWrap.lean
# ---------------------------------------------------------------------------

ARRAY_LEAK = 'a C array allocated on this path is not freed'


def run_path(events, returns_node, local, float_check, final=None):
    """None when the path is fine, else (index of the offending event, reason).
    `final`: a list that receives `(nodes, containers)` as they are when the path ends (nothing when
    an event in the middle of the path is refused).

    Nodes: `held` = references this function owns, `in_cont` = references that containers followed
    on this path own.  Containers (C arrays, dicts, hash tables): `owned` / `borrowed` = what was
    stored with / without a reference, `may_hold` = handed to a function of the same module,
    `released` = every element dereferenced and nothing stored since."""
    st = {}
    cs = {}
    loops = []      # per enclosing loop iteration: {node: references held when the iteration began}

    def kind_of(fn):
        if fn in FRESH:
            return 'fresh'
        if fn in OWNED:
            return 'owned'
        if fn in BORROWED:
            return 'borrowed'
        if fn in PERMANENT:
            return 'permanent'
        if fn in local:
            return 'fresh'
        return None

    def node(x, kind, held=0, exposed=False, made_from=(), from_cont=None):
        return dict(kind=kind, held=held, refs=0, derefs=0, wraps=0, null=False, exposed=exposed,
                    made_from=tuple(made_from), in_cont=0, from_cont=from_cont, plain_dropped=False)

    def protected(n):
        return (n['kind'] in ('borrowed', 'permanent') or n['held'] > 0 or n['wraps'] > 0 or n['null']
                or n['in_cont'] > 0)

    def end(k):
        if final is not None:
            final.append((st, cs))
        for x, n in sorted(st.items()):
            if n['held'] != 0:
                return (k, f'path ends while holding (or having given away) a reference on node {x}')
        for x, n in sorted(st.items()):
            if n['wraps'] > 1:
                return (k, f'node {x} wrapped more than once')
        for c, q in sorted(cs.items()):
            if q['kind'] != 'param' and (q['owned'] or q['may_hold']):
                return (k, f'path ends while container {c} of this function still holds references')
        for c, q in sorted(cs.items()):
            if q['kind'] == 'param' and q['ever_released'] != q['freed']:
                return (k, f'container {c} of the caller is released without being consumed '
                           '(or freed without being released)')
        for c, q in sorted(cs.items()):
            if q['kind'] == 'array' and not q['freed']:
                return (k, ARRAY_LEAK)
        return None

    for k, ev in enumerate(events):
        t = ev[0]
        if t == 'param':
            st[ev[1]] = node(ev[1], 'borrowed')
        elif t == 'produce':
            kd = kind_of(ev[2])
            if kd is None:
                return (k, f'C function without an assumed reference behaviour: {ev[2]}')
            if float_check:
                for a in ev[3]:
                    if a in st and st[a]['exposed']:
                        return (k, f'unprotected node {a} passed to {ev[2]} after a node-creating call')
            if kd != 'borrowed':
                for n in st.values():
                    if not protected(n):
                        n['exposed'] = True
            st[ev[1]] = node(ev[1], kd, held=1 if kd == 'owned' else 0, made_from=ev[3])
        elif t in ('ref', 'deref', 'wrap', 'initCall'):
            n = st.get(ev[1])
            if n is None:
                return (k, f'{t} of an untracked node')
            if t == 'ref':
                if ev[2] not in REFS:
                    return (k, f'not a reference function: {ev[2]}')
                if float_check and n['exposed']:
                    return (k, 'unprotected node used after a node-creating call or a recursive dereference')
                n['held'] += 1
                n['refs'] += 1
                n['plain_dropped'] = False
            elif t == 'deref':
                if ev[2] not in DEREFS:
                    return (k, f'not a dereference function: {ev[2]}')
                if n['held'] + n['wraps'] < 1:
                    return (k, 'deref without a reference to give back')
                n['held'] -= 1
                n['derefs'] += 1
                if ev[2] in PLAIN_DEREFS and n['held'] <= 0 and n['wraps'] == 0 and n['in_cont'] == 0:
                    n['plain_dropped'] = True
                if float_check and ev[2] in RECURSIVE_DEREFS:
                    # frees the node itself when nothing else holds it, and what only this node kept
                    # alive: a fresh unprotected result may be among it
                    for y, m in st.items():
                        if not (protected(m) or ev[1] in m['made_from']):
                            m['exposed'] = True
            else:
                if t == 'wrap' and float_check and n['exposed']:
                    return (k, 'unprotected node used after a node-creating call or a recursive dereference')
                n['wraps'] += 1
                n['plain_dropped'] = False
        elif t == 'isNull':
            n = st.get(ev[1])
            if n is not None:
                n['null'] = True
                if n['kind'] == 'owned' and n['refs'] == 0 and n['derefs'] == 0:
                    n['held'] = 0
        elif t == 'guard':
            pass
        elif t == 'retNode':
            if not returns_node:
                return (k, 'a raw node is returned to Python without a handle')
            n = st.get(ev[1])
            if n is None:
                return (k, 'return of an untracked node')
            if float_check and n['exposed']:
                return (k, 'unprotected node used after a node-creating call or a recursive dereference')
            n['plain_dropped'] = False      # handed to the caller alive
            return end(k)
        elif t in ('retHandle', 'retNull', 'raise', 'raiseIn'):
            return end(k)
        # -- containers ------------------------------------------------------------
        elif t in ('alloc', 'cnew', 'cparam'):
            if t == 'alloc' and ev[2] not in ALLOCS:
                return (k, f'not an allocation function: {ev[2]}')
            cs[ev[1]] = dict(kind={'alloc': 'array', 'cnew': 'pyobj', 'cparam': 'param'}[t],
                             size=ev[3] if t == 'alloc' else '', owned=[], borrowed=[],
                             may_hold=False, released=False, ever_released=False, freed=False,
                             filling=False, filled=False, nulled=False)
        elif t == 'store':
            q, n = cs.get(ev[1]), st.get(ev[2])
            if q is None:
                return (k, 'store into an untracked container')
            if n is None:
                return (k, 'store of an untracked node')
            if q['freed']:
                return (k, 'container used after it was freed')
            if float_check and n['exposed']:
                return (k, 'unprotected node used after a node-creating call or a recursive dereference')
            n['plain_dropped'] = False
            if n['held'] > 0:
                n['held'] -= 1
                n['in_cont'] += 1
                q['owned'].append(ev[2])
                q['released'] = False
            else:
                q['borrowed'].append(ev[2])
        elif t == 'load':
            q = cs.get(ev[2])
            if q is None:
                return (k, 'load from an untracked container')
            if q['freed']:
                return (k, 'container used after it was freed')
            st[ev[1]] = node(ev[1], 'borrowed', exposed=q['released'], from_cont=ev[2])
        elif t == 'passC':
            q = cs.get(ev[1])
            if q is None:
                return (k, 'an untracked container is handed to a call')
            if q['freed']:
                return (k, 'container used after it was freed')
            if q['kind'] == 'array' and (q['filling'] or not q['filled']):
                return (k, f'an array is handed to {ev[2]}, but the loop that fills it was not completed '
                           '(or there is none)')
            if float_check and q['released']:
                return (k, f'container handed to {ev[2]} after its references were given back')
            if float_check and any(y in st and st[y]['exposed'] for y in q['borrowed']):
                return (k, f'container with an unprotected element handed to {ev[2]} after a node-creating call')
            if ev[2] in local and q['kind'] != 'param':
                q['may_hold'] = True
                q['released'] = False
        elif t == 'nullInit':
            q = cs.get(ev[1])
            if q is None:
                return (k, 'the slots of an untracked array are initialised')
            if q['kind'] != 'array' or q['size'] != ev[2]:
                return (k, 'the loop that initialises the slots does not run over the allocated size')
            if q['owned'] or q['borrowed'] or q['may_hold'] or q['freed']:
                return (k, 'the slots of an array are overwritten with NULL after something was stored')
            q['nulled'] = True
        elif t in ('derefAll', 'derefNonNull'):
            q = cs.get(ev[1])
            if ev[2] not in DEREFS:
                return (k, f'not a dereference function: {ev[2]}')
            if q is None:
                return (k, 'the elements of an untracked container are dereferenced')
            if q['freed']:
                return (k, 'container used after it was freed')
            if q['borrowed']:
                return (k, 'every element is dereferenced, but the container only borrows some of them')
            if q['released']:
                return (k, 'the references of the container were already given back')
            if q['kind'] == 'array' and q['size'] != ev[3]:
                return (k, 'the loop that gives the references back does not run over the allocated size')
            if q['kind'] == 'array' and (q['filling'] or not q['filled']) \
                    and not (t == 'derefNonNull' and q['nulled']):
                return (k, 'every slot of an array is dereferenced, but the loop that fills it was not '
                           'completed (or there is none)')
            for y in q['owned']:
                st[y]['in_cont'] -= 1
            if float_check:
                for y, m in st.items():
                    if m['from_cont'] == ev[1] or (ev[2] in RECURSIVE_DEREFS and not protected(m)):
                        m['exposed'] = True
            q['owned'] = []
            q['may_hold'] = False
            q['released'] = True
            q['ever_released'] = True
        elif t == 'free':
            q = cs.get(ev[1])
            if ev[2] not in FREES:
                return (k, f'not a deallocation function: {ev[2]}')
            if q is None:
                return (k, 'free of an untracked container')
            if q['freed']:
                return (k, 'container freed twice')
            if q['kind'] == 'pyobj':
                return (k, 'a Python object is freed')
            q['freed'] = True
        elif t == 'refNonPos':
            n = st.get(ev[1])
            if n is not None and (n['held'] > 0 or n['wraps'] > 0 or n['in_cont'] > 0):
                return None     # `x.ref <= 0` while a reference on x is held: the path cannot be taken
        elif t == 'setField':
            if ev[2] != 'next':
                return (k, f'a node is stored into a field without an assumed meaning: {ev[2]}')
            if ev[1] not in st or ev[3] not in st:
                return (k, 'field store on an untracked node')
            if float_check and st[ev[3]]['exposed']:
                return (k, 'unprotected node used after a node-creating call or a recursive dereference')
        elif t in ('fieldAdd', 'fieldSet'):
            return (k, f'the counter `_ref` of a handle is changed outside init / __dealloc__ / incref / decref: {ev[1]}')
        elif t in ('fieldTest', 'handleNode'):
            pass
        elif t in ('fillBegin', 'fillEnd'):
            q = cs.get(ev[1])
            if q is None:
                return (k, 'a loop stores into an untracked array')
            q['filling'] = t == 'fillBegin'
            if t == 'fillEnd':
                q['filled'] = True
        elif t == 'handleDrop':
            n = st.get(ev[1])
            if n is not None and ev[2] not in PERMANENT_HANDLE_CALLS \
                    and not (n['held'] > 0 or n['in_cont'] > 0 or n['wraps'] > 0):
                n['exposed'] = True
        elif t == 'iterBegin':
            loops.append({x: n['held'] for x, n in st.items()})
        elif t == 'iterBreak':
            if loops:
                loops.pop()
        elif t == 'iterEnd':
            if not loops:
                return (k, 'end of a loop iteration outside a loop')
            snap = loops.pop()
            for x, n in sorted(st.items()):
                if n['held'] != snap.get(x, 0):
                    return (k, 'a loop iteration ends holding (or having given away) a reference it did not '
                               f'hold when it began (node {x})')
        else:
            return (k, f'event without a rule: {t}')
    return end(len(events))


def node_descr(events, x):
    """How the node `x` came into the path: the parameter text, the C function, `load`."""
    for e in events:
        if e[0] == 'param' and e[1] == x:
            return e[2]
        if e[0] == 'produce' and e[1] == x:
            return e[2]
        if e[0] == 'load' and e[1] == x:
            return 'load'
    return '?'


PLAIN_DROP = ('a node was released with a non-recursive dereference and then dropped: it and the references '
              'it holds on its children are never reclaimed')


def plain_dropped(events, returns_node, local):
    """Nodes whose last reference went away through `Cudd_Deref` / `cuddDeref` and that were not
    handed on (returned, wrapped, stored) before the path ended.  Reported apart from the balance."""
    if not any(e[0] == 'deref' and e[2] in PLAIN_DEREFS for e in events):
        return []
    fin = []
    run_path(events, returns_node, local, False, fin)
    if not fin:
        return []
    return [x for x, n in sorted(fin[0][0].items()) if n['plain_dropped']]


def end_label(events):
    if events and events[-1][0] in ('raise', 'raiseIn'):
        return events[-1][1]
    return 'return'


def reviewed_plain_drops():
    """`reviewedPlainDrops` of lean/DD/CWrapReviewed.lean: {(back end, function, end label or '')}."""
    import re
    text = _reviewed_text()
    a = text.index('def reviewedPlainDrops')
    b = text.index(']', text.index(':=', a))
    return {(m.group(1), m.group(2), m.group(3))
            for m in re.finditer(r'\(\.(\w+), "([^"]*)", "([^"]*)"\)', text[a:b])}


def exit_summary(events, returns_node, local):
    """What the function still owns when the path ends: `[(description, count)]` -- per node (in the
    order of their numbers) the references held, per container of the function the references parked
    in it (`-1`: handed to a function of the module, which may have stored some), `array not freed`.
    None when the path is refused before its end."""
    fin = []
    run_path(events, returns_node, local, False, fin)
    if not fin:
        return None
    st, cs = fin[0]
    out = []
    for x, n in sorted(st.items()):
        if n['held'] != 0:
            out.append((node_descr(events, x), n['held']))
    for c, q in sorted(cs.items()):
        if q['kind'] != 'param' and (q['owned'] or q['may_hold']):
            out.append(('container ' + q['kind'], 0))
    for c, q in sorted(cs.items()):
        if q['kind'] == 'array' and not q['freed']:
            out.append(('array not freed', 0))
    return out


def exit_leaks(data):
    """The exits through exceptions raised inside callees on which an ordinary function still owns
    something: [(back end, function, site, ((description, count), …))], first occurrences in table
    order.  Written into Generated/CTables.lean (`Gen.cExitLeaksPy`); the Lean rules must find the
    same list (`exitLeaks_twins_agree`)."""
    out = []
    for tag, ms in data['traces'].items():
        local = set(data['local'][tag])
        for m in ms:
            if m['role'] != 'plain':
                continue
            for evs, _names in m['paths']:
                if not _exceptional(evs):
                    continue
                bad = run_path(evs, m['returns_node'], local, False)
                if bad is None or bad[1] == ARRAY_LEAK:
                    continue
                held = exit_summary(evs, m['returns_node'], local)
                key = (tag, m['name'], evs[-1][1], tuple(held) if held is not None else (('<refused>', 0),))
                if key not in out:
                    out.append(key)
    return out


def _reviewed_text():
    here = os.path.dirname(os.path.abspath(__file__))
    with open(os.path.join(here, '..', 'lean', 'DD', 'CWrapReviewed.lean')) as f:
        return f.read()


def known_array_leaks():
    """`knownArrayLeaks` of lean/DD/CWrapReviewed.lean (the reviewed list has ONE source): (back end,
    function, exception that ends the path -- the name of an explicit `raise` or the site `callee#k`);
    memory only, recorded as an observation."""
    import re
    text = _reviewed_text()
    a = text.index('def knownArrayLeaks')
    b = text.index(']', text.index(':= [', a))
    return {(m.group(1), m.group(2), m.group(3))
            for m in re.finditer(r'\(\.(\w+), "([^"]*)", "([^"]*)"\)', text[a:b])}


def known_exception_leaks():
    """`knownExceptionLeaks` of lean/DD/CWrapReviewed.lean:
    {(back end, function, site, ((description, count), …)): reach}."""
    import re
    text = _reviewed_text()
    a = text.index('def knownExceptionLeaks')
    out = {}
    for m in re.finditer(r'⟨\.(\w+), "([^"]*)", "([^"]*)", \[(.*?)\], \.(\w+)⟩', text[a:]):
        held = tuple((d, int(k)) for d, k in re.findall(r'\("([^"]*)", (-?\d+)\)', m.group(4)))
        out[(m.group(1), m.group(2), m.group(3), held)] = m.group(5)
    return out

CONT_EVENTS = ('alloc', 'cnew', 'cparam', 'store', 'load', 'passC', 'derefAll', 'free', 'refNonPos',
               'setField', 'fillBegin', 'fillEnd', 'handleDrop', 'nullInit', 'derefNonNull')


def _count(events, kinds):
    return sum(1 for e in events if e[0] in kinds)


def _raises(evs):
    """The path ends by an explicit `raise` or by an exception raised inside a callee."""
    return bool(evs) and evs[-1][0] in ('raise', 'raiseIn')


def _exceptional(evs):
    return bool(evs) and evs[-1][0] == 'raiseIn'


def field_run(events, start_zero):
    """The counter `_ref` of the handle along one path, as an interval refined by the path
    conditions.  Returns 'infeasible', ('bad', why) or dict(lo, hi, delta, handle)."""
    lo = hi = 0 if start_zero else None
    delta = 0
    handle = None
    for ev in events:
        if ev[0] not in ('fieldTest', 'fieldAdd', 'fieldSet'):
            continue
        if handle is not None and handle != ev[1]:
            return ('bad', 'the counters of two handles on one path')
        handle = ev[1]
        if ev[0] == 'fieldTest':
            _t, _h, rel, k, holds = ev
            if not holds:
                rel = {'==': '!=', '!=': '==', '<': '>=', '>=': '<', '<=': '>', '>': '<='}.get(rel)
            if rel == '==':
                lo = k if lo is None else max(lo, k)
                hi = k if hi is None else min(hi, k)
            elif rel == '!=':
                if lo == k:
                    lo = k + 1
                if hi == k:
                    hi = k - 1
            elif rel in ('<', '<='):
                b = k - 1 if rel == '<' else k
                hi = b if hi is None else min(hi, b)
            elif rel in ('>', '>='):
                a = k + 1 if rel == '>' else k
                lo = a if lo is None else max(lo, a)
            else:
                return ('bad', f'unknown relation {ev[2]}')
            if lo is not None and hi is not None and lo > hi:
                return 'infeasible'
        elif ev[0] == 'fieldAdd':
            k = ev[2]
            if k < 0 and not (lo is not None and lo + k >= 0):
                return ('bad', 'the counter is decremented where it is not known to be positive')
            lo = None if lo is None else lo + k
            hi = None if hi is None else hi + k
            delta += k
        else:
            if lo is None or hi is None or lo != hi:
                return ('bad', 'the counter is overwritten where its value is not known')
            delta += ev[2] - lo
            lo = hi = ev[2]
    return dict(lo=lo, hi=hi, delta=delta, handle=handle)


def field_path_problem(role, evs):
    """None or a reason: the invariant `_ref` = library references owned by the handle."""
    f = field_run(evs, role == 'handleInit')
    if f == 'infeasible':
        return None
    if isinstance(f, tuple):
        return f[1]
    raises = _raises(evs)
    net = _count(evs, ('ref',)) - _count(evs, ('deref',))
    based = role in ('handleInit', 'handleDealloc') or any(e[0] == 'handleNode' for e in evs)
    if based:
        direct = role == 'refDec' and ('guard', '_direct', True) in evs
        want = 0 if direct else net       # `decref(u, _direct=True)`: the documented exception
        if f['delta'] != want:
            return (f'the counter `_ref` changes by {f["delta"]} while {net} library references are taken '
                    '(negative: given back)')
    elif any(e[0] in ('fieldAdd', 'fieldSet') for e in evs):
        return 'the counter of a handle is changed by a function that works on a raw node'
    if role == 'handleDealloc' and not raises and net == 0 and f['hi'] != 0:
        return '__dealloc__ gives nothing back on a path where the counter is not known to be 0'
    if role == 'handleInit' and not raises and not (f['lo'] == net and f['hi'] == net):
        return 'after init the counter is not the number of references taken'
    return None


def deref_kind_problem(tag, m):
    """None or (path index, event index, reason): every dereference uses a function of this back end;
    `__dealloc__` gives the reference of the handle back with the one that reclaims the node."""
    for i, (evs, _n) in enumerate(m['paths']):
        for k, e in enumerate(evs):
            if e[0] in ('deref', 'derefAll', 'derefNonNull'):
                fn = e[2]
                if fn not in ALLOWED_DEREFS[tag]:
                    return (i, k, f'{fn} is not a dereference function of this back end '
                                  '(a BDD function on a ZDD node, or the other way round)')
                if m['role'] == 'handleDealloc' and fn not in DISPOSAL_DEREFS[tag]:
                    return (i, k, f'__dealloc__ gives the reference back with {fn}, which does not reclaim '
                                  'the node (its children are never released)')
    return None


def method_problem(m, local, has_field=False):
    """None or (path index, event index, reason) for one extracted method."""
    role = m['role']
    paths = [evs for evs, _names in m['paths']]
    if role != 'plain':
        for i, evs in enumerate(paths):
            if role == 'wrapFn' or not has_field:
                if any(e[0] in ('fieldTest', 'fieldAdd', 'fieldSet') for e in evs):
                    return (i, 0, f'{m["name"]} uses a counter `_ref` that the handles of this back end do not have')
            else:
                why = field_path_problem(role, evs)
                if why is not None:
                    return (i, 0, f'{m["name"]}: {why}')
    if role == 'plain':
        for i, evs in enumerate(paths):
            if _exceptional(evs):
                continue        # exits through exceptions from callees: `exception_exit_problems`
            bad = run_path(evs, m['returns_node'], local, False)
            if bad is not None and bad[1] != ARRAY_LEAK:
                return (i, bad[0], bad[1])
        return None
    for i, evs in enumerate(paths):
        for k, e in enumerate(evs):
            if e[0] in CONT_EVENTS:
                return (i, k, f'{m["name"]} keeps references in a container')
    if role == 'wrapFn':
        normal = [evs for evs in paths if not _exceptional(evs)]
        ok = (len(normal) == 1 and len(normal[0]) == 3 and normal[0][0][0] == 'param'
              and normal[0][1] == ('initCall', normal[0][0][1]) and normal[0][2] == ('retHandle',))
        if not ok:
            return (0, 0, '`wrap` does not hand its node to `init` exactly once')
        for i, evs in enumerate(paths):
            if _exceptional(evs) and any(e[0] not in ('param', 'raiseIn') for e in evs):
                return (i, 0, '`wrap` does something before `Function()` / `init` raises')
        return None
    if role == 'handleInit':
        some = False
        for i, evs in enumerate(paths):
            if not evs or evs[0][0] != 'param':
                return (i, 0, 'init does not start from its node parameter')
            x = evs[0][1]
            raises = _raises(evs)
            nref = _count(evs, ('ref',))
            if _count(evs, ('deref',)) != 0:
                return (i, 0, 'init gives a reference back')
            if raises and nref != 0:
                return (i, 0, 'init takes a reference and then raises')
            if not raises:
                some = True
                if nref != 1 or not any(e[0] == 'ref' and e[1] == x and e[2] in REFS for e in evs):
                    return (i, 0, f'init takes {nref} references on a path that returns (expected exactly 1, on its parameter)')
        return None if some else (0, 0, 'init has no returning path')
    if role == 'handleDealloc':
        some = False
        for i, evs in enumerate(paths):
            raises = _raises(evs)
            nd = _count(evs, ('deref',))
            if _count(evs, ('ref',)) != 0:
                return (i, 0, '__dealloc__ takes a reference')
            if any(e[0] == 'deref' and e[2] not in DEREFS for e in evs):
                return (i, 0, '__dealloc__ uses an unknown dereference function')
            if raises:
                if nd != 0:
                    return (i, 0, '__dealloc__ dereferences and then raises')
            elif nd == 0 and has_field:
                pass        # accepted by `field_path_problem` only where the counter is known to be 0
            else:
                if nd != 1:
                    return (i, 0, f'__dealloc__ gives back {nd} references on a returning path (expected exactly 1)')
                some = True
        return None if some else (0, 0, '__dealloc__ never dereferences')
    if role in ('refInc', 'refDec'):
        for i, evs in enumerate(paths):
            raises = _raises(evs)
            nr, nd = _count(evs, ('ref',)), _count(evs, ('deref',))
            want = (0, 0) if raises else ((1, 0) if role == 'refInc' else (0, 1))
            if (nr, nd) != want:
                return (i, 0, f'{m["name"]}: {nr} ref / {nd} deref events on a path (expected {want})')
        return None
    return (0, 0, 'unknown role')


# ---------------------------------------------------------------------------
# the check
# ---------------------------------------------------------------------------

def fmt_expr(e):
    if e[0] == 'arg':
        return e[1] + '.node'
    if e[0] == 'call':
        return e[1] + '(' + ', '.join(fmt_expr(x) for x in e[2]) + ')'
    return repr(e)


def check_C19(ctx):
    import dd.bdd as _bdd
    import dd._abc as _abc
    _h, _changed, data = extract.write_ctables()
    if 'error' in data:
        ctx.violation('the reader of the .pyx files failed: ' + data['error'],
                      dict(tags=dict(call='cpyx.extract_all', symptom='reader-failed')))
        return
    vocab = sorted(_abc.BDD_OPERATOR_SYMBOLS)
    ref = _bdd.BDD()
    ref.declare('x', 'y')
    T, F = ref.true, ref.false
    balg = bool_alg()
    ralg = bdd_alg(ref)
    x, y = ref.var('x'), ref.var('y')
    # all 16 functions of x, y and the three positive cubes
    fun16 = []
    for bits in range(16):
        f = F
        for k, (vx, vy) in enumerate(itertools.product((False, True), repeat=2)):
            if (bits >> k) & 1:
                m = ref.apply('and', x if vx else -x, y if vy else -y)
                f = ref.apply('or', f, m)
        fun16.append(f)
    cubes = [x, y, ref.apply('and', x, y)]
    summary = {}
    for t in data['apply']:
        tag = t['tag']
        call = f'{tag}.apply'
        accepted = []
        for alias, out in t['rows']:
            ctx.count(f'{tag}:{out[0]}')
            if out[0] == 'raises':
                continue
            accepted.append(alias)
            if out[0] == 'unknown':
                ctx.violation(
                    f'{call}({alias!r}): branch not recognised by the reader ({out[1]})',
                    dict(backend=tag, alias=alias, file=t['file'], line=out[2],
                         tags=dict(call=call, symptom='unrecognised-branch')))
                continue
            e = out[1]
            ar = cpyx.arity_of(alias, _abc)
            roles = roles_of(e)
            reported = set()
            for bu, bv, bw in itertools.product((False, True), repeat=3):
                ctx.case((tag, alias, bu, bv, bw))
                U, V, W = (T if bu else F), (T if bv else F), (T if bw else F)
                try:
                    want = ref.apply(alias, U, *([V] if ar >= 2 else []), *([W] if ar >= 3 else [])) == T
                except Exception as ex:  # noqa: BLE001
                    ctx.violation(f'dd.bdd rejects {alias!r} that {call} accepts: {ex!r}',
                                  dict(backend=tag, alias=alias, tags=dict(call=call, symptom='vocabulary')))
                    break
                try:
                    got = alg_eval(e, dict(u=bu, v=bv, w=bw), balg)
                except NoMeaning as ex:
                    ctx.violation(
                        f'{call}({alias!r}): no assumed meaning for {ex}',
                        dict(backend=tag, alias=alias, expr=fmt_expr(e), file=t['file'], line=out[2],
                             tags=dict(call=call, symptom='no-meaning')))
                    break
                key = (bu,) + ((bv,) if ar >= 2 else ()) + ((bw,) if ar >= 3 else ())
                if got != want and key not in reported:
                    reported.add(key)
                    symptom = 'quantifier-operand-roles' if roles is not None else 'connective'
                    ctx.violation(
                        f'{call}({alias!r}, u={bu}, v={bv}' + (f', w={bw}' if ar == 3 else '') +
                        f'): source branch `{fmt_expr(e)}` gives {got}, dd.bdd.BDD.apply gives {want}',
                        dict(backend=tag, alias=alias, u=bu, v=bv, w=bw, expr=fmt_expr(e),
                             got=got, want=want, file=t['file'], line=out[2],
                             tags=dict(call=call, symptom=symptom)))
            # operands used vs arity
            used = {a for a in 'uvw' if _uses(e, a)}
            if not used <= set('uvw'[:ar]):
                ctx.violation(f'{call}({alias!r}) reads operands {sorted(used)} but takes {ar}',
                              dict(backend=tag, alias=alias, tags=dict(call=call, symptom='arity')))
            # quantifiers over real BDDs (first operand a positive cube)
            if roles is not None:
                want_roles = ('u', 'v')
                if (roles[1], roles[2]) != want_roles:
                    ctx.violation(
                        f'{call}({alias!r}, u, v): `{fmt_expr(e)}` quantifies {roles[2]} over the variables of '
                        f'{roles[1]}; dd.bdd quantifies v over the variables of u',
                        dict(backend=tag, alias=alias, expr=fmt_expr(e), file=t['file'], line=out[2],
                             tags=dict(call=call, symptom='quantifier-operand-roles')))
                for cu in cubes:
                    for fv in fun16:
                        ctx.case((tag, alias, 'bdd', cu, fv))
                        want = ref.apply(alias, cu, fv)
                        got = alg_eval(e, dict(u=cu, v=fv, w=None), ralg)
                        if got != want:
                            ctx.violation(
                                f'{call}({alias!r}, u={ref.to_expr(cu)}, v={ref.to_expr(fv)}): source branch '
                                f'`{fmt_expr(e)}` denotes {ref.to_expr(got)}, dd.bdd gives {ref.to_expr(want)}',
                                dict(backend=tag, alias=alias, u=ref.to_expr(cu), v=ref.to_expr(fv),
                                     expr=fmt_expr(e), file=t['file'], line=out[2],
                                     tags=dict(call=call, symptom='quantifier-operand-roles')))
                            break
                    else:
                        continue
                    break
        # vocabulary
        if sorted(accepted) != sorted(t['declared']):
            ctx.violation(
                f'{call} accepts {sorted(set(accepted) - set(t["declared"]))} beyond and rejects '
                f'{sorted(set(t["declared"]) - set(accepted))} of the vocabulary it declares',
                dict(backend=tag, tags=dict(call=call, symptom='vocabulary')))
        extra = sorted(set(accepted) - set(vocab))
        if extra:
            ctx.violation(f'{call} accepts spellings outside dd._abc: {extra}',
                          dict(backend=tag, tags=dict(call=call, symptom='vocabulary')))
        summary[tag] = dict(
            accepted=len(accepted), missing_from_abc_vocabulary=sorted(set(vocab) - set(accepted)),
            declared_via='dd._abc (assert_operator_arity)' if t['via_abc'] else 'module Literal[...]',
            guards_assumed_false=t['guards'],
            docstring_spellings=sorted(t['documented']),
            accepted_but_not_in_docstring=(sorted(set(accepted) - set(t['documented']))
                                           if t['documented'] else None),
            quantifier_vars_mode={al: roles_of(out[1])[3] for al, out in t['rows']
                                  if out[0] == 'ret' and roles_of(out[1]) is not None})
    # operator methods of the handles / `ite` of the managers
    for tag, rows in data['operators'].items():
        for qual, spelling, out in rows:
            call = f'{tag}.{qual}'
            ctx.count(f'{tag}:operator-method')
            if out[0] != 'ret':
                ctx.violation(f'{call}: not recognised by the reader / raises ({out[1]})',
                              dict(backend=tag, method=qual, line=out[2],
                                   tags=dict(call=call, symptom='unrecognised-branch')))
                continue
            e = out[1]
            ar = cpyx.arity_of(spelling, _abc)
            reported = set()
            for bu, bv, bw in itertools.product((False, True), repeat=3):
                ctx.case((tag, qual, bu, bv, bw))
                U, V, W = (T if bu else F), (T if bv else F), (T if bw else F)
                want = ref.apply(spelling, U, *([V] if ar >= 2 else []), *([W] if ar >= 3 else [])) == T
                try:
                    got = alg_eval(e, dict(u=bu, v=bv, w=bw), balg)
                except NoMeaning as ex:
                    ctx.violation(f'{call}: no assumed meaning for {ex}',
                                  dict(backend=tag, method=qual, expr=fmt_expr(e), line=out[2],
                                       tags=dict(call=call, symptom='no-meaning')))
                    break
                key = (bu,) + ((bv,) if ar >= 2 else ()) + ((bw,) if ar >= 3 else ())
                if got != want and key not in reported:
                    reported.add(key)
                    ctx.violation(
                        f'{call} on {key}: `{fmt_expr(e)}` gives {got}, dd.bdd.BDD.apply({spelling!r}) gives {want}',
                        dict(backend=tag, method=qual, valuation=list(key), expr=fmt_expr(e), line=out[2],
                             tags=dict(call=call, symptom='connective')))
    # reference traces
    covered = []
    npaths = 0
    array_leaks = []        # observation, not a C19 violation: no node reference is involved
    dead_asserts = []       # `cuddRef(x); if x.ref <= 0: raise AssertionError`: cannot fire; would leak if it did
    exc_leaks = []          # exits through exceptions from callees that still own references (reviewed list)
    n_exceptional = 0
    plain_drops = []        # nodes released with the non-recursive dereference and dropped (reviewed list)
    REVIEWED_PD = reviewed_plain_drops()
    KNOWN_ARRAY_LEAKS = known_array_leaks()
    KNOWN_EXC = known_exception_leaks()
    seen_exc = set()
    for tag, ms in data['traces'].items():
        local = set(data['local'][tag])
        for m in ms:
            covered.append(f'{tag}:{m["name"]}@{m["role"]}')
            for i, (evs, _n) in enumerate(m['paths']):
                npaths += 1
                ctx.case((tag, m['name'], tuple(evs)))
                if m['role'] != 'plain':
                    continue
                bad = run_path(evs, m['returns_node'], local, False)
                pd = plain_dropped(evs, m['returns_node'], local)
                if pd:
                    lab = end_label(evs)
                    plain_drops.append(dict(backend=tag, method=m['name'], line=m['line'], path=i, ends=lab,
                                            node=_n.get(pd[0], str(pd[0]))))
                    if (tag, m['name'], '') not in REVIEWED_PD and (tag, m['name'], lab) not in REVIEWED_PD:
                        ctx.violation(
                            f'{tag} {m["name"]} (line {m["line"]}): {PLAIN_DROP} (node `{_n.get(pd[0], pd[0])}`, '
                            f'path ending in {lab})',
                            dict(backend=tag, method=m['name'], line=m['line'], path=[list(e) for e in evs],
                                 node=pd[0], names={str(a): b for a, b in _n.items()},
                                 tags=dict(call=f'{tag}.{m["name"]}', symptom='plain-deref-dropped')))
                if _exceptional(evs):
                    n_exceptional += 1
                    if bad is not None and bad[1] != ARRAY_LEAK:
                        # an exception raised inside a callee leaves the function while it owns references
                        site, line = evs[-1][1], evs[-1][2]
                        held = exit_summary(evs, m['returns_node'], local)
                        key = (tag, m['name'], site, tuple(held) if held is not None else None)
                        reach = KNOWN_EXC.get(key)
                        if key not in seen_exc:
                            seen_exc.add(key)
                            if reach is not None:
                                exc_leaks.append(dict(backend=tag, method=m['name'], def_line=m['line'],
                                                      site=site, line=line, still_owned=held, reach=reach))
                            if reach is None or reach == 'userError':
                                what = (f'{tag} {m["name"]} (line {m["line"]}): an exception raised at `{site}` '
                                        f'(line {line}) leaves the function '
                                        + ('while it still owns ' + ', '.join(
                                            f'{k} reference(s) on `{d}`' if k else d for d, k in held)
                                           if held is not None else
                                           f'on a path that is refused before its end (possibly in a `finally` / `except` block): {bad[1]}'))
                                ctx.violation(
                                    what,
                                    dict(backend=tag, method=m['name'], line=line, site=site,
                                         still_owned=held, reason=bad[1],
                                         path=[list(e) for e in evs], event=bad[0],
                                         names={str(a): b for a, b in _n.items()},
                                         tags=dict(call=f'{tag}.{m["name"]}',
                                                   symptom='exception-path-leak' if reach else 'new-exception-path-leak',
                                                   site=site)))
                        continue
                if bad is not None and bad[1] == ARRAY_LEAK:
                    array_leaks.append(dict(backend=tag, method=m['name'], line=m['line'], path=i,
                                            ends=list(evs[-1])))
                    exc = evs[-1][1] if evs and evs[-1][0] in ('raise', 'raiseIn') else None
                    if (tag, m['name'], exc) not in KNOWN_ARRAY_LEAKS:
                        ctx.violation(
                            f'{tag} {m["name"]} (line {m["line"]}): {ARRAY_LEAK}',
                            dict(backend=tag, method=m['name'], line=m['line'],
                                 path=[list(e) for e in evs], event=bad[0],
                                 tags=dict(call=f'{tag}.{m["name"]}', symptom='array-not-freed')))
                if bad is None and any(e[0] == 'refNonPos' for e in evs):
                    rest = [e for e in evs if e[0] != 'refNonPos']
                    leak = run_path(rest, m['returns_node'], local, False)
                    if leak is not None:
                        dead_asserts.append(dict(backend=tag, method=m['name'], line=m['line'], path=i,
                                                 if_it_fired=leak[1]))
            bad = method_problem(m, local, data['has_ref_field'][tag]) or deref_kind_problem(tag, m)
            if bad is not None:
                i, k, why = bad
                evs, names = m['paths'][i]
                ctx.violation(
                    f'{tag} {m["name"]} (line {m["line"]}): {why}',
                    dict(backend=tag, method=m['name'], line=m['line'], path=[list(e) for e in evs],
                         event=k, names={str(a): b for a, b in names.items()},
                         tags=dict(call=f'{tag}.{m["name"]}', symptom='reference-balance')))
            if m['role'] == 'plain':
                for i, (evs, names) in enumerate(m['paths']):
                    if _exceptional(evs):
                        continue
                    bad = run_path(evs, m['returns_node'], local, True)
                    if bad is not None and bad[1] == ARRAY_LEAK:
                        bad = None
                    plain = run_path(evs, m['returns_node'], local, False)
                    if bad is not None and (plain is None or plain[1] == ARRAY_LEAK):
                        ctx.violation(
                            f'{tag} {m["name"]} (line {m["line"]}): {bad[1]}',
                            dict(backend=tag, method=m['name'], line=m['line'],
                                 path=[list(e) for e in evs], event=bad[0],
                                 tags=dict(call=f'{tag}.{m["name"]}', symptom='floating-node')))
                        break
    # the named assumption about `decref(u, _direct=True)`: its callers are in dd/_copy.py only
    for fname, line in data.get('direct_decref_users', []):
        if fname != 'dd/_copy.py':
            ctx.violation(
                f'{fname} line {line}: `decref(…, _direct=True)` is called outside dd/_copy.py (the assumption '
                'under which the counter `_ref` of the handle may stay unchanged was reviewed for that caller only)',
                dict(file=fname, line=line, tags=dict(call='decref', symptom='direct-decref-user')))
    # no code outside the functions touches the reference counts
    for tag, rows in data.get('module_level_refs', {}).items():
        for line, text in rows:
            ctx.violation(
                f'{tag} line {line}: code outside every function mentions a reference-count function: `{text}`',
                dict(backend=tag, line=line, text=text,
                     tags=dict(call=f'{tag}.<module>', symptom='module-level-ref-code')))
    # every definition of the files is accounted for; nothing but the test helpers is left out
    for tag in data['traces']:
        tokens, found, nested = data['def_tokens'][tag], data['nfuncs'][tag], data['nested_defs'][tag]
        if tokens != found + nested:
            ctx.violation(
                f'{tag}: {tokens} definition keywords (def / cpdef / cdef …() in the file, but the reader found '
                f'{found} functions (+ {nested} nested): a definition is neither followed nor listed',
                dict(backend=tag, tokens=tokens, found=found, nested=nested,
                     tags=dict(call=f'{tag}.<module>', symptom='function-not-seen')))
        for name, line, why in data['uncovered'][tag]:
            if not why.startswith('test helper'):
                ctx.violation(
                    f'{tag} {name} (line {line}) is not followed by the reader: {why}',
                    dict(backend=tag, method=name, line=line, reason=why,
                         tags=dict(call=f'{tag}.{name}', symptom='not-followed')))
    # the functions the discipline hinges on must have been followed
    for tag in data['traces']:
        need = (['wrap@wrapFn', 'Function.init@handleInit'] if tag != 'buddy' else
                ['Function.__cinit__@handleInit']) + ['Function.__dealloc__@handleDealloc']
        need.append(('ZDD' if tag == 'cuddZdd' else 'BDD') + '.apply@plain')
        for n in need:
            if f'{tag}:{n}' not in covered:
                ctx.violation(f'{tag}: no trace extracted for {n}',
                              dict(backend=tag, tags=dict(call=f'{tag}.{n}', symptom='not-covered')))
    fp = hashlib.sha1('\n'.join(sorted(covered)).encode()).hexdigest()[:16]
    ctx.exhaustive = True
    ctx.notes.append(dict(
        scope='source level only: nothing is compiled or executed; the tables are regenerated from '
              'the text of dd/cudd.pyx, dd/cudd_zdd.pyx, dd/sylvan.pyx, dd/buddy.pyx on every run',
        trusted_extra=['harness/cpyx.py (line-structured reader of the .pyx files, symbolic execution of '
                       'apply, explicit-path reference traces)',
                       'lean/DD/CWrap.lean (assumed meaning and reference behaviour of the C API)'],
        apply=summary,
        operator_methods={tag: [q for q, _s, _o in rows] for tag, rows in data['operators'].items()},
        observations=dict(
            exits_through_exceptions_that_still_own_references=exc_leaks,
            nodes_released_non_recursively_and_dropped=plain_drops,
            exceptional_exits_followed=n_exceptional,
            arrays_not_freed=array_leaks,
            assertions_that_cannot_fire_but_would_leak=dead_asserts),
        traces=dict(covered_methods=len(covered), paths=npaths, fingerprint=fp,
                    functions_per_file=data['nfuncs'],
                    without_node_events=data['irrelevant'],
                    covered={tag: [m['name'] for m in ms] for tag, ms in data['traces'].items()},
                    not_covered={tag: [dict(name=n, line=l, reason=w) for n, l, w in us]
                                 for tag, us in data['uncovered'].items()}),
        ctables_sha256=_h))


def _uses(e, a):
    if e[0] == 'arg':
        return e[1] == a
    if e[0] == 'call':
        return any(_uses(x, a) for x in e[2])
    return True


REGISTRY = {
    'C19': (check_C19,
            'source level: every apply branch of cudd/cudd_zdd/sylvan/buddy x every spelling x 8 Boolean '
            'valuations against dd.bdd.BDD.apply on constants (+ quantifier branches over all 16 functions '
            'of two variables x 3 cubes), vocabulary accepted vs declared, every extracted reference trace '
            'through an independent re-implementation of the balance rules (containers, the counter `_ref` of '
            'the CUDD handles), definition keywords vs functions found, no function left unfollowed except '
            'the test helpers; distinct = (backend, alias, valuation) triples and distinct paths'),
}
