#!/usr/bin/env python3
"""List declaration names defined in more than one Lean file of the project (merge aid)."""
import re, glob, collections
decl = collections.defaultdict(list)
for f in glob.glob('/verif/lean/DD/*.lean') + glob.glob('/verif/lean/DDProofs/*.lean') + glob.glob('/verif/lean/DDProps/*.lean'):
    for ln in open(f):
        m = re.match(r'\s*(?:@\[[^\]]*\]\s*)?(?:private\s+|protected\s+)?(?:theorem|def|structure|inductive|abbrev|lemma)\s+([A-Za-z_][\w\.\']*)', ln)
        if m:
            decl[m.group(1)].append(f.split('/lean/')[-1])
for k, v in decl.items():
    if len(set(v)) > 1 and k != 'Tbl.levelOf':
        print(k, sorted(set(v)))
