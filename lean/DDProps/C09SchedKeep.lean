/-
  DDProps.C09SchedKeep — C07 / C09 / C17 under a recorded schedule, EVERY OUTCOME: the state after
  the model's own `.sched` report, and the consumption of the schedule.

  DDProps.C07 states reorderings as `OkOrSched Q r` and DDProps.C09Sched the decorated calls as
  "documented result, or `.sched`"; neither says anything about the state after `.sched`.
  DDProofs.DynSchedKeep closes that: `.sched` is raised only by `takeSwapOrders` / `takeSiftOrder`,
  between two completed swaps, so the state then satisfies the reordering invariant and is related
  to the start state exactly like the state after a normal return.  Consequences:
    * `C07_reorder_every_outcome`, `C07_swap_every_outcome`, `C07_reorderToPairs_every_outcome`;
    * `C07_sched_suffix`: the schedule left by a reordering is a SUFFIX of the schedule given —
      the model consumes the recorded orders front to back;
    * `C09_decorator_every_outcome` / `C17_total_dyn_every_outcome`: a decorated call under any
      recorded schedule, whatever it returns or raises (`.sched` included), leaves `DynInvS`, the
      names, the roots and every held reference by name; reordering is enabled afterwards iff it
      was unless the exception is `.sched`; the schedule left is a suffix of the schedule given.
  This is what makes the layers stated as "every outcome keeps the invariant" (autoref, C08)
  go through for every schedule (DDProps.C08Sched).
-/
import DDProofs.DynSchedTotalOps
import DDProps.C09Sched
namespace DD

/-- C07: `reorder(bdd)` / `reorder(bdd, order)` with ANY arguments under ANY recorded schedule: if
the call returns, OR the model reports a schedule mismatch, the reordering invariant holds, every
held reference denotes the same function of the names, names / `nvars` / `roots` / `ctx` /
`_last_len` are as before and the schedule left is a suffix of the one given (`RelS`) -/
theorem C07_reorder_every_outcome (ext : Nat → Nat) (m : Mgr) (h : ReorderInv ext m)
    (order : Option (List (String × Int))) : KS ext m (reorder order m) :=
  reorder_keepS ext m h order

/-- C07: the same for `swap` (dict given, or `None`) and `reorder_to_pairs` -/
theorem C07_swap_every_outcome (ext : Nat → Nat) (m : Mgr) (h : ReorderInv ext m) (xa ya : VarOrLevel) :
    KS ext m (swap xa ya true m) ∧ KS ext m (swap xa ya false m) :=
  ⟨swap_given_keepS ext m h xa ya, swap_public_keepS ext m h xa ya⟩

theorem C07_reorderToPairs_every_outcome (ext : Nat → Nat) (m : Mgr) (h : ReorderInv ext m)
    (pairs : List (String × String)) : KS ext m (reorderToPairs pairs m) :=
  reorderToPairs_keepS ext m pairs m h (RelS.refl ext m)

/-- what `KS ext m r` says -/
theorem C07_every_outcome_means {α} (ext : Nat → Nat) (m : Mgr) (r : Except Err α × Mgr)
    (h : KS ext m r) (hr : (∃ a, r.1 = .ok a) ∨ r.1 = .error .sched) :
    ReorderInv ext r.2 ∧ HeldSame ext m r.2 ∧
    (∀ v, r.2.tbl.vars.contains v = m.tbl.vars.contains v) ∧ r.2.nvars = m.nvars ∧
    r.2.roots = m.roots ∧ r.2.ctx = m.ctx ∧ r.2.lastLen = m.lastLen ∧ r.2.sched <:+ m.sched := by
  obtain ⟨r1, m'⟩ := r
  have key : ReorderInv ext m' ∧ RelS ext m m' := by
    cases r1 with
    | ok a => exact h
    | error e =>
      rcases hr with ⟨a, ha⟩ | he
      · cases ha
      · have : e = Err.sched := by simpa using he
        exact h this
  exact ⟨key.1, key.2.held, key.2.names, key.2.nvars, key.2.roots, key.2.ctx, key.2.lastLen, key.2.sched⟩

/-- C07: sifting with two variables under any schedule — it returns or reports `.sched` (C07_sift),
and in BOTH cases the state is good -/
theorem C07_sift_every_outcome (ext : Nat → Nat) (m : Mgr) (h : ReorderInv ext m) (h2 : 2 ≤ m.nvars) :
    ∃ r m', reorder none m = (r, m') ∧ (r = .ok () ∨ r = .error .sched) ∧
      ReorderInv ext m' ∧ RelS ext m m' :=
  sift_every_outcome ext m h h2

/-- C07: the recorded schedule is consumed front to back -/
theorem C07_sched_suffix (ext : Nat → Nat) (m : Mgr) (h : ReorderInv ext m)
    (order : Option (List (String × Int))) (r : Except Err Unit) (m' : Mgr)
    (hrun : reorder order m = (r, m')) (hr : r = .ok () ∨ r = .error .sched) :
    m'.sched <:+ m.sched :=
  reorder_sched_suffix ext m h order r m' hrun hr

/-- C09 / C17, GENERIC, EVERY OUTCOME under any recorded schedule (hypotheses on the body as in
`C17_rejected_dyn`): see `DynResultK` — the documented result with `DynPostS` and the suffix
property; or an exception that is not the internal signal, with `DynKeptW` (state as between two
calls, names, roots, held references by name, suffix), reordering enabled iff it was unless the
exception is the model's `.sched` (then a schedule was recorded) -/
theorem C09_decorator_every_outcome {α} (ext : Nat → Nat) (f : M α) (ops : List Int)
    (Pre : Tbl → Prop) (Doc : Tbl → α → Tbl → Prop)
    (hbody : ∀ m0 : Mgr, Inv m0 → m0.ctx = true → OrderOK m0.tbl → Pre m0.tbl →
      (∀ u ∈ ops, m0.tbl.Mem u) → OutcomeE m0 (fun r m1 => Doc m0.tbl r m1.tbl) (f m0))
    (hpre : ∀ t t', Bridge ops t t' → Pre t → Pre t')
    (hdoc : ∀ t t' r t'', Bridge ops t t' → Pre t → Doc t' r t'' → Doc t r t'')
    (m : Mgr) (hD : DynInvS ext m) (hops : ∀ u ∈ ops, HeldX ext u) (hpre0 : Pre m.tbl) :
    DynResultK ext Doc m (tryToReorder f m) :=
  tryToReorder_rejectedK ext (siftKeepS ext) f ops Pre Doc hbody hpre hdoc m hD hops hpre0

/-- C17, every decorated operation with ARBITRARY arguments, any recorded schedule, EVERY outcome -/
theorem C17_total_dyn_every_outcome (ext : Nat → Nat) (m : Mgr) (hD : DynInvS ext m) :
    (∀ g u v, DynTotalK ext m (ite g u v m)) ∧
    (∀ op u v w, DynTotalK ext m (apply op u v w m)) ∧
    (∀ name, DynTotalK ext m (var name m)) ∧
    (∀ u q fa, DynTotalK ext m (quantify u q fa m)) ∧
    (∀ u vals, DynTotalK ext m (cofactor u vals m)) ∧
    (∀ f vs, DynTotalK ext m (compose f vs m)) ∧
    (∀ u d, DynTotalK ext m (rename u d m)) ∧
    (∀ d u, DynTotalK ext m (letOp d u m)) ∧
    (∀ d, DynTotalK ext m (cube d m)) ∧
    (∀ src u, DynTotalK ext m (copyBdd src u m)) ∧
    (∀ s, DynTotalK ext m (addExpr s m)) :=
  ⟨fun g u v => ite_total_dynK ext m hD g u v, fun op u v w => apply_total_dynK ext m hD op u v w,
   fun n => var_total_dynK ext m hD n, fun u q fa => quantify_total_dynK ext m hD u q fa,
   fun u vals => cofactor_total_dynK ext m hD u vals, fun f vs => compose_total_dynK ext m hD f vs,
   fun u d => rename_total_dynK ext m hD u d, fun d u => letOp_total_dynK ext m hD d u,
   fun d => cube_total_dynK ext m hD d, fun src u => copyBdd_total_dynK ext m hD src u,
   fun s => addExpr_total_dynK ext m hD s⟩

/-- what `DynTotalK` says, spelled out, and the driver's form -/
theorem C17_every_outcome_means {α} (ext : Nat → Nat) (m : Mgr) (res : Except Err α × Mgr)
    (h : DynTotalK ext m res) :
    res.1 ≠ .error .needsReordering ∧ DynInvS ext res.2 ∧
    (∀ s, res.2.tbl.vars.contains s = m.tbl.vars.contains s) ∧
    (∀ w, HeldX ext w → res.2.tbl.Mem w ∧ ∀ σ, denN res.2.tbl w σ = denN m.tbl w σ) ∧
    res.2.roots = m.roots ∧ res.2.sched <:+ m.sched ∧
    (res.2.lastLen.isSome = m.lastLen.isSome ∨ (res.1 = .error .sched ∧ m.sched ≠ [])) ∧
    DynInv ext { res.2 with sched := [] } :=
  ⟨h.1, h.2.1.inv, h.2.1.names, h.2.1.held, h.2.1.roots, h.2.1.sched, h.2.2, h.2.1.inv.clear⟩

/-- non-vacuity: the bogus schedule of DDProps.C09Sched on `exSchedM` — the call answers `.sched`,
and the theorem says the state is still good -/
example : DynTotalK exSchedExt { exSchedM with sched := [.swap []] }
    (apply "and" 3 (some 5) none { exSchedM with sched := [.swap []] }) :=
  (C17_total_dyn_every_outcome exSchedExt _ (exSchedM_dynInv.withSched _)).2.1 "and" 3 (some 5) none

end DD
