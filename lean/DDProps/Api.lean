/-
  DDProps.Api — the rest of the public surface of `dd.bdd.BDD`, `dd.autoref` and `dd.mdd.MDD`
  (slice "api", see API_COVERAGE.md), under the properties the callables fall under:

  C02  `reduction()` (a route by which functions reach another manager), `update_predecessors()`
       (recomputes the unique table), manager `==` / `!=`
  C18  `levels(skip_terminals)`, `iter(bdd)`;  C14  the order views `vars` / `var_levels`
  C03  `BDD.exist` / `BDD.forall`;  C11  `BDD.copy`
  (C08 / C10 for the `Function` methods inherited from `dd._abc.Operator`: DDProps.ApiAuto)
  (C15 `MDD.to_expr`: DDProps.ApiMdd;  C10 `pick`: DDProps.ApiAuto)

  Every theorem about an iteration over the `_succ` dict holds for EVERY listing `ord` of its keys
  (`SuccOrder`): the insertion order of a Python dict is history the model does not keep.
-/
import DDProofs.ApiLevels
import DDProofs.ApiPred
import DDProofs.ApiReduction
import DDProofs.ApiXCopyProofs
import DDProps.Histories
import DDProps.C03
import DDProps.C11
open Std

namespace DD

local notation "⟪" ops "⟫" => run ops St.init

/-! ## C02 — `reduction`, `update_predecessors`, comparisons of managers -/

/-- C02 / C11 (`BDD.reduction()`): from a manager that satisfies the invariant and whose order is
a bijection (every reachable state; dynamic reordering of `self` enabled OR NOT, inside a
reordering context or not) and whose `roots` are nodes, for every iteration order of `_succ`, the
call returns normally and leaves `self` as it was; the new manager has the same variable order, is in a good state for an empty
ledger (canonical, counts exact, empty computed table, reordering not enabled), and every
reference `u` of the source has a translation `tr u` in it with `tr (-u) = - tr u`, the same
function by level and by name, distinct for distinct references; its `roots` are the translated
roots. -/
theorem C02_reduction (m : Mgr) (hI : Inv m) (hO : OrderOK m.tbl)
    (hroots : ∀ v ∈ m.roots, m.tbl.Mem v) (ord : List Nat) (ho : SuccOrder m.tbl ord) :
    ∃ b tr, reduction ord m = (.ok b, m) ∧ ReductionPost m.tbl m.roots b tr :=
  reduction_spec m hI hO hroots ord ho

/-- after any history -/
theorem C02_reduction_every_history (ops : List UOp) (hg : OpsGuarded ops St.init)
    (hroots : ∀ v ∈ ⟪ops⟫.m.roots, ⟪ops⟫.m.tbl.Mem v) (ord : List Nat)
    (ho : SuccOrder ⟪ops⟫.m.tbl ord) :
    ∃ b tr, reduction ord ⟪ops⟫.m = (.ok b, ⟪ops⟫.m) ∧
      ReductionPost ⟪ops⟫.m.tbl ⟪ops⟫.m.roots b tr :=
  C02_reduction _ (reachable_inv ops hg).inv (reachable_inv ops hg).order hroots ord ho

/-- a root that is not a node: `KeyError`, `self` unchanged -/
theorem C02_reduction_bad_root (m : Mgr) (hI : Inv m) (hO : OrderOK m.tbl) (ord : List Nat)
    (ho : SuccOrder m.tbl ord) (v : Int) (hv : v ∈ m.roots) (hnm : ¬ m.tbl.Mem v)
    (hothers : ∀ w ∈ m.roots, w ≠ v → m.tbl.Mem w) :
    reduction ord m = (.error .key, m) :=
  reduction_bad_root m hI hO ord ho v hv hnm hothers

/-- C02 (`update_predecessors()`), any iteration order: only `_pred` changes; afterwards the
triple of every stored node is mapped to that node, other keys keep their entry; and in a manager
that is good except that `_pred` LOST entries the invariant `Inv` holds again afterwards (so
`find_or_add` finds every stored node again and `ite` keeps the diagram reduced). -/
theorem C02_update_predecessors (m : Mgr) (ord : List Nat) (ho : SuccOrder m.tbl ord) :
    (WFU m.tbl → ∃ p, updatePredecessors ord m = (.ok (), { m with pred := p }) ∧
      (∀ u n, m.tbl.node? u = some n → p[n.key]? = some u) ∧
      (∀ k, (∀ u n, m.tbl.node? u = some n → n.key ≠ k) → p[k]? = m.pred[k]?)) ∧
    (InvLostPred m → ∃ p, updatePredecessors ord m = (.ok (), { m with pred := p }) ∧
      Inv { m with pred := p }) :=
  ⟨fun hw => updatePredecessors_spec m hw ord ho, fun h => updatePredecessors_restores m h ord ho⟩

/-- what the comparisons of managers compare: `dd.bdd.BDD.__eq__` is the stub inherited from the
protocol class — its value is `None` for ANY two managers, the same object included, so `==` is
falsy and `!=` true; `dd.autoref.BDD.__eq__` is identity of the wrapped manager. -/
theorem C02_manager_eq (a b : Nat) :
    mgrEq a b = none ∧ mgrNe a b = true ∧ (aMgrEq a b = true ↔ a = b) :=
  ⟨rfl, rfl, by simp [aMgrEq]⟩

/-! ## C18 / C14 — iteration and order views -/

/-- C18 (`BDD.levels(skip_terminals)`), any iteration order of `_succ`: every stored node once,
with its own level and edges; the terminal exactly when not skipped; nothing else; levels never
increase along the sequence (the bottom level first). -/
theorem C18_levels (t : Tbl) (hw : WF t) (skip : Bool) (ord : List Nat) (ho : SuccOrder t ord) :
    (∀ u n, t.node? u = some n → (u, n.lvl, some (n.lo, n.hi)) ∈ levelsIter t skip ord) ∧
    ((1, t.nvars, none) ∈ levelsIter t skip ord ↔ skip = false) ∧
    (∀ it ∈ levelsIter t skip ord,
      (it = (1, t.nvars, none) ∧ skip = false) ∨
      ∃ n, t.node? it.1 = some n ∧ it = (it.1, n.lvl, some (n.lo, n.hi))) ∧
    ((levelsIter t skip ord).map (·.1)).Nodup ∧
    (levelsIter t skip ord).Pairwise (fun x y => y.2.1 ≤ x.2.1) :=
  levelsIter_spec t hw skip ord ho

/-- C18 (`iter(bdd)`): exactly the terminal and the stored nodes, each once -/
theorem C18_iter (t : Tbl) (hw : WF t) : SuccOrder t (iterNodes t) := SuccOrder.ascending t hw

/-- C14 (`bdd.vars` / `bdd.var_levels`): the pairs of the view are exactly the entries of `vars`,
which — the order being a bijection — are exactly the entries of `_level_to_var` read backwards;
there is one pair per level `0 .. n-1`. -/
theorem C14_var_levels_view (t : Tbl) (h : OrderOK t) :
    (∀ v i, (v, i) ∈ varLevels t ↔ t.vars[v]? = some i) ∧
    (∀ v i, (v, i) ∈ varLevels t ↔ t.l2v[i]? = some v) ∧
    (varLevels t).length = t.nvars ∧
    (∀ i, i < t.nvars → ∃ v, (v, i) ∈ varLevels t) := by
  have h1 : ∀ v i, (v, i) ∈ varLevels t ↔ t.vars[v]? = some i :=
    fun v i => TreeMap.mem_toList_iff_getElem?_eq_some
  refine ⟨h1, fun v i => (h1 v i).trans (h.inv v i), ?_, fun i hi => ?_⟩
  · show t.vars.toList.length = t.vars.size
    exact TreeMap.length_toList
  · obtain ⟨v, hv⟩ := h.total i hi
    exact ⟨v, (h1 v i).mpr ((h.inv v i).mpr hv)⟩

/-- `bdd.ordering` is refused (`DeprecationWarning`) -/
theorem C14_ordering_refused : orderingView = .error .other := rfl

/-! ## C03 / C11 — method aliases of `dd.bdd.BDD` -/

/-- C03 (`BDD.exist(qvars, u)`, `BDD.forall(qvars, u)`): they ARE `quantify(u, qvars, forall)`;
hence `C03_quantify` is their specification. -/
theorem C03_exist_forall_methods (qvars : List Key) (u : Int) :
    existOp qvars u = quantify u qvars false ∧ forallOp qvars u = quantify u qvars true :=
  ⟨rfl, rfl⟩

theorem C03_exist_method (m : Mgr) (hI : Inv m) (hoff : m.lastLen = none) (u : Int)
    (hu : m.tbl.Mem u) (qvars : List Key) (lv : List Nat)
    (hlv : mapToLevelE m.tbl qvars = .ok lv) :
    ∃ r m', existOp qvars u m = (.ok r, m') ∧ Inv m' ∧ m'.tbl.Mem r ∧
      ∀ a, den m'.tbl r a = true ↔
        ∃ b : Asg, (∀ j, j ∉ lv → b j = a j) ∧ den m.tbl u b = true := by
  obtain ⟨r, m', h1, h2, _, h4, _, h6⟩ := C03_quantify m hI hoff u hu qvars false lv hlv
  exact ⟨r, m', h1, h2, h4, h6⟩

/-- C11 (`BDD.copy(u, other)`): it IS `copy_bdd(u, self, other)`; `C11_copyBdd_denN` is its
specification. -/
theorem C11_copy_method (s : Tbl) (hS : WFU s) (hVs : VarsBij s) (m : Mgr) (hI : Inv m)
    (hoff : m.lastLen = none) (hVm : VarsBij m.tbl) (u : Int) (hu : s.Mem u)
    (hsup : ∀ i v, InSupp s u i → s.l2v[i]? = some v → m.tbl.vars.contains v = true) :
    ∃ r m', copyMethod s u m = (.ok r, m') ∧ denName m'.tbl r = denName s u :=
  C11_copyBdd_denN s hS hVs m hI hoff hVm u hu hsup

/-- C11 (`dd._copy.copy_bdd(u, target)` / each element of `copy_bdds_from`: the copy through the
public `Function` interface): `s` is the node table of the manager of `u`, `m` the target with
reordering not enabled, every variable of the support of `u` declared in it.  The call returns
normally; the copy denotes the same function of the variable NAMES whatever the two orders;
the target keeps its invariant and only gains nodes (what it held keeps its meaning); copies of
regular references are regular. -/
theorem C11_copy_bdd_public (s : Tbl) (hS : WFU s) (hVs : VarsBij s) (m : Mgr) (hI : Inv m)
    (hoff : m.lastLen = none) (hVm : VarsBij m.tbl) (u : Int) (hu : s.Mem u)
    (hsup : ∀ i v, InSupp s u i → s.l2v[i]? = some v → m.tbl.vars.contains v = true) :
    ∃ r m', xcopyBody s u m = (.ok r, m') ∧ Inv m' ∧ Ext m.tbl m'.tbl ∧ m'.tbl.Mem r ∧
      (0 < r ↔ 0 < u) ∧ denName m'.tbl r = denName s u := by
  obtain ⟨r, m', h1, h2, h3, h4, _, h6, h7⟩ := xcopyBody_spec s hS.toWF hVs m hI hoff hVm u hu hsup
  exact ⟨r, m', h1, h2, h3, h4, h6, h7⟩

/-- C11 (`dd._copy.copy_bdds_from(roots, target)`): one memo serves all roots; every element of
the result denotes, by variable name, the function of the corresponding root; the target keeps
its invariant and only gains nodes. -/
theorem C11_copy_bdds_from (s : Tbl) (hS : WFU s) (hVs : VarsBij s) (m : Mgr) (hI : Inv m)
    (hoff : m.lastLen = none) (hVm : VarsBij m.tbl) (us : List Int) (hu : ∀ u ∈ us, s.Mem u)
    (hsup : ∀ u ∈ us, ∀ i v, InSupp s u i → s.l2v[i]? = some v → m.tbl.vars.contains v = true) :
    ∃ rs m', xcopyList s us {} m = (.ok rs, m') ∧ Inv m' ∧ Ext m.tbl m'.tbl ∧
      rs.length = us.length ∧
      ∀ p ∈ us.zip rs, m'.tbl.Mem p.2 ∧ denName m'.tbl p.2 = denName s p.1 := by
  obtain ⟨rs, m', h1, h2, h3, _, h5, h6⟩ := xcopyList_denName s hS.toWF hVs m hI hoff hVm us hu hsup
  exact ⟨rs, m', h1, h2, h3, h5, fun p hp => ⟨(h6 p hp).1, (h6 p hp).2.2⟩⟩

/-! ## non-vacuity -/

/-- the state of the example history before the release: nodes 2, 3, 4 -/
abbrev apiExM : Mgr := ⟪exHistory.take 12⟫.m

theorem apiExM_good : GoodState apiExM ⟪exHistory.take 12⟫.ext :=
  reachable_inv (exHistory.take 12) (by decide)

/-- a listing of its `_succ` keys that is NOT ascending -/
theorem apiExM_order : SuccOrder apiExM.tbl [1, 4, 2, 3] :=
  (succOrderOk_iff _ _).mp (by decide)

theorem apiExM_roots : ∀ v ∈ apiExM.roots, apiExM.tbl.Mem v := by
  have : apiExM.roots = [] := by decide
  intro v hv; rw [this] at hv; cases hv

example := C02_reduction apiExM apiExM_good.inv apiExM_good.order apiExM_roots [1, 4, 2, 3] apiExM_order
/-- … and with dynamic reordering ENABLED in the source -/
example := C02_reduction { apiExM with lastLen := some 1 }
  ⟨apiExM_good.inv.wf, apiExM_good.inv.pred, apiExM_good.inv.freeGe, apiExM_good.inv.free,
    apiExM_good.inv.refOne, apiExM_good.inv.refDom, apiExM_good.inv.cache⟩ apiExM_good.order apiExM_roots
  [1, 4, 2, 3] apiExM_order
/-- the model really builds the three nodes, in the order the listing dictates -/
example : ((reduction [1, 4, 2, 3] apiExM).1.toOption.map fun b => b.tbl.succ.toList.map
    fun (u, n) => (u, n.lvl, n.lo, n.hi)) = some [(2, 1, -1, 1), (3, 0, -1, 2), (4, 0, -1, 1)] := by
  decide
example := C02_update_predecessors (predClear apiExM).2 [1, 4, 2, 3] apiExM_order
example : InvLostPred (predClear apiExM).2 := predClear_lost apiExM apiExM_good.inv
example : ∃ p, updatePredecessors [1, 4, 2, 3] (predClear apiExM).2 =
    (.ok (), { (predClear apiExM).2 with pred := p }) ∧ Inv { (predClear apiExM).2 with pred := p } :=
  (C02_update_predecessors (predClear apiExM).2 [1, 4, 2, 3] apiExM_order).2
    (predClear_lost apiExM apiExM_good.inv)
example := C18_levels apiExM.tbl apiExM_good.inv.wf.toWF true [1, 4, 2, 3] apiExM_order
example : (levelsIter apiExM.tbl false [1, 4, 2, 3]).map (·.1) = [1, 3, 4, 2] := by decide
example := C18_iter apiExM.tbl apiExM_good.inv.wf.toWF
/-- the hypotheses of `C11_copy_bdd_public` (those of `C11_copyBdd_denN`) are satisfiable with a
non-terminal node: copy within the witness manager's own variables -/
example : ∃ (s : Tbl) (m : Mgr) (u : Int) (r : Int) (m' : Mgr), u.natAbs ≠ 1 ∧
    xcopyBody s u m = (.ok r, m') ∧ denName m'.tbl r = denName s u := by
  obtain ⟨m, u, hI, hoff, hV, hu, hx, hn, hd, _⟩ := witness
  have h1 : u.natAbs ≠ 1 := by
    intro h1
    rcases abs_one h1 with h | h <;> subst h
    · have := hd (fun _ => false); rw [den_one] at this; cases this
    · have := hd (fun _ => true); rw [den_neg_one] at this; cases this
  obtain ⟨r, m', he, _, _, _, _, hden⟩ := C11_copy_bdd_public m.tbl hI.wf hV m hI hoff hV u hu
    (fun i v _ hv => by
      rw [TreeMap.contains_eq_isSome_getElem?, hV.l2v i v hv]; rfl)
  exact ⟨m.tbl, m, u, r, m', h1, he, hden⟩

example : ∃ (s : Tbl) (m : Mgr) (u : Int) (rs : List Int) (m' : Mgr), u.natAbs ≠ 1 ∧
    xcopyList s [u, -u] {} m = (.ok rs, m') ∧ rs.length = 2 := by
  obtain ⟨m, u, hI, hoff, hV, hu, hx, hn, hd, _⟩ := witness
  have h1 : u.natAbs ≠ 1 := by
    intro h1
    rcases abs_one h1 with h | h <;> subst h
    · have := hd (fun _ => false); rw [den_one] at this; cases this
    · have := hd (fun _ => true); rw [den_neg_one] at this; cases this
  obtain ⟨rs, m', he, _, _, hlen, _⟩ := C11_copy_bdds_from m.tbl hI.wf hV m hI hoff hV [u, -u]
    (fun x hx => by
      simp only [List.mem_cons, List.not_mem_nil, or_false] at hx
      rcases hx with rfl | rfl
      · exact hu
      · exact mem_neg hu)
    (fun x _ i v _ hv => by
      rw [TreeMap.contains_eq_isSome_getElem?, hV.l2v i v hv]; rfl)
  exact ⟨m.tbl, m, u, rs, m', h1, he, hlen⟩
example := C14_var_levels_view apiExM.tbl apiExM_good.order
example : varLevels apiExM.tbl = [("a", 0), ("b", 1)] := by decide

end DD
