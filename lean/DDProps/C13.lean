/-
  DDProps.C13 — `image` and `preimage` equal rename, conjoin, quantify (relational product).

  Assignments are over LEVELS; `qsem fa Q f a` is `∀` (`fa = true`) / `∃` (`fa = false`) over the
  values of the levels of `Q`.  Reordering not enabled: `m.lastLen = none`.  Any manager with
  `Inv` (warm computed table, other nodes, any variable order) is covered; all operands and signs.

  * `C13_imageF` — the recursion `_image(u, v, umap, vmap, qvars, bdd, forall, cache)` with BOTH
    level maps: `rename_U (Q qvars. u ∧ rename_V v)`; memo keyed by the pair `(u, v)`.
  * `C13_imageF_image`, `C13_image` — `image`: for ANY variable order (pairs adjacent or not —
    the code only warns) the result is the quantified conjunction, renamed afterwards.  No
    condition relating the order to the renaming is needed, because a level that is not
    quantified is rebuilt with `ite(var, q, p)`.
  * `C13_image_refuses` — the two precondition checks of `image`.
  * `C13_imageF_preimage`, `C13_preimage_partial` — `preimage` UNDER THE EXTRA HYPOTHESIS that the
    target is independent of every value of the renaming (and: pairs adjacent, no two keys with
    the same value).
  * `C13_preimage_statement` / `C13_preimage_statement_false` — the statement without the
    independence hypothesis is FALSE of the code (finding F5), by a concrete witness.
-/
import DDProofs.ImageF5
namespace DD
open Std

/-! ### the recursion `_image` -/

/-- C13 (the recursion `_image`, both level maps at once): total when reordering is not
enabled; only adds nodes; the memo (keyed by the pair) stays sound; the result is
`a ↦ Q qvars. (u ∧ v∘rV) (a∘rU)`: `v` is renamed through `vmap` BEFORE the conjunction, the
quantified conjunction through `umap` AFTERWARDS.  `ImgOK` asks: `umap` sends the levels that
are not quantified to declared levels; `vmap` is strictly increasing on the support of `v`
(all that is used of "neighbours"), sends it to declared levels, and does not move the level
of the terminal. -/
theorem C13_imageF (umap vmap : Option (List (Int × Int))) (Q : List Nat) (fa : Bool)
    (rU rV : Nat → Nat) (S : Nat → Prop) (f : Nat) (m : Mgr) (u v : Int)
    (cache : HashMap (Int × Int) Int)
    (hP : ImgOK umap vmap Q rU rV S m.nvars)
    (hI : Inv m) (hoff : m.lastLen = none) (hu : m.tbl.Mem u) (hv : m.tbl.Mem v)
    (hS : ∀ j, InSupp m.tbl v j → S j) (hmemo : IMemo fa Q rU rV m.tbl cache)
    (hfuel : 2 * m.nvars + 1 ≤ f + m.tbl.levelOf u + m.tbl.levelOf v) :
    ∃ r c' m', imageF umap vmap Q fa f u v cache m = (.ok (r, c'), m') ∧
      Inv m' ∧ Ext m.tbl m'.tbl ∧ Frame m m' ∧ IMemo fa Q rU rV m'.tbl c' ∧ m'.tbl.Mem r ∧
      ∀ a, den m'.tbl r a = true ↔
        qsem fa Q (fun b => den m.tbl u b && den m.tbl v (fun j => b (rV j)))
          (fun z => a (rU z)) := by
  obtain ⟨r, c', m', he, hs, hm, hp⟩ := imageF_spec umap vmap Q fa rU rV S m.nvars hP
    f m u v cache hI hoff rfl hu hv hS hmemo hfuel
  refine ⟨r, c', m', he, hs.inv, hs.ext, hs.frame, hm, hp.mr, ?_⟩
  intro a
  rw [hp.den a, imgSem_ext hs.ext hI.wf.toWF hu hv]
  exact Iff.rfl

/-- C13 (`_image` as `image` calls it: `umap = rename`, `vmap = None`), ANY variable order,
pairs adjacent or not: the result is the quantified conjunction read through the renaming
(`ren z` is where level `z` of the conjunction appears in the result).  The only requirement:
every level that is not quantified is sent to a declared level. -/
theorem C13_imageF_image (rn : List (Int × Int)) (Q : List Nat) (fa : Bool) (ren : Nat → Nat)
    (f : Nat) (m : Mgr) (u v : Int) (cache : HashMap (Int × Int) Int)
    (hI : Inv m) (hoff : m.lastLen = none) (hu : m.tbl.Mem u) (hv : m.tbl.Mem v)
    (hren : ∀ z, z < m.nvars → z ∉ Q →
      (rn.lookup (z : Int)).getD (z : Int) = (ren z : Int) ∧ ren z < m.nvars)
    (hmemo : IMemo fa Q ren id m.tbl cache)
    (hfuel : 2 * m.nvars + 1 ≤ f + m.tbl.levelOf u + m.tbl.levelOf v) :
    ∃ r c' m', imageF (some rn) none Q fa f u v cache m = (.ok (r, c'), m') ∧
      Inv m' ∧ Ext m.tbl m'.tbl ∧ Frame m m' ∧ IMemo fa Q ren id m'.tbl c' ∧ m'.tbl.Mem r ∧
      ∀ a, den m'.tbl r a = true ↔
        qsem fa Q (fun b => den m.tbl u b && den m.tbl v b) (fun z => a (ren z)) :=
  imageF_spec_image rn Q fa ren f m u v cache hI hoff hu hv hren hmemo hfuel

/-- C13 (`_image` as `preimage` calls it: `umap = None`, `vmap = rename`): when the renaming is
strictly increasing on (a set `S` containing) the support of `v`, sends it to declared levels
and does not move the terminal's level, the result is `Q qvars. u ∧ rename(v)`. -/
theorem C13_imageF_preimage (rn : List (Int × Int)) (Q : List Nat) (fa : Bool) (rV : Nat → Nat)
    (S : Nat → Prop) (f : Nat) (m : Mgr) (u v : Int) (cache : HashMap (Int × Int) Int)
    (hI : Inv m) (hoff : m.lastLen = none) (hu : m.tbl.Mem u) (hv : m.tbl.Mem v)
    (hS : ∀ j, InSupp m.tbl v j → S j)
    (hval : ∀ j, S j → (rn.lookup (j : Int)).getD (j : Int) = (rV j : Int) ∧ rV j < m.nvars)
    (hterm : (rn.lookup (m.nvars : Int)).getD (m.nvars : Int) = (m.nvars : Int))
    (hmono : ∀ j j', S j → S j' → j < j' → rV j < rV j')
    (hmemo : IMemo fa Q id rV m.tbl cache)
    (hfuel : 2 * m.nvars + 1 ≤ f + m.tbl.levelOf u + m.tbl.levelOf v) :
    ∃ r c' m', imageF none (some rn) Q fa f u v cache m = (.ok (r, c'), m') ∧
      Inv m' ∧ Ext m.tbl m'.tbl ∧ Frame m m' ∧ IMemo fa Q id rV m'.tbl c' ∧ m'.tbl.Mem r ∧
      ∀ a, den m'.tbl r a = true ↔
        qsem fa Q (fun b => den m.tbl u b && den m.tbl v (fun j => b (rV j))) a :=
  imageF_spec_preimage rn Q fa rV S f m u v cache hI hoff hu hv hS hval hterm hmono hmemo hfuel

/-- C13 (the arithmetic behind "each renamed variable adjacent to its partner"): adjacent pairs,
no two keys with the same value, no value in `S` ⟹ the renaming is strictly increasing on `S` -/
theorem C13_adjacent_mono (rn : List (Int × Int)) (S : Nat → Prop)
    (hval : ∀ p, p ∈ rn → 0 ≤ p.2)
    (hadj : ∀ p, p ∈ rn → (p.1 - p.2).natAbs = 1)
    (hinj : ∀ p p', p ∈ rn → p' ∈ rn → p.2 = p'.2 → p.1 = p'.1)
    (hdis : ∀ p, p ∈ rn → ∀ j, S j → p.2 ≠ (j : Int)) :
    ∀ j j', S j → S j' → j < j' → renOf rn j < renOf rn j' :=
  renOf_mono rn S hval hadj hinj hdis

/-! ### `image` -/

/-- C13 (`image(trans, source, rename, qvars, bdd, forall)`), both quantifier kinds, keys given
as names or as levels (`q` = what `_map_to_level` computes for `qvars`; the renaming = the level
pairs that `{bdd.vars.get(k, k): bdd.vars.get(v, v)}` produces), ANY variable order — adjacent
pairs or not.  Under the code's own checks (no key is a value; every rename target is quantified
or outside the supports of both operands) the result is
`rename(Q qvars. trans ∧ source)`: a level `z` of the quantified conjunction is read at
`renOf pairs z` in the result. -/
theorem C13_image (m : Mgr) (hI : Inv m) (hoff : m.lastLen = none) (hV : VarsBij m.tbl)
    (trans source : Int) (hu : m.tbl.Mem trans) (hv : m.tbl.Mem source)
    (rn : List (Key × Key)) (qvars : List Key) (fa : Bool) (q : List Nat)
    (hq : mapToLevelE m.tbl qvars = .ok q)
    (hov : renameOverlap (resolveRename m.tbl rn) = false)
    (hnl : renameNonLevel (resolveRename m.tbl rn) = false)
    (hlv : ∀ p, p ∈ intPairs (resolveRename m.tbl rn) →
      0 ≤ p.1 ∧ p.1 < (m.nvars : Int) ∧ 0 ≤ p.2 ∧ p.2 < (m.nvars : Int))
    (htg : ∀ p, p ∈ intPairs (resolveRename m.tbl rn) → ∀ l : Nat, p.2 = (l : Int) →
      l ∈ q ∨ (¬ dependsOn m.tbl trans l ∧ ¬ dependsOn m.tbl source l)) :
    ∃ r m', image trans source rn qvars fa m = (.ok r, m') ∧ Inv m' ∧ Ext m.tbl m'.tbl ∧
      m'.tbl.Mem r ∧ Frame m m' ∧
      ∀ a, den m'.tbl r a = true ↔
        qsem fa q (fun b => den m.tbl trans b && den m.tbl source b)
          (fun z => a (renOf (intPairs (resolveRename m.tbl rn)) z)) :=
  image_spec m hI hoff hV trans source hu hv rn qvars fa q hq hov hnl hlv htg

/-- C13 (`image` refuses): AssertionError, manager untouched, (1) when a key of the renaming is
also a value, (2) when a rename target is in the support of an operand and is not quantified -/
theorem C13_image_refuses (m : Mgr) (hI : Inv m) (hV : VarsBij m.tbl)
    (trans source : Int) (hu : m.tbl.Mem trans) (hv : m.tbl.Mem source)
    (rn : List (Key × Key)) (qvars : List Key) (fa : Bool) (q : List Nat)
    (hq : mapToLevelE m.tbl qvars = .ok q) :
    (renameOverlap (resolveRename m.tbl rn) = true →
      image trans source rn qvars fa m = (.error .assertion, m)) ∧
    (renameOverlap (resolveRename m.tbl rn) = false →
      renameNonLevel (resolveRename m.tbl rn) = false →
      (∀ p, p ∈ intPairs (resolveRename m.tbl rn) →
        0 ≤ p.1 ∧ p.1 < (m.nvars : Int) ∧ 0 ≤ p.2 ∧ p.2 < (m.nvars : Int)) →
      ∀ (p : Int × Int) (l : Nat), p ∈ intPairs (resolveRename m.tbl rn) → p.2 = (l : Int) →
        l ∉ q → (dependsOn m.tbl trans l ∨ dependsOn m.tbl source l) →
        image trans source rn qvars fa m = (.error .assertion, m)) :=
  ⟨image_refuses_overlap m trans source rn qvars fa q hq,
   fun hov hnl hlv p l hp hl hlq hdep =>
     image_refuses_target m hI hV trans source hu hv rn qvars fa q hq hov hnl hlv p hp l hl hlq
       hdep⟩

/-! ### `preimage` -/

/-- the hypotheses shared by the full statement and its proved part: the documented
preconditions of `preimage` (pairs of declared levels, each adjacent, keys disjoint from values)
plus "no two keys with the same value" -/
structure PreimagePre (m : Mgr) (rn : List (Key × Key)) : Prop where
  nonempty : resolveRename m.tbl rn ≠ [] → 0 < m.nvars
  noOverlap : renameOverlap (resolveRename m.tbl rn) = false
  levels : ∀ p, p ∈ intPairs (resolveRename m.tbl rn) →
    0 ≤ p.1 ∧ p.1 < (m.nvars : Int) ∧ 0 ≤ p.2 ∧ p.2 < (m.nvars : Int)
  adjacent : ∀ p, p ∈ intPairs (resolveRename m.tbl rn) → (p.1 - p.2).natAbs = 1
  injective : ∀ p p', p ∈ intPairs (resolveRename m.tbl rn) →
    p' ∈ intPairs (resolveRename m.tbl rn) → p.2 = p'.2 → p.1 = p'.1

/-- what `preimage` is documented to return: `Q qvars. trans ∧ rename(target)` -/
def PreimagePost (m : Mgr) (trans target : Int) (rn : List (Key × Key)) (qvars : List Key)
    (fa : Bool) (q : List Nat) : Prop :=
  ∃ r m', preimage trans target rn qvars fa m = (.ok r, m') ∧ Inv m' ∧ Ext m.tbl m'.tbl ∧
    m'.tbl.Mem r ∧ Frame m m' ∧
    ∀ a, den m'.tbl r a = true ↔
      qsem fa q (fun b => den m.tbl trans b && den m.tbl target
        (fun j => b (renOf (intPairs (resolveRename m.tbl rn)) j))) a

/-- C13 (`preimage(trans, target, rename, qvars, bdd, forall)`), both quantifier kinds, keys as
names or levels — PROVED PART: under the documented preconditions AND the extra hypothesis that
the target is independent of every value of the renaming, the result is
`Q qvars. trans ∧ rename(target)`. -/
theorem C13_preimage_partial (m : Mgr) (hI : Inv m) (hoff : m.lastLen = none)
    (hV : VarsBij m.tbl) (trans target : Int) (hu : m.tbl.Mem trans) (hv : m.tbl.Mem target)
    (rn : List (Key × Key)) (qvars : List Key) (fa : Bool) (q : List Nat)
    (hq : mapToLevelE m.tbl qvars = .ok q) (hpre : PreimagePre m rn)
    (hind : ∀ p, p ∈ intPairs (resolveRename m.tbl rn) → ∀ l : Nat, p.2 = (l : Int) →
      ¬ dependsOn m.tbl target l) :
    PreimagePost m trans target rn qvars fa q :=
  preimage_spec_partial m hI hoff hV trans target hu hv rn qvars fa q hq hpre.nonempty
    hpre.noOverlap hpre.levels hpre.adjacent hpre.injective hind

/-- C13 (`preimage`), FULL statement — the same without the independence hypothesis.  It is
FALSE of the code (`C13_preimage_statement_false`, finding F5); what is missing for a proof is
not a lemma but a repair of `_image` (when the target depends on a rename target `x'` that is
quantified, the descent meets `x'` twice: once as the image of `x`, once as itself). -/
def C13_preimage_statement : Prop :=
  ∀ (m : Mgr), Inv m → m.lastLen = none → VarsBij m.tbl →
  ∀ (trans target : Int), m.tbl.Mem trans → m.tbl.Mem target →
  ∀ (rn : List (Key × Key)) (qvars : List Key) (fa : Bool) (q : List Nat),
    mapToLevelE m.tbl qvars = .ok q → PreimagePre m rn →
    PreimagePost m trans target rn qvars fa q

/-- C13 / F5: the witness.  Order `x < xp`; `trans = ¬x ∧ ¬xp`; `target = x xor xp`;
`rename = {x: xp}`; `qvars = {xp}`; existential.  Documented meaning: `∃ xp. ¬x ∧ ¬xp ∧ (xp xor
xp)` = FALSE.  The code returns `¬x`. -/
theorem C13_preimage_statement_false : ¬ C13_preimage_statement := by
  intro h
  have hres : resolveRename imgM.tbl [(.lvl 0, .lvl 1)] = [(.lvl 0, .lvl 1)] := by decide
  have hpairs : intPairs [(Key.lvl 0, Key.lvl 1)] = [(0, 1)] := by decide
  have hq : mapToLevelE imgM.tbl [.lvl 1] = .ok [1] := by rfl
  have hpre : PreimagePre imgM [(.lvl 0, .lvl 1)] := by
    refine ⟨fun _ => by rw [imgM_nvars']; omega, by rw [hres]; decide, ?_, ?_, ?_⟩
    · intro p hp
      rw [hres, hpairs] at hp
      simp only [List.mem_singleton] at hp
      subst hp
      rw [imgM_nvars']
      decide
    · intro p hp
      rw [hres, hpairs] at hp
      simp only [List.mem_singleton] at hp
      subst hp
      decide
    · intro p p' hp hp' _
      rw [hres, hpairs] at hp hp'
      simp only [List.mem_singleton] at hp hp'
      rw [hp, hp']
  obtain ⟨r, m', he, _, _, _, _, hd⟩ := h imgM imgM_inv rfl imgM_varsBij (-4) (-3)
    (imgM_mem _ (by decide)) (imgM_mem _ (by decide)) [(.lvl 0, .lvl 1)] [.lvl 1] false [1]
    hq hpre
  -- what the code returns
  obtain ⟨r', c, m'', hrun, hden⟩ := imgM_F5_run
  have hpre' : preimage (-4) (-3) [(.lvl 0, .lvl 1)] [.lvl 1] false imgM = (.ok r', m'') := by
    unfold preimage
    have hav : assertValidRename [(Key.lvl 0, Key.lvl 1)] imgM = (.ok (), imgM) :=
      assertValidRename_ok imgM imgM_varsBij _ (fun _ => by rw [imgM_nvars']; omega) (by decide)
    have hfuel : 2 * imgM.nvars + 4 = 8 := by rw [imgM_nvars']
    simp only [hq, hres, hav, hpairs, hfuel, hrun]
  rw [hpre'] at he
  have hr : r' = r := by
    have := congrArg Prod.fst he
    simpa using this
  have hm : m'' = m' := congrArg Prod.snd he
  subst hr hm
  -- the code's answer is true where `x` is false; the documented meaning is false everywhere
  have h1 : den m''.tbl r' (fun _ => false) = true := by rw [hden]; rfl
  have h2 := (hd (fun _ => false)).mp h1
  refine qsem_const_false false [1] _ _ ?_ h2
  intro b
  have hW := imgM_inv.wf.toWF
  rw [den_neg imgM.tbl hW 3 _ (imgM_mem _ (by decide)), imgM_den3, hres, hpairs]
  have e0 : renOf [(0, 1)] 0 = 1 := by decide
  have e1 : renOf [(0, 1)] 1 = 1 := by decide
  simp [e0, e1]

end DD
