/-
  DDProps.C13 — `image` and `preimage` equal rename, conjoin, quantify (relational product).

  Assignments are over LEVELS; `qsem fa Q f a` is `∀` (`fa = true`) / `∃` (`fa = false`) over the
  values of the levels of `Q`.  Reordering not enabled: `m.lastLen = none`.  Any manager with
  `Inv` (warm computed table, other nodes, any variable order) is covered; all operands and signs.

  * `C13_imageF` — the recursion `_image(u, v, umap, vmap, qvars, bdd, forall, cache)` with BOTH
    level maps: `rename_U (Q qvars. u ∧ rename_V v)`; memo keyed by the pair `(u, v)`.
  * `C13_imageF_image`, `C13_image` — `image`: for ANY variable order (pairs adjacent or not —
    the code only warns) the result is the quantified conjunction, renamed afterwards.  No
    condition relating the order to the renaming is needed, because a level that is not
    quantified is rebuilt with `ite(var, q, p)`.
  * `C13_image_refuses` — the two precondition checks of `image`.
  * `C13_preimage` — `preimage`, THE FULL STATEMENT: under the literal preconditions (declared
    levels, keys disjoint from values, no undeclared name as a value) for ANY order, ANY renaming,
    ANY target.  `_preimage_of` runs the fused recursion `_image` only when its test `fused` holds
    (partners neighbours, no two keys with the same value, no value in the support of the target:
    `C13_imageF_preimage` is the recursion's theorem under exactly these) and renames, conjoins,
    quantifies otherwise.  `C13_preimage_statement_holds`: the statement that findings F5 / F5b
    refuted for the code before the repair; the two witnesses are `example`s returning FALSE.
  * `C13_preimage_partial`, `C13_preimage_any_order`, `C13_preimage_not_neighbours` — the
    statements of the earlier rounds (instances of `C13_preimage`).
  * `C13_image_names`, `C13_preimage_names_partial`, `C13_rename_levels` — the same with the
    renaming and `qvars` given by name / by level.
  Every theorem is followed by a non-vacuity `example` on a concrete manager (`imgM`: `x < xp`;
  `imgM3`: `a < b < c`).
-/
import DDProofs.ImageExample3
import DDProofs.QuantCor
import DDProofs.PreimageAny
namespace DD
open Std

/-! ### the recursion `_image` -/

/-- C13 (the recursion `_image`, both level maps at once): total when reordering is not
enabled; only adds nodes; the memo (keyed by the pair) stays sound; the result is
`a ↦ Q qvars. (u ∧ v∘rV) (a∘rU)`: `v` is renamed through `vmap` BEFORE the conjunction, the
quantified conjunction through `umap` AFTERWARDS.  `ImgOK` asks: `umap` sends the levels that
are not quantified to declared levels; `vmap` is strictly increasing on the support of `v`
(all that is used of "neighbours"), sends it to declared levels, and does not move the level
of the terminal; no level met is a key whose value is an undeclared name (`ubad`, `vbad`). -/
theorem C13_imageF (umap vmap : Option (List (Int × Int))) (ubad vbad : List Int) (Q : List Nat)
    (fa : Bool) (rU rV : Nat → Nat) (S : Nat → Prop) (f : Nat) (m : Mgr) (u v : Int)
    (cache : HashMap (Int × Int) Int)
    (hP : ImgOK umap vmap ubad vbad Q rU rV S m.nvars)
    (hI : Inv m) (hoff : m.lastLen = none) (hu : m.tbl.Mem u) (hv : m.tbl.Mem v)
    (hS : ∀ j, InSupp m.tbl v j → S j) (hmemo : IMemo fa Q rU rV m.tbl cache)
    (hfuel : 2 * m.nvars + 1 ≤ f + m.tbl.levelOf u + m.tbl.levelOf v) :
    ∃ r c' m', imageF umap vmap ubad vbad Q fa f u v cache m = (.ok (r, c'), m') ∧
      Inv m' ∧ Ext m.tbl m'.tbl ∧ Frame m m' ∧ IMemo fa Q rU rV m'.tbl c' ∧ m'.tbl.Mem r ∧
      ∀ a, den m'.tbl r a = true ↔
        qsem fa Q (fun b => den m.tbl u b && den m.tbl v (fun j => b (rV j)))
          (fun z => a (rU z)) := by
  obtain ⟨r, c', m', he, hs, hm, hp⟩ := imageF_spec umap vmap ubad vbad Q fa rU rV S m.nvars hP
    f m u v cache hI hoff rfl hu hv hS hmemo hfuel
  refine ⟨r, c', m', he, hs.inv, hs.ext, hs.frame, hm, hp.mr, ?_⟩
  intro a
  rw [hp.den a, imgSem_ext hs.ext hI.wf.toWF hu hv]
  exact Iff.rfl

/-- C13 (`_image` as `image` calls it: `umap = rename`, `vmap = None`), ANY variable order,
pairs adjacent or not: the result is the quantified conjunction read through the renaming
(`ren z` is where level `z` of the conjunction appears in the result).  The only requirement:
every level that is not quantified is sent to a declared level. -/
theorem C13_imageF_image (rn : List (Int × Int)) (Q : List Nat) (fa : Bool) (ren : Nat → Nat)
    (f : Nat) (m : Mgr) (u v : Int) (cache : HashMap (Int × Int) Int)
    (hI : Inv m) (hoff : m.lastLen = none) (hu : m.tbl.Mem u) (hv : m.tbl.Mem v)
    (hren : ∀ z, z < m.nvars → z ∉ Q →
      (rn.lookup (z : Int)).getD (z : Int) = (ren z : Int) ∧ ren z < m.nvars)
    (hmemo : IMemo fa Q ren id m.tbl cache)
    (hfuel : 2 * m.nvars + 1 ≤ f + m.tbl.levelOf u + m.tbl.levelOf v) :
    ∃ r c' m', imageF (some rn) none [] [] Q fa f u v cache m = (.ok (r, c'), m') ∧
      Inv m' ∧ Ext m.tbl m'.tbl ∧ Frame m m' ∧ IMemo fa Q ren id m'.tbl c' ∧ m'.tbl.Mem r ∧
      ∀ a, den m'.tbl r a = true ↔
        qsem fa Q (fun b => den m.tbl u b && den m.tbl v b) (fun z => a (ren z)) :=
  imageF_spec_image rn Q fa ren f m u v cache hI hoff hu hv hren hmemo hfuel

/-- C13 (`_image` as `preimage` calls it: `umap = None`, `vmap = rename`): when the renaming is
strictly increasing on (a set `S` containing) the support of `v`, sends it to declared levels
and does not move the terminal's level, the result is `Q qvars. u ∧ rename(v)`. -/
theorem C13_imageF_preimage (rn : List (Int × Int)) (Q : List Nat) (fa : Bool) (rV : Nat → Nat)
    (S : Nat → Prop) (f : Nat) (m : Mgr) (u v : Int) (cache : HashMap (Int × Int) Int)
    (hI : Inv m) (hoff : m.lastLen = none) (hu : m.tbl.Mem u) (hv : m.tbl.Mem v)
    (hS : ∀ j, InSupp m.tbl v j → S j)
    (hval : ∀ j, S j → (rn.lookup (j : Int)).getD (j : Int) = (rV j : Int) ∧ rV j < m.nvars)
    (hterm : (rn.lookup (m.nvars : Int)).getD (m.nvars : Int) = (m.nvars : Int))
    (hmono : ∀ j j', S j → S j' → j < j' → rV j < rV j')
    (hmemo : IMemo fa Q id rV m.tbl cache)
    (hfuel : 2 * m.nvars + 1 ≤ f + m.tbl.levelOf u + m.tbl.levelOf v) :
    ∃ r c' m', imageF none (some rn) [] [] Q fa f u v cache m = (.ok (r, c'), m') ∧
      Inv m' ∧ Ext m.tbl m'.tbl ∧ Frame m m' ∧ IMemo fa Q id rV m'.tbl c' ∧ m'.tbl.Mem r ∧
      ∀ a, den m'.tbl r a = true ↔
        qsem fa Q (fun b => den m.tbl u b && den m.tbl v (fun j => b (rV j))) a :=
  imageF_spec_preimage rn Q fa rV S f m u v cache hI hoff hu hv hS hval hterm hmono hmemo hfuel

/-- C13 (the arithmetic behind "each renamed variable adjacent to its partner"): adjacent pairs,
no two keys with the same value, no value in `S` ⟹ the renaming is strictly increasing on `S` -/
theorem C13_adjacent_mono (rn : List (Int × Int)) (S : Nat → Prop)
    (hval : ∀ p, p ∈ rn → 0 ≤ p.2)
    (hadj : ∀ p, p ∈ rn → (p.1 - p.2).natAbs = 1)
    (hinj : ∀ p p', p ∈ rn → p' ∈ rn → p.2 = p'.2 → p.1 = p'.1)
    (hdis : ∀ p, p ∈ rn → ∀ j, S j → p.2 ≠ (j : Int)) :
    ∀ j j', S j → S j' → j < j' → renOf rn j < renOf rn j' :=
  renOf_mono rn S hval hadj hinj hdis

/-- non-vacuity (`C13_imageF`, `C13_imageF_image`): `_image` as `image` calls it on the example
manager (`x` < `xp`): `∃ x. (x ↔ xp) ∧ (x ∨ xp)`, then `xp` renamed to `x`, is `x` -/
example : ∃ r c' m', imageF (some [(1, 0)]) none [] [] [0] false 8 3 4 {} imgM = (.ok (r, c'), m') ∧
    ∀ a, den m'.tbl r a = a 0 := by
  have hP : ImgOK (some [(1, 0)]) none [] [] [0] (renOf [(1, 0)]) id (fun j => j < 2) imgM.nvars := by
    refine ⟨?_, fun j hj => ⟨rfl, by rw [imgM_nvars']; exact hj⟩, rfl, fun _ _ _ _ h => h,
      fun _ _ _ => rfl, fun _ _ => rfl⟩
    intro z hz hq
    rw [imgM_nvars'] at hz ⊢
    have : z = 1 := by
      match z, hz with
      | 0, _ => simp at hq
      | 1, _ => rfl
    subst this
    decide
  obtain ⟨r, c', m', he, _, _, _, _, _, hd⟩ := C13_imageF (some [(1, 0)]) none [] [] [0] false
    (renOf [(1, 0)]) id (fun j => j < 2) 8 imgM 3 4 {} hP imgM_inv rfl
    (imgM_mem _ (by decide)) (imgM_mem _ (by decide))
    (fun j hj => by have := hj.lt_nvars imgM_inv.wf.toWF; rwa [imgM_nvars] at this)
    (IMemo.empty _ _ _ _ _) (by rw [imgM_nvars']; omega)
  refine ⟨r, c', m', he, fun a => bool_eq_of_iff ?_⟩
  rw [hd a]
  have e1 : renOf [(1, 0)] 1 = 0 := by decide
  constructor
  · rintro ⟨b, hb, hf⟩
    have hb1 := hb 1 (by simp)
    dsimp only at hb1 hf
    rw [e1] at hb1
    rw [imgM_den3, imgM_den4] at hf
    simp only [id] at hf
    rw [← hb1]
    revert hf
    cases b 0 <;> cases b 1 <;> simp
  · intro ha
    refine ⟨upd (fun z => a (renOf [(1, 0)] z)) 0 true,
      agreeOff_upd (by simp) true (AgreeOff.refl _ _), ?_⟩
    dsimp only
    rw [imgM_den3, imgM_den4]
    simp [upd, e1, ha]

/-- non-vacuity (`C13_imageF_preimage`, `C13_adjacent_mono`): `_image` as `preimage` calls it:
`∃ xp. (x ↔ xp) ∧ xp` (the target `x` renamed to `xp`) is `x` -/
example : ∃ r c' m', imageF none (some [(0, 1)]) [] [] [1] false 8 3 5 {} imgM = (.ok (r, c'), m') ∧
    ∀ a, den m'.tbl r a = a 0 := by
  have hW := imgM_inv.wf.toWF
  have hS : ∀ j, InSupp imgM.tbl 5 j → j = 0 := by
    intro j hj
    cases hj with
    | here h1 hn => rw [show (5 : Int).natAbs = 5 from rfl, imgM_node5] at hn; cases hn; rfl
    | lo h1 hn h =>
      rw [show (5 : Int).natAbs = 5 from rfl, imgM_node5] at hn; cases hn
      cases h with
      | here h1 _ => exact absurd rfl h1
      | lo h1 _ _ => exact absurd rfl h1
      | hi h1 _ _ => exact absurd rfl h1
    | hi h1 hn h =>
      rw [show (5 : Int).natAbs = 5 from rfl, imgM_node5] at hn; cases hn
      cases h with
      | here h1 _ => exact absurd rfl h1
      | lo h1 _ _ => exact absurd rfl h1
      | hi h1 _ _ => exact absurd rfl h1
  have hmono := C13_adjacent_mono [(0, 1)] (fun j => j = 0) (by decide) (by decide)
    (by intro p p' hp hp' _; simp at hp hp'; rw [hp, hp'])
    (by intro p hp j hj; simp at hp; subst hp hj; decide)
  obtain ⟨r, c', m', he, _, _, _, _, _, hd⟩ := C13_imageF_preimage [(0, 1)] [1] false
    (renOf [(0, 1)]) (fun j => j = 0) 8 imgM 3 5 {} imgM_inv rfl
    (imgM_mem _ (by decide)) (imgM_mem _ (by decide)) hS
    (fun j hj => by subst hj; rw [imgM_nvars']; decide) (by rw [imgM_nvars']; decide) hmono
    (IMemo.empty _ _ _ _ _) (by rw [imgM_nvars']; omega)
  refine ⟨r, c', m', he, fun a => bool_eq_of_iff ?_⟩
  rw [hd a]
  have e0 : renOf [(0, 1)] 0 = 1 := by decide
  constructor
  · rintro ⟨b, hb, hf⟩
    have hb0 := hb 0 (by simp)
    dsimp only at hf
    rw [imgM_den3, imgM_den5, e0] at hf
    rw [← hb0]
    revert hf
    cases b 0 <;> cases b 1 <;> simp
  · intro ha
    refine ⟨upd a 1 true, agreeOff_upd (by simp) true (AgreeOff.refl _ _), ?_⟩
    dsimp only
    rw [imgM_den3, imgM_den5]
    simp [upd, e0, ha]

/-! ### `image` -/

/-- C13 (`image(trans, source, rename, qvars, bdd, forall)`), both quantifier kinds, keys given
as names or as levels (`q` = what `_map_to_level` computes for `qvars`; the renaming = the level
pairs that `{bdd.vars.get(k, k): bdd.vars.get(v, v)}` produces), ANY variable order — adjacent
pairs or not.  Under the code's own checks (no key is a value; every rename target is quantified
or outside the supports of both operands) the result is
`rename(Q qvars. trans ∧ source)`: a level `z` of the quantified conjunction is read at
`renOf pairs z` in the result. -/
theorem C13_image (m : Mgr) (hI : Inv m) (hoff : m.lastLen = none) (hV : VarsBij m.tbl)
    (trans source : Int) (hu : m.tbl.Mem trans) (hv : m.tbl.Mem source)
    (rn : List (Key × Key)) (qvars : List Key) (fa : Bool) (q : List Nat)
    (hq : mapToLevelE m.tbl qvars = .ok q)
    (hov : renameOverlap (resolveRename m.tbl rn) = false)
    (hnl : renameNonLevel (resolveRename m.tbl rn) = false)
    (hlv : ∀ p, p ∈ intPairs (resolveRename m.tbl rn) →
      0 ≤ p.1 ∧ p.1 < (m.nvars : Int) ∧ 0 ≤ p.2 ∧ p.2 < (m.nvars : Int))
    (htg : ∀ p, p ∈ intPairs (resolveRename m.tbl rn) → ∀ l : Nat, p.2 = (l : Int) →
      l ∈ q ∨ (¬ dependsOn m.tbl trans l ∧ ¬ dependsOn m.tbl source l)) :
    ∃ r m', image trans source rn qvars fa m = (.ok r, m') ∧ Inv m' ∧ Ext m.tbl m'.tbl ∧
      m'.tbl.Mem r ∧ Frame m m' ∧
      ∀ a, den m'.tbl r a = true ↔
        qsem fa q (fun b => den m.tbl trans b && den m.tbl source b)
          (fun z => a (renOf (intPairs (resolveRename m.tbl rn)) z)) :=
  image_spec m hI hoff hV trans source hu hv rn qvars fa q hq hov hnl hlv htg

/-- C13 (`image`, renaming and `qvars` given BY NAME): declared names, pairwise distinct keys, no
key is a value, every target quantified or outside the supports; any order. -/
theorem C13_image_names (m : Mgr) (hI : Inv m) (hoff : m.lastLen = none) (hV : VarsBij m.tbl)
    (trans source : Int) (hu : m.tbl.Mem trans) (hv : m.tbl.Mem source)
    (l : List (String × String)) (qs : List String) (fa : Bool)
    (hkeys : (l.map (·.1)).Nodup)
    (hd : ∀ p, p ∈ l → m.tbl.vars.contains p.1 = true ∧ m.tbl.vars.contains p.2 = true)
    (hqd : ∀ s, s ∈ qs → m.tbl.vars.contains s = true)
    (hov : ∀ p p', p ∈ l → p' ∈ l → p.2 ≠ p'.1)
    (htg : ∀ p, p ∈ l → p.2 ∈ qs ∨ (¬ dependsOn m.tbl trans (lvlOf m.tbl p.2) ∧
      ¬ dependsOn m.tbl source (lvlOf m.tbl p.2))) :
    ∃ r m', image trans source (l.map fun p => (Key.name p.1, Key.name p.2))
        (qs.map Key.name) fa m = (.ok r, m') ∧ Inv m' ∧ Ext m.tbl m'.tbl ∧
      m'.tbl.Mem r ∧ Frame m m' ∧
      ∀ a, den m'.tbl r a = true ↔
        qsem fa (qs.map (lvlOf m.tbl)) (fun b => den m.tbl trans b && den m.tbl source b)
          (fun z => a (renOf
            (l.map fun p => ((lvlOf m.tbl p.1 : Int), (lvlOf m.tbl p.2 : Int))) z)) :=
  image_spec_names m hI hoff hV trans source hu hv l qs fa hkeys hd hqd hov htg

/-- C13 (the renaming given BY LEVEL, pairwise distinct keys): `resolveRename` and `intPairs`
return the items themselves -/
theorem C13_rename_levels (t : Tbl) (l : List (Int × Int)) (h : (l.map (·.1)).Nodup) :
    resolveRename t (l.map fun p => (Key.lvl p.1, Key.lvl p.2)) =
      l.map (fun p => (Key.lvl p.1, Key.lvl p.2)) ∧
    intPairs (l.map fun p => (Key.lvl p.1, Key.lvl p.2)) = l :=
  intPairs_resolveRename_levels t l h

/-- non-vacuity (`C13_image_names`, both quantifier kinds): the successors of the set `x ∨ xp`
under the relation `x ↔ xp`... with names: `image(x ↔ xp, x ∨ xp, {xp: x}, {x})` returns a
reference of `Q x. (x ↔ xp) ∧ (x ∨ xp)` with `xp` renamed to `x`; for `∃` this is `x` -/
example : (∀ fa, ∃ r m', image 3 4 [(.name "xp", .name "x")] [.name "x"] fa imgM = (.ok r, m')) ∧
    ∃ r m', image 3 4 [(.name "xp", .name "x")] [.name "x"] false imgM = (.ok r, m') ∧
      ∀ a, den m'.tbl r a = a 0 := by
  have key : ∀ fa, _ := fun fa => C13_image_names imgM imgM_inv rfl imgM_varsBij 3 4
    (imgM_mem _ (by decide)) (imgM_mem _ (by decide)) [("xp", "x")] ["x"] fa (by simp)
    (by intro p hp; simp at hp; subst hp; exact ⟨imgM_contains_xp, imgM_contains_x⟩)
    (by intro s hs; simp at hs; subst hs; exact imgM_contains_x)
    (by intro p p' hp hp'; simp at hp hp'; subst hp hp'; decide)
    (by intro p hp; simp at hp; subst hp; exact Or.inl (by simp))
  refine ⟨fun fa => ?_, ?_⟩
  · obtain ⟨r, m', he, _⟩ := key fa
    exact ⟨r, m', he⟩
  · obtain ⟨r, m', he, _, _, _, _, hd⟩ := key false
    refine ⟨r, m', he, fun a => bool_eq_of_iff ?_⟩
    rw [hd a]
    simp only [List.map, lvlOf_eq imgM_vars_x, lvlOf_eq imgM_vars_xp]
    have e1 : renOf [(((1 : Nat) : Int), ((0 : Nat) : Int))] 1 = 0 := by decide
    have e1' : renOf [(1, 0)] 1 = 0 := by decide
    constructor
    · rintro ⟨b, hb, hf⟩
      have hb1 := hb 1 (by simp)
      dsimp only at hb1 hf
      rw [e1] at hb1
      rw [imgM_den3, imgM_den4] at hf
      rw [← hb1]
      revert hf
      cases b 0 <;> cases b 1 <;> simp
    · intro ha
      refine ⟨upd (fun z => a (renOf [(((1 : Nat) : Int), ((0 : Nat) : Int))] z)) 0 true,
        agreeOff_upd (by simp) true (AgreeOff.refl _ _), ?_⟩
      dsimp only
      rw [imgM_den3, imgM_den4]
      simp [upd, e1', ha]

/-- non-vacuity (`C13_image`, keys as levels; `C13_rename_levels`) -/
example : ∀ fa, ∃ r m', image 3 4 [(.lvl 1, .lvl 0)] [.lvl 0] fa imgM = (.ok r, m') ∧
    ∀ a, den m'.tbl r a = true ↔
      qsem fa [0] (fun b => den imgM.tbl 3 b && den imgM.tbl 4 b)
        (fun z => a (renOf [(1, 0)] z)) := by
  intro fa
  obtain ⟨hres, hip⟩ := C13_rename_levels imgM.tbl [(1, 0)] (by simp)
  simp only [List.map] at hres hip
  obtain ⟨r, m', he, _, _, _, _, hd⟩ := C13_image imgM imgM_inv rfl imgM_varsBij 3 4
    (imgM_mem _ (by decide)) (imgM_mem _ (by decide)) [(.lvl 1, .lvl 0)] [.lvl 0] fa [0]
    (by rfl) (by rw [hres]; decide) (by rw [hres]; decide)
    (by
      rw [hres, hip]; intro p hp; simp at hp; subst hp; rw [imgM_nvars']; decide)
    (by
      rw [hres, hip]; intro p hp l hl; simp at hp; subst hp
      simp only at hl
      left
      have : l = 0 := by omega
      subst this; simp)
  rw [hres, hip] at hd
  exact ⟨r, m', he, hd⟩

/-- non-vacuity (`C13_image` for a pair that is NOT adjacent): order `a < b < c`; `image(c, TRUE,
{c: a}, {})` (levels `{2: 0}`, `|2 - 0| = 2`: the code only warns) returns a reference of `a` -/
example : ∃ r m', image 2 1 [(.lvl 2, .lvl 0)] [] false imgM3 = (.ok r, m') ∧
    ∀ a, den m'.tbl r a = a 0 := by
  obtain ⟨hres, hip⟩ := C13_rename_levels imgM3.tbl [(2, 0)] (by simp)
  simp only [List.map] at hres hip
  have hnd : ∀ u : Int, (∀ a x, den imgM3.tbl u (upd a 0 x) = den imgM3.tbl u a) →
      ¬ dependsOn imgM3.tbl u 0 := by
    rintro u h ⟨a, hne⟩
    exact hne (by rw [h, h])
  obtain ⟨r, m', he, _, _, _, _, hd⟩ := C13_image imgM3 imgM3_inv rfl imgM3_varsBij 2 1
    (imgM3_mem _ (by decide)) (imgM3_mem _ (by decide)) [(.lvl 2, .lvl 0)] [] false []
    (by rfl) (by rw [hres]; decide) (by rw [hres]; decide)
    (by
      rw [hres, hip]; intro p hp; simp at hp; subst hp; rw [imgM3_nvars']; decide)
    (by
      rw [hres, hip]; intro p hp l hl; simp at hp; subst hp
      simp only at hl
      have : l = 0 := by omega
      subst this
      right
      exact ⟨hnd 2 (fun a x => by rw [imgM3_den2, imgM3_den2]; simp [upd]),
        hnd 1 (fun a x => by rw [den_one, den_one])⟩)
  rw [hres, hip] at hd
  refine ⟨r, m', he, fun a => bool_eq_of_iff ?_⟩
  rw [hd a]
  have e2 : renOf [(2, 0)] 2 = 0 := by decide
  constructor
  · rintro ⟨b, hb, hf⟩
    have hb2 := hb 2 (by simp)
    dsimp only at hb2 hf
    rw [imgM3_den2, den_one] at hf
    rw [e2] at hb2
    rw [← hb2]
    simpa using hf
  · intro ha
    refine ⟨_, AgreeOff.refl _ _, ?_⟩
    dsimp only
    rw [imgM3_den2, den_one, e2, ha]
    rfl

/-- C13 (`image` refuses): AssertionError, manager untouched, (1) when a key of the renaming is
also a value, (2) when a rename target is in the support of an operand and is not quantified -/
theorem C13_image_refuses (m : Mgr) (hI : Inv m) (hV : VarsBij m.tbl)
    (trans source : Int) (hu : m.tbl.Mem trans) (hv : m.tbl.Mem source)
    (rn : List (Key × Key)) (qvars : List Key) (fa : Bool) (q : List Nat)
    (hq : mapToLevelE m.tbl qvars = .ok q) :
    (renameOverlap (resolveRename m.tbl rn) = true →
      image trans source rn qvars fa m = (.error .assertion, m)) ∧
    (renameOverlap (resolveRename m.tbl rn) = false →
      renameNonLevel (resolveRename m.tbl rn) = false →
      (∀ p, p ∈ intPairs (resolveRename m.tbl rn) →
        0 ≤ p.1 ∧ p.1 < (m.nvars : Int) ∧ 0 ≤ p.2 ∧ p.2 < (m.nvars : Int)) →
      ∀ (p : Int × Int) (l : Nat), p ∈ intPairs (resolveRename m.tbl rn) → p.2 = (l : Int) →
        l ∉ q → (dependsOn m.tbl trans l ∨ dependsOn m.tbl source l) →
        image trans source rn qvars fa m = (.error .assertion, m)) :=
  ⟨image_refuses_overlap m hV trans source rn qvars fa q hq,
   fun hov hnl hlv p l hp hl hlq hdep =>
     image_refuses_target m hI hV trans source hu hv rn qvars fa q hq hov hnl hlv p hp l hl hlq
       hdep⟩

/-- non-vacuity (`C13_image_refuses`): (1) `{x: xp, xp: x}` overlaps; (2) `{xp: x}` with `x` in
the support of `trans = (x ↔ xp)` and nothing quantified -/
example : image 3 4 [(.lvl 0, .lvl 1), (.lvl 1, .lvl 0)] [] false imgM = (.error .assertion, imgM) ∧
    image 3 4 [(.lvl 1, .lvl 0)] [] false imgM = (.error .assertion, imgM) := by
  constructor
  · exact (C13_image_refuses imgM imgM_inv imgM_varsBij 3 4 (imgM_mem _ (by decide))
      (imgM_mem _ (by decide)) _ [] false [] (by rfl)).1 (by decide)
  · obtain ⟨hres, hip⟩ := C13_rename_levels imgM.tbl [(1, 0)] (by simp)
    simp only [List.map] at hres hip
    refine (C13_image_refuses imgM imgM_inv imgM_varsBij 3 4 (imgM_mem _ (by decide))
      (imgM_mem _ (by decide)) [(.lvl 1, .lvl 0)] [] false [] (by rfl)).2
      (by rw [hres]; decide) (by rw [hres]; decide) ?_ (1, 0) 0 ?_ rfl (by simp)
      (Or.inl imgM_dep3_0)
    · rw [hres, hip]; intro p hp; simp at hp; subst hp; rw [imgM_nvars']; decide
    · rw [hres, hip]; simp

/-! ### `preimage` -/

/-- the hypotheses shared by the full statement and its proved part: the documented
preconditions of `preimage` (pairs of declared levels, each adjacent, keys disjoint from values;
no level is renamed to an undeclared name) plus "no two keys with the same value" -/
structure PreimagePre (m : Mgr) (rn : List (Key × Key)) : Prop where
  nonempty : resolveRename m.tbl rn ≠ [] → 0 < m.nvars
  noOverlap : renameOverlap (resolveRename m.tbl rn) = false
  noName : badKeys (resolveRename m.tbl rn) = []
  levels : ∀ p, p ∈ intPairs (resolveRename m.tbl rn) →
    0 ≤ p.1 ∧ p.1 < (m.nvars : Int) ∧ 0 ≤ p.2 ∧ p.2 < (m.nvars : Int)
  adjacent : ∀ p, p ∈ intPairs (resolveRename m.tbl rn) → (p.1 - p.2).natAbs = 1
  injective : ∀ p p', p ∈ intPairs (resolveRename m.tbl rn) →
    p' ∈ intPairs (resolveRename m.tbl rn) → p.2 = p'.2 → p.1 = p'.1

/-- what `preimage` is documented to return: `Q qvars. trans ∧ rename(target)` -/
def PreimagePost (m : Mgr) (trans target : Int) (rn : List (Key × Key)) (qvars : List Key)
    (fa : Bool) (q : List Nat) : Prop :=
  ∃ r m', preimage trans target rn qvars fa m = (.ok r, m') ∧ Inv m' ∧ Ext m.tbl m'.tbl ∧
    m'.tbl.Mem r ∧ Frame m m' ∧
    ∀ a, den m'.tbl r a = true ↔
      qsem fa q (fun b => den m.tbl trans b && den m.tbl target
        (fun j => b (renOf (intPairs (resolveRename m.tbl rn)) j))) a

/-- C13 (`preimage(trans, target, rename, qvars, bdd, forall)`), both quantifier kinds, keys as
names or levels — PROVED PART: under the documented preconditions AND the extra hypothesis that
the target is independent of every value of the renaming, the result is
`Q qvars. trans ∧ rename(target)`. -/
theorem C13_preimage_partial (m : Mgr) (hI : Inv m) (hoff : m.lastLen = none)
    (hV : VarsBij m.tbl) (trans target : Int) (hu : m.tbl.Mem trans) (hv : m.tbl.Mem target)
    (rn : List (Key × Key)) (qvars : List Key) (fa : Bool) (q : List Nat)
    (hq : mapToLevelE m.tbl qvars = .ok q) (hpre : PreimagePre m rn)
    (hind : ∀ p, p ∈ intPairs (resolveRename m.tbl rn) → ∀ l : Nat, p.2 = (l : Int) →
      ¬ dependsOn m.tbl target l) :
    PreimagePost m trans target rn qvars fa q :=
  preimage_spec_partial m hI hoff hV trans target hu hv rn qvars fa q hq hpre.nonempty
    hpre.noOverlap hpre.noName hpre.levels hpre.adjacent hpre.injective hind

/-- C13 (`preimage`, renaming and `qvars` given BY NAME) — proved part: declared names, pairwise
distinct keys, no key is a value, partners adjacent, no two keys with the same value, and the
target independent of every value of the renaming -/
theorem C13_preimage_names_partial (m : Mgr) (hI : Inv m) (hoff : m.lastLen = none)
    (hV : VarsBij m.tbl) (trans target : Int) (hu : m.tbl.Mem trans) (hv : m.tbl.Mem target)
    (l : List (String × String)) (qs : List String) (fa : Bool)
    (hkeys : (l.map (·.1)).Nodup)
    (hd : ∀ p, p ∈ l → m.tbl.vars.contains p.1 = true ∧ m.tbl.vars.contains p.2 = true)
    (hqd : ∀ s, s ∈ qs → m.tbl.vars.contains s = true)
    (hov : ∀ p p', p ∈ l → p' ∈ l → p.2 ≠ p'.1)
    (hadj : ∀ p, p ∈ l → ((lvlOf m.tbl p.1 : Int) - (lvlOf m.tbl p.2 : Int)).natAbs = 1)
    (hinj : ∀ p p', p ∈ l → p' ∈ l → p.2 = p'.2 → p.1 = p'.1)
    (hind : ∀ p, p ∈ l → ¬ dependsOn m.tbl target (lvlOf m.tbl p.2)) :
    ∃ r m', preimage trans target (l.map fun p => (Key.name p.1, Key.name p.2))
        (qs.map Key.name) fa m = (.ok r, m') ∧ Inv m' ∧ Ext m.tbl m'.tbl ∧
      m'.tbl.Mem r ∧ Frame m m' ∧
      ∀ a, den m'.tbl r a = true ↔
        qsem fa (qs.map (lvlOf m.tbl)) (fun b => den m.tbl trans b && den m.tbl target
          (fun j => b (renOf
            (l.map fun p => ((lvlOf m.tbl p.1 : Int), (lvlOf m.tbl p.2 : Int))) j))) a :=
  preimage_spec_partial_names m hI hoff hV trans target hu hv l qs fa hkeys hd hqd hov hadj hinj
    hind

/-- non-vacuity (`C13_preimage_partial`, `C13_preimage_names_partial`, both quantifier kinds):
`preimage(x ↔ xp, x, {x: xp}, {xp})`: the target `x` does not depend on `xp`; for `∃` the result
is `∃ xp. (x ↔ xp) ∧ xp`, that is `x` -/
example : (∀ fa, PreimagePost imgM 3 5 [(.lvl 0, .lvl 1)] [.lvl 1] fa [1]) ∧
    ∃ r m', preimage 3 5 [(.name "x", .name "xp")] [.name "xp"] false imgM = (.ok r, m') ∧
      ∀ a, den m'.tbl r a = a 0 := by
  constructor
  · intro fa
    obtain ⟨hres, hip⟩ := C13_rename_levels imgM.tbl [(0, 1)] (by simp)
    simp only [List.map] at hres hip
    refine C13_preimage_partial imgM imgM_inv rfl imgM_varsBij 3 5 (imgM_mem _ (by decide))
      (imgM_mem _ (by decide)) [(.lvl 0, .lvl 1)] [.lvl 1] fa [1] (by rfl) ?_ ?_
    · refine ⟨fun _ => by rw [imgM_nvars']; omega, by rw [hres]; decide, by rw [hres]; decide,
        ?_, ?_, ?_⟩
      · rw [hres, hip]; intro p hp; simp at hp; subst hp; rw [imgM_nvars']; decide
      · rw [hres, hip]; intro p hp; simp at hp; subst hp; decide
      · rw [hres, hip]; intro p p' hp hp' _; simp at hp hp'; rw [hp, hp']
    · rw [hres, hip]; intro p hp l hl; simp at hp; subst hp
      simp only at hl
      have : l = 1 := by omega
      subst this
      exact imgM_indep5_1
  · obtain ⟨r, m', he, _, _, _, _, hd⟩ := C13_preimage_names_partial imgM imgM_inv rfl
      imgM_varsBij 3 5 (imgM_mem _ (by decide)) (imgM_mem _ (by decide)) [("x", "xp")] ["xp"]
      false (by simp)
      (by intro p hp; simp at hp; subst hp; exact ⟨imgM_contains_x, imgM_contains_xp⟩)
      (by intro s hs; simp at hs; subst hs; exact imgM_contains_xp)
      (by intro p p' hp hp'; simp at hp hp'; subst hp hp'; decide)
      (by
        intro p hp; simp at hp; subst hp
        rw [lvlOf_eq imgM_vars_x, lvlOf_eq imgM_vars_xp]; decide)
      (by intro p p' hp hp' _; simp at hp hp'; rw [hp, hp'])
      (by
        intro p hp; simp at hp; subst hp
        rw [lvlOf_eq imgM_vars_xp]; exact imgM_indep5_1)
    refine ⟨r, m', he, fun a => bool_eq_of_iff ?_⟩
    rw [hd a]
    simp only [List.map, lvlOf_eq imgM_vars_x, lvlOf_eq imgM_vars_xp]
    have e0 : renOf [(((0 : Nat) : Int), ((1 : Nat) : Int))] 0 = 1 := by decide
    have e0' : renOf [(0, 1)] 0 = 1 := by decide
    constructor
    · rintro ⟨b, hb, hf⟩
      have hb0 := hb 0 (by simp)
      dsimp only at hf
      rw [imgM_den3, imgM_den5, e0] at hf
      rw [← hb0]
      revert hf
      cases b 0 <;> cases b 1 <;> simp
    · intro ha
      refine ⟨upd a 1 true, agreeOff_upd (by simp) true (AgreeOff.refl _ _), ?_⟩
      dsimp only
      rw [imgM_den3, imgM_den5]
      simp [upd, e0', ha]

/-- the preconditions of `preimage` WITHOUT "partners are neighbours": pairs of declared levels,
keys disjoint from values, no level renamed to an undeclared name -/
structure PreimagePreAny (m : Mgr) (rn : List (Key × Key)) : Prop where
  nonempty : resolveRename m.tbl rn ≠ [] → 0 < m.nvars
  noOverlap : renameOverlap (resolveRename m.tbl rn) = false
  noName : badKeys (resolveRename m.tbl rn) = []
  levels : ∀ p, p ∈ intPairs (resolveRename m.tbl rn) →
    0 ≤ p.1 ∧ p.1 < (m.nvars : Int) ∧ 0 ≤ p.2 ∧ p.2 < (m.nvars : Int)

/-- C13 (`preimage`, ANY variable order — repair of finding F4d): the hypotheses of
`C13_preimage_partial` minus adjacency (no two keys with the same value; the target independent
of every value of the renaming).  When the partners are neighbours the body runs the recursion
`_image`; otherwise it renames the target (`_copy_bdd` with the full level map), conjoins
(`ite(trans, r, FALSE)`) and quantifies.  Either way the result is
`Q qvars. trans ∧ rename(target)`. -/
theorem C13_preimage_any_order (m : Mgr) (hI : Inv m) (hoff : m.lastLen = none)
    (hV : VarsBij m.tbl) (trans target : Int) (hu : m.tbl.Mem trans) (hv : m.tbl.Mem target)
    (rn : List (Key × Key)) (qvars : List Key) (fa : Bool) (q : List Nat)
    (hq : mapToLevelE m.tbl qvars = .ok q) (hpre : PreimagePreAny m rn)
    (hinj : ∀ p p', p ∈ intPairs (resolveRename m.tbl rn) →
      p' ∈ intPairs (resolveRename m.tbl rn) → p.2 = p'.2 → p.1 = p'.1)
    (hind : ∀ p, p ∈ intPairs (resolveRename m.tbl rn) → ∀ l : Nat, p.2 = (l : Int) →
      ¬ dependsOn m.tbl target l) :
    PreimagePost m trans target rn qvars fa q :=
  preimage_spec_any_order m hI hoff hV trans target hu hv rn qvars fa q hq hpre.nonempty
    hpre.noOverlap hpre.noName hpre.levels hinj hind

/-- C13 (`preimage`, some partners NOT neighbours): on this branch the FULL statement holds —
the literal preconditions suffice; neither injectivity of the renaming nor independence of the
target from the values is needed (findings F5 / F5b live in the recursion `_image`, which is
only run when all partners are neighbours) -/
theorem C13_preimage_not_neighbours (m : Mgr) (hI : Inv m) (hoff : m.lastLen = none)
    (hV : VarsBij m.tbl) (trans target : Int) (hu : m.tbl.Mem trans) (hv : m.tbl.Mem target)
    (rn : List (Key × Key)) (qvars : List Key) (fa : Bool) (q : List Nat)
    (hq : mapToLevelE m.tbl qvars = .ok q) (hpre : PreimagePreAny m rn)
    (hnadj : ¬ ∀ p, p ∈ intPairs (resolveRename m.tbl rn) → (p.1 - p.2).natAbs = 1) :
    PreimagePost m trans target rn qvars fa q :=
  preimage_spec_fallback m hI hoff hV trans target hu hv rn qvars fa q hq hpre.nonempty
    hpre.noOverlap hpre.noName hpre.levels hnadj

/-- non-vacuity (`C13_preimage_any_order`, `C13_preimage_not_neighbours`): order `a < b < c`;
`preimage(TRUE, c, {c: a}, {a})` — levels `{2: 0}`, `|2 - 0| = 2`: not neighbours; the target
`c` does not depend on `a` -/
example : ∀ fa, PreimagePost imgM3 1 2 [(.lvl 2, .lvl 0)] [.lvl 0] fa [0] := by
  intro fa
  obtain ⟨hres, hip⟩ := C13_rename_levels imgM3.tbl [(2, 0)] (by simp)
  simp only [List.map] at hres hip
  have hpre : PreimagePreAny imgM3 [(.lvl 2, .lvl 0)] := by
    refine ⟨fun _ => by rw [imgM3_nvars']; omega, by rw [hres]; decide, by rw [hres]; decide, ?_⟩
    rw [hres, hip]; intro p hp; simp at hp; subst hp; rw [imgM3_nvars']; decide
  have hnadj : ¬ ∀ p, p ∈ intPairs (resolveRename imgM3.tbl [(.lvl 2, .lvl 0)]) →
      (p.1 - p.2).natAbs = 1 := by
    rw [hres, hip]
    intro h
    have := h (2, 0) (by simp)
    revert this
    decide
  have h1 := C13_preimage_not_neighbours imgM3 imgM3_inv rfl imgM3_varsBij 1 2 (mem_one _)
    (imgM3_mem _ (by decide)) [(.lvl 2, .lvl 0)] [.lvl 0] fa [0] (by rfl) hpre hnadj
  have h2 := C13_preimage_any_order imgM3 imgM3_inv rfl imgM3_varsBij 1 2 (mem_one _)
    (imgM3_mem _ (by decide)) [(.lvl 2, .lvl 0)] [.lvl 0] fa [0] (by rfl) hpre
    (by rw [hres, hip]; intro p p' hp hp' _; simp at hp hp'; rw [hp, hp'])
    (by
      rw [hres, hip]; intro p hp l hl; simp at hp; subst hp
      simp only at hl
      have : l = 0 := by omega
      subst this
      rintro ⟨a, hne⟩
      apply hne
      rw [imgM3_den2, imgM3_den2]
      simp [upd])
  exact h2

/-- C13 (`preimage`) — THE FULL STATEMENT (repair of findings F5 / F5b): under the literal
preconditions alone (`PreimagePreAny`: pairs of declared levels, keys disjoint from values, no
level renamed to an undeclared name) — ANY variable order, ANY renaming (two keys may share a
value), ANY target (it may depend on the values of the renaming) — the result is
`Q qvars. trans ∧ rename(target)`.  `_preimage_of` runs the fused recursion `_image` only when
its test `fused` holds — partners neighbours, no two keys with the same value, no value in the
support of the target: exactly the three hypotheses of `C13_preimage_partial`, under which the
recursion is right — and renames, conjoins, quantifies otherwise
(`C13_preimage_not_neighbours`' argument: `_copy_bdd` is a substitution). -/
theorem C13_preimage (m : Mgr) (hI : Inv m) (hoff : m.lastLen = none)
    (hV : VarsBij m.tbl) (trans target : Int) (hu : m.tbl.Mem trans) (hv : m.tbl.Mem target)
    (rn : List (Key × Key)) (qvars : List Key) (fa : Bool) (q : List Nat)
    (hq : mapToLevelE m.tbl qvars = .ok q) (hpre : PreimagePreAny m rn) :
    PreimagePost m trans target rn qvars fa q :=
  preimage_spec_full m hI hoff hV trans target hu hv rn qvars fa q hq hpre.nonempty
    hpre.noOverlap hpre.noName hpre.levels

/-- the statement of the earlier rounds (documented preconditions incl. "partners neighbours" and
"no two keys with the same value"; no hypothesis on the target), which was FALSE of the code
before the repair (findings F5, F5b) -/
def C13_preimage_statement : Prop :=
  ∀ (m : Mgr), Inv m → m.lastLen = none → VarsBij m.tbl →
  ∀ (trans target : Int), m.tbl.Mem trans → m.tbl.Mem target →
  ∀ (rn : List (Key × Key)) (qvars : List Key) (fa : Bool) (q : List Nat),
    mapToLevelE m.tbl qvars = .ok q → PreimagePre m rn →
    PreimagePost m trans target rn qvars fa q

/-- it holds now -/
theorem C13_preimage_statement_holds : C13_preimage_statement :=
  fun m hI hoff hV trans target hu hv rn qvars fa q hq hpre =>
    C13_preimage m hI hoff hV trans target hu hv rn qvars fa q hq
      ⟨hpre.nonempty, hpre.noOverlap, hpre.noName, hpre.levels⟩

/-- the former F5 witness.  Order `x < xp`; `trans = ¬x ∧ ¬xp`; `target = x xor xp` (depends on
the value `xp` of the renaming: the test `fused` fails); `rename = {x: xp}`; `qvars = {xp}`;
existential.  Documented meaning: `∃ xp. ¬x ∧ ¬xp ∧ (xp xor xp)` = FALSE — and that is what the
call returns (before the repair: `¬x`, `imgM_F5_run` is the run of the recursion `_image`). -/
example : ∃ r m', preimage (-4) (-3) [(.lvl 0, .lvl 1)] [.lvl 1] false imgM = (.ok r, m') ∧
    ∀ a, den m'.tbl r a = false := by
  have hres : resolveRename imgM.tbl [(.lvl 0, .lvl 1)] = [(.lvl 0, .lvl 1)] := by decide
  have hpairs : intPairs [(Key.lvl 0, Key.lvl 1)] = [(0, 1)] := by decide
  have hq : mapToLevelE imgM.tbl [.lvl 1] = .ok [1] := by rfl
  have hpre : PreimagePreAny imgM [(.lvl 0, .lvl 1)] := by
    refine ⟨fun _ => by rw [imgM_nvars']; omega, by rw [hres]; decide, by rw [hres]; decide, ?_⟩
    intro p hp
    rw [hres, hpairs] at hp
    simp only [List.mem_singleton] at hp
    subst hp
    rw [imgM_nvars']
    decide
  obtain ⟨r, m', he, _, _, _, _, hd⟩ := C13_preimage imgM imgM_inv rfl imgM_varsBij (-4) (-3)
    (imgM_mem _ (by decide)) (imgM_mem _ (by decide)) [(.lvl 0, .lvl 1)] [.lvl 1] false [1]
    hq hpre
  refine ⟨r, m', he, fun a => ?_⟩
  cases hr : den m'.tbl r a with
  | false => rfl
  | true =>
    exfalso
    have h2 := (hd a).mp hr
    refine qsem_const_false false [1] _ _ ?_ h2
    intro b
    have hW := imgM_inv.wf.toWF
    rw [den_neg imgM.tbl hW 3 _ (imgM_mem _ (by decide)), imgM_den3, hres, hpairs]
    have e0 : renOf [(0, 1)] 0 = 1 := by decide
    have e1 : renOf [(0, 1)] 1 = 1 := by decide
    simp [e0, e1]

/-- the former F5b witness.  Order `a < b < c`; `trans` = TRUE; `target = a ∧ ¬c`;
`rename = {a: b, c: b}` (two keys with the same value: the test `fused` fails); `qvars = {b}`;
existential.  Documented meaning: `∃ b. b ∧ ¬b` = FALSE — and that is what the call returns
(before the repair: TRUE, `imgM3_noninj_run`). -/
example : ∃ r m', preimage 1 (-3) [(.lvl 0, .lvl 1), (.lvl 2, .lvl 1)] [.lvl 1] false imgM3 =
      (.ok r, m') ∧ ∀ a, den m'.tbl r a = false := by
  obtain ⟨hres, hpairs⟩ := C13_rename_levels imgM3.tbl [(0, 1), (2, 1)] (by simp)
  simp only [List.map] at hres hpairs
  have hq : mapToLevelE imgM3.tbl [.lvl 1] = .ok [1] := by rfl
  have hW := imgM3_inv.wf.toWF
  have hpre : PreimagePreAny imgM3 [(.lvl 0, .lvl 1), (.lvl 2, .lvl 1)] := by
    refine ⟨fun _ => by rw [imgM3_nvars']; omega, by rw [hres]; decide, by rw [hres]; decide, ?_⟩
    rw [hres, hpairs]; intro p hp; simp at hp
    rcases hp with rfl | rfl <;> (rw [imgM3_nvars']; decide)
  obtain ⟨r, m', he, _, _, _, _, hd⟩ := C13_preimage imgM3 imgM3_inv rfl imgM3_varsBij 1 (-3)
    (mem_one _) (imgM3_mem _ (by decide)) [(.lvl 0, .lvl 1), (.lvl 2, .lvl 1)] [.lvl 1] false
    [1] hq hpre
  refine ⟨r, m', he, fun a => ?_⟩
  cases hr : den m'.tbl r a with
  | false => rfl
  | true =>
    exfalso
    have h2 := (hd a).mp hr
    refine qsem_const_false false [1] _ _ ?_ h2
    intro b
    rw [den_neg imgM3.tbl hW 3 _ (imgM3_mem _ (by decide)), imgM3_den3, hres, hpairs]
    have e0 : renOf [(0, 1), (2, 1)] 0 = 1 := by decide
    have e2 : renOf [(0, 1), (2, 1)] 2 = 1 := by decide
    simp [e0, e2]

end DD
