/-
  DDProps.C08Values2 — what the methods of `dd.autoref.BDD` RETURN: `var`, `ite`, `apply`
  (binary connectives, the ternary conditional, the quantifier aliases), `quantify` / `exist` /
  `forall`, `let` in its three forms (Boolean values / names / `Function`s), `cube`, `add_expr`,
  `support`.  Each theorem holds in BOTH modes (`off = true`: reordering not enabled, every state
  of the mode; `off = false`: reordering may be enabled and may fire inside the call, C09 — with
  `Two off a`, at least two declared variables).

  Shape of every statement (`AValue off a h x Doc`, DDProofs/AutoValues2.lean): for live operands
  and declared names the method RETURNS a node `r`; the new `Function` `h` sits on `r`; `r` is a
  stored node whose function of the variable NAMES is the documented one (`Doc`, written out in
  each statement, relative to the operands as they were before the call); the invariant `AInv`
  (count equation included) holds afterwards; no other handle is touched; every `Function` that
  was alive keeps its meaning.  (`count` / `pick`: `C10_function_count`, `C10_function_pick`,
  `C08_function_readonly` in DDProps/ApiAuto.lean.)
-/
import DDProps.C08Values
import DDProofs.AutoValues2
open Std

namespace DD

variable {off : Bool}

/-- `AValue`, spelled out (what every theorem below gives) -/
theorem C08_value_unfold (a : AMgr) (h : Nat) (x : AM Int) (Doc : Tbl → Int → Tbl → Prop) :
    AValue off a h x Doc ↔
    ∃ (r : Int) (a' : AMgr), x a = (.ok r, a') ∧ a'.handles[h]? = some r ∧
      Doc a.m.tbl r a'.m.tbl ∧ AInv off a' ∧
      (∀ j : Nat, j ≠ h → a'.handles[j]? = a.handles[j]?) ∧
      (∀ (j : Nat) (w : Int), a.handles[j]? = some w →
        a'.m.tbl.Mem w ∧ ∀ σ, denN a'.m.tbl w σ = denN a.m.tbl w σ) := Iff.rfl

/-- `bdd.var(name)` for a declared name: the projection on that name -/
theorem C08_var_value (a : AMgr) (hi : AInv off a) (ht : Two off a) (name : String) (h : Nat)
    (hf : a.handles.contains h = false) (hd : a.m.tbl.vars.contains name = true) :
    AValue off a h (aVar name h) (fun _ r t' => t'.Mem r ∧ ∀ σ, denN t' r σ = σ name) :=
  aVar_value a hi ht name h hf hd

/-- `bdd.ite(g, u, v)` (C01) -/
theorem C08_ite_value (a : AMgr) (hi : AInv off a) (ht : Two off a) (jg ju jv h : Nat)
    (hf : a.handles.contains h = false) (g u v : Int)
    (hg : a.handles[jg]? = some g) (hu : a.handles[ju]? = some u) (hv : a.handles[jv]? = some v) :
    AValue off a h (aIte jg ju jv h) (fun t r t' => t'.Mem r ∧
      ∀ σ, denN t' r σ = if denN t g σ then denN t u σ else denN t v σ) :=
  aIte_value a hi ht jg ju jv h hf g u v hg hu hv

/-- `bdd.apply(op, u, v)` for every binary propositional alias (C01) -/
theorem C08_apply_binary_value (a : AMgr) (hi : AInv off a) (ht : Two off a) (op : String) (c : Conn)
    (hc : docConn op = some c) (h2 : c.arity = 2) (hq1 : c ≠ .forall_) (hq2 : c ≠ .exists_)
    (hall : Gen.allOps.contains op = true) (ju jv h : Nat) (hf : a.handles.contains h = false)
    (u v : Int) (hu : a.handles[ju]? = some u) (hv : a.handles[jv]? = some v) :
    AValue off a h (aApply op ju (some jv) none h) (fun t r t' => t'.Mem r ∧
      ∀ σ, denN t' r σ = c.eval (denN t u σ) (denN t v σ) false) :=
  aApply_binary_value a hi ht op c hc h2 hq1 hq2 hall ju jv h hf u v hu hv

/-- `bdd.apply('ite', u, v, w)` (C01) -/
theorem C08_apply_ite_value (a : AMgr) (hi : AInv off a) (ht : Two off a) (op : String)
    (hc : docConn op = some .ite) (hall : Gen.allOps.contains op = true) (ju jv jw h : Nat)
    (hf : a.handles.contains h = false) (u v w : Int) (hu : a.handles[ju]? = some u)
    (hv : a.handles[jv]? = some v) (hw : a.handles[jw]? = some w) :
    AValue off a h (aApply op ju (some jv) (some jw) h) (fun t r t' => t'.Mem r ∧
      ∀ σ, denN t' r σ = if denN t u σ then denN t v σ else denN t w σ) :=
  aApply_ite_value a hi ht op hc hall ju jv jw h hf u v w hu hv hw

/-- `bdd.apply(op, u, v)` with a quantifier alias (`\A`, `\E`, `forall`, `exists`; C03): `v` is
quantified over `names` = the answer of `support(u)` -/
theorem C08_apply_quant_value (a : AMgr) (hi : AInv off a) (ht : Two off a) (op : String) (c : Conn)
    (hc : docConn op = some c) (hq : c = .forall_ ∨ c = .exists_)
    (hall : Gen.allOps.contains op = true) (ju jv h : Nat) (hf : a.handles.contains h = false)
    (u v : Int) (hu : a.handles[ju]? = some u) (hv : a.handles[jv]? = some v) :
    ∃ names, support a.m.tbl u = .ok names ∧
      AValue off a h (aApply op ju (some jv) none h) (fun t r t' => t'.Mem r ∧
        ∀ σ, denN t' r σ = true ↔ qsemN (decide (c = .forall_)) names (denN t v) σ) :=
  aApply_quant_value a hi ht op c hc hq hall ju jv h hf u v hu hv

/-- `bdd.quantify(u, names, forall)` = `bdd.exist(names, u)` / `bdd.forall(names, u)` over
declared names (C03): `qsemN false` = "some assignment that differs from σ only on `names`
satisfies `u`", `qsemN true` = "every such assignment" -/
theorem C08_quantify_value (a : AMgr) (hi : AInv off a) (ht : Two off a) (ju h : Nat)
    (hf : a.handles.contains h = false) (u : Int) (hu : a.handles[ju]? = some u) (fa : Bool)
    (names : List String) (hd : ∀ s ∈ names, a.m.tbl.vars.contains s = true) :
    AValue off a h (aQuantify ju (names.map Key.name) fa h) (fun t r t' => t'.Mem r ∧
      ∀ σ, denN t' r σ = true ↔ qsemN fa names (denN t u) σ) :=
  aQuantify_value a hi ht ju h hf u hu fa names hd

/-- `Function.exist` / `Function.forall` (the mixin methods): the same -/
theorem C08_exist_forall_value (a : AMgr) (hi : AInv off a) (ht : Two off a) (ju h : Nat)
    (hf : a.handles.contains h = false) (u : Int) (hu : a.handles[ju]? = some u)
    (names : List String) (hd : ∀ s ∈ names, a.m.tbl.vars.contains s = true) :
    AValue off a h (fExist ju names h) (fun t r t' => t'.Mem r ∧
      ∀ σ, denN t' r σ = true ↔ ∃ τ : AsgN, (∀ s, s ∉ names → τ s = σ s) ∧ denN t u τ = true) ∧
    AValue off a h (fForall ju names h) (fun t r t' => t'.Mem r ∧
      ∀ σ, denN t' r σ = true ↔ ∀ τ : AsgN, (∀ s, s ∉ names → τ s = σ s) → denN t u τ = true) :=
  ⟨aQuantify_value a hi ht ju h hf u hu false names hd, aQuantify_value a hi ht ju h hf u hu true names hd⟩

/-- `bdd.let({name: bool}, u)` (C04, cofactor): `u` read under σ overridden by the dictionary -/
theorem C08_let_bools_value (a : AMgr) (hi : AInv off a) (ht : Two off a) (ju h : Nat)
    (hf : a.handles.contains h = false) (u : Int) (hu : a.handles[ju]? = some u)
    (vals : List (String × Bool)) (hne : vals ≠ [])
    (hd : ∀ p ∈ vals, a.m.tbl.vars.contains p.1 = true) :
    ∃ r a', aLet (.bools (boolKeys vals)) ju h a = (.ok (r, false), a') ∧
      AResult off a h (fun t r t' => t'.Mem r ∧ ∀ σ, denN t' r σ = denN t u (ovrN vals σ)) r a' :=
  aLet_bools_value a hi ht ju h hf u hu vals hne hd

/-- `bdd.let({name: name'}, u)` (C04, rename; the targets declared): every variable is read at its
target name -/
theorem C08_let_names_value (a : AMgr) (hi : AInv off a) (ht : Two off a) (ju h : Nat)
    (hf : a.handles.contains h = false) (u : Int) (hu : a.handles[ju]? = some u)
    (dvars : List (String × String)) (hne : dvars ≠ [])
    (hd : ∀ p ∈ dvars, a.m.tbl.vars.contains p.2 = true) :
    ∃ r a', aLet (.names dvars) ju h a = (.ok (r, false), a') ∧
      AResult off a h (fun t r t' => t'.Mem r ∧
        ∀ σ, denN t' r σ = denN t u (fun s => σ (tgtName dvars s))) r a' :=
  aLet_names_value a hi ht ju h hf u hu dvars hne hd

/-- `bdd.let({name: Function}, u)` (C04, compose; names declared, values alive in this manager,
`node j` the node under the `Function` `j`): every substituted name is read as the function of its
value -/
theorem C08_let_funs_value (a : AMgr) (hi : AInv off a) (ht : Two off a) (ju h : Nat)
    (hf : a.handles.contains h = false) (u : Int) (hu : a.handles[ju]? = some u)
    (d : List (String × Nat)) (node : Nat → Int) (hne : d ≠ [])
    (hv : ∀ p ∈ d, a.handles[p.2]? = some (node p.2))
    (hd : ∀ p ∈ d, a.m.tbl.vars.contains p.1 = true) :
    ∃ r a', aLet (.funs d) ju h a = (.ok (r, false), a') ∧
      AResult off a h (fun t r t' => t'.Mem r ∧
        ∀ σ, denN t' r σ = denN t u (subN t (d.map fun p => (p.1, node p.2)) σ)) r a' :=
  aLet_funs_value a hi ht ju h hf u hu d node hne hv hd

/-- `bdd.cube({name: bool})` over declared names: the conjunction of the literals -/
theorem C08_cube_value (a : AMgr) (hi : AInv off a) (ht : Two off a) (dvars : List (String × Bool)) (h : Nat)
    (hf : a.handles.contains h = false) (hd : ∀ p ∈ dvars, a.m.tbl.vars.contains p.1 = true) :
    AValue off a h (aCube dvars h) (fun _ r t' => t'.Mem r ∧
      ∀ σ, denN t' r σ = dvars.all fun p => σ p.1 == p.2) :=
  aCube_value a hi ht dvars h hf hd

/-- `bdd.add_expr(text)` (C05): when the text parses to the tree `t`, `t` is meaningful in the
manager (names declared, `@n` stored) and every `@n` is the node of a live `Function`, the result
denotes the value the independent evaluator `evalFormula` gives to the tree -/
theorem C08_add_expr_value (a : AMgr) (hi : AInv off a) (ht : Two off a) (s : String) (t : Ast) (h : Nat)
    (hf : a.handles.contains h = false) (hp : parse (tokenize s) = some t)
    (hM : Meaningful a.m.tbl t) (hh : ∀ u ∈ t.atNodes, ∃ j : Nat, a.handles[j]? = some u) :
    AValue off a h (aAddExpr s h) (fun T r t' => t'.Mem r ∧
      ∀ σ, denN t' r σ = evalFormula T t σ) :=
  aAddExpr_value a hi ht s t h hf hp hM hh

/-- `bdd.support(f)` / `f.support` (C10): nothing changes; the answer lists the names of exactly
the levels the function depends on; all of them are declared -/
theorem C08_support_value (a : AMgr) (hi : AInv off a) (ju : Nat) (u : Int)
    (hu : a.handles[ju]? = some u) :
    ∃ ls : List Nat, (∀ i, i ∈ ls ↔ dependsOn a.m.tbl u i) ∧
      aSupport ju a = (.ok (ls.map a.m.tbl.nameOf), a) ∧
      fSupport ju a = (.ok (ls.map a.m.tbl.nameOf), a) ∧
      ∀ s ∈ ls.map a.m.tbl.nameOf, a.m.tbl.vars.contains s = true :=
  aSupport_value a hi ju u hu

/-! ### non-vacuity: the state `nvA4` (three variables `a b c`; `Function`s 0 ↦ 2 = `a`,
1 ↦ 3 = `b`, 2 ↦ −4 = `a xor b`) and the same state with reordering enabled (`nvD`) -/

theorem nvA4_decl : nvA4.m.tbl.vars.contains "a" = true ∧ nvA4.m.tbl.vars.contains "b" = true ∧
    nvA4.m.tbl.vars.contains "c" = true := by decide +kernel
theorem nvD_decl : nvD.m.tbl.vars.contains "a" = true ∧ nvD.m.tbl.vars.contains "b" = true ∧
    nvD.m.tbl.vars.contains "c" = true := by decide +kernel
theorem nvD_h1 : nvD.handles[(1 : Nat)]? = some 3 := by decide +kernel

theorem decl_one {t : Tbl} {x : String} (h : t.vars.contains x = true) :
    ∀ s ∈ [x], t.vars.contains s = true := by
  intro s hs
  simp only [List.mem_cons, List.not_mem_nil, or_false] at hs
  subst hs; exact h

/-- the formula of the `add_expr` example: a quantifier, `@n` (the node under `fb`), `~`,
connectives, `ite(…)`, a substitution -/
def nvFormula : String := "\\E a: (@3 | ~ b) & ite(a, b, TRUE) & (\\S b / a: a)"
def nvFormulaTree : Ast :=
  .quant false ["a"] (.bin .and (.bin .and (.bin .or (.num false "3") (.not (.var "b")))
    (.ite (.var "a") (.var "b") (.bool true))) (.subst [("b", "a")] (.var "a")))

theorem nvFormula_parse : parse (tokenize nvFormula) = some nvFormulaTree := by decide

theorem nvFormula_meaningful {t : Tbl} (ha : t.vars.contains "a" = true)
    (hb : t.vars.contains "b" = true) (h3 : t.Mem 3) : Meaningful t nvFormulaTree := by
  have h3' : t.Mem (if false = true then -(digitsToNat "3" : Int) else (digitsToNat "3" : Int)) := by
    have : (if false = true then -(digitsToNat "3" : Int) else (digitsToNat "3" : Int)) = 3 := by
      decide
    rw [this]; exact h3
  refine ⟨?_, ⟨by decide, ⟨by decide, ⟨by decide, h3', hb⟩, ha, hb, trivial⟩, ?_, ha⟩⟩
  · intro x hx
    simp only [List.mem_cons, List.not_mem_nil, or_false] at hx
    subst hx; exact ha
  · intro p hp
    simp only [List.mem_cons, List.not_mem_nil, or_false] at hp
    subst hp; exact hb

theorem nvFormula_atNodes : ∀ u ∈ nvFormulaTree.atNodes, u = 3 := by
  intro u hu
  simp only [nvFormulaTree, Ast.atNodes, List.append_nil, List.mem_cons,
    List.not_mem_nil, or_false] at hu
  rw [hu]; decide

/-- every theorem of this file applies to a state of each mode -/
theorem nv_values (off : Bool) (a : AMgr) (hi : AInv off a) (ht : Two off a)
    (h0 : a.handles[(0 : Nat)]? = some 2) (h1 : a.handles[(1 : Nat)]? = some 3)
    (h2 : a.handles[(2 : Nat)]? = some (-4)) (hf : a.handles.contains 3 = false)
    (hd : a.m.tbl.vars.contains "a" = true ∧ a.m.tbl.vars.contains "b" = true ∧
      a.m.tbl.vars.contains "c" = true) : True := by
  have _ := C08_var_value a hi ht "c" 3 hf hd.2.2
  have _ := C08_ite_value a hi ht 2 0 1 3 hf (-4) 2 3 h2 h0 h1
  have _ := C08_apply_binary_value a hi ht "xor" .xor (by decide) (by decide) (by decide) (by decide)
    (by decide) 0 2 3 hf 2 (-4) h0 h2
  have _ := C08_apply_ite_value a hi ht "ite" (by decide) (by decide) 2 0 1 3 hf (-4) 2 3 h2 h0 h1
  have _ := C08_apply_quant_value a hi ht "\\E" .exists_ (by decide) (Or.inr rfl) (by decide)
    0 2 3 hf 2 (-4) h0 h2
  have _ := C08_quantify_value a hi ht 2 3 hf (-4) h2 false ["a"] (decl_one hd.1)
  have _ := C08_exist_forall_value a hi ht 2 3 hf (-4) h2 ["a"] (decl_one hd.1)
  have _ := C08_let_bools_value a hi ht 2 3 hf (-4) h2 [("a", true)] (by simp)
    (by intro p hp; simp only [List.mem_cons, List.not_mem_nil, or_false] at hp; subst hp; exact hd.1)
  have _ := C08_let_names_value a hi ht 2 3 hf (-4) h2 [("a", "c")] (by simp)
    (by intro p hp; simp only [List.mem_cons, List.not_mem_nil, or_false] at hp; subst hp; exact hd.2.2)
  have _ := C08_let_funs_value a hi ht 2 3 hf (-4) h2 [("a", 1)] (fun _ => 3) (by simp)
    (by intro p hp; simp only [List.mem_cons, List.not_mem_nil, or_false] at hp; subst hp; exact h1)
    (by intro p hp; simp only [List.mem_cons, List.not_mem_nil, or_false] at hp; subst hp; exact hd.1)
  have _ := C08_cube_value a hi ht [("a", true), ("b", false)] 3 hf
    (by
      intro p hp
      simp only [List.mem_cons, List.not_mem_nil, or_false] at hp
      rcases hp with rfl | rfl
      · exact hd.1
      · exact hd.2.1)
  have _ := C08_add_expr_value a hi ht nvFormula nvFormulaTree 3 hf nvFormula_parse
    (nvFormula_meaningful hd.1 hd.2.1 (hi.hmem 1 3 h1))
    (fun u hu => ⟨1, by rw [nvFormula_atNodes u hu]; exact h1⟩)
  have _ := C08_support_value a hi 2 (-4) h2
  trivial

example := nv_values true nvA4 nvA4_inv nvA4_two nvA4_h0 nvA4_h1 nvA4_h2 nvA4_f3 nvA4_decl
example := nv_values false nvD nvD_inv nvD_two nvD_h0 nvD_h1 nvD_h2 nvD_f3 nvD_decl

/-- a derived concrete fact, reordering ENABLED: `bdd.exist(['a'], fx)` with `fx = a xor b` returns
the constant `true` (from the value theorem: under every σ some τ that differs on `a` only
satisfies `a xor b`; a stored node that is true everywhere is the terminal) -/
example : ∃ a', aQuantify 2 [Key.name "a"] false 3 nvD = (.ok 1, a') ∧ AInv false a' := by
  obtain ⟨r, a', he, _, ⟨hm, hd⟩, hi', _⟩ :=
    C08_quantify_value nvD nvD_inv nvD_two 2 3 nvD_f3 (-4) nvD_h2 false ["a"] (decl_one nvD_decl.1)
  have hr : r = 1 := by
    refine (eq_one_iff_denN hi'.inv.wf hi'.order r hm).mpr fun σ => ?_
    refine (hd σ).mpr ?_
    -- the witness: `a := ¬ σ b`
    refine ⟨fun s => if s = "a" then !σ "b" else σ s, fun s hs => ?_, ?_⟩
    · have : s ≠ "a" := fun h => hs (by simp [h])
      simp [this]
    · have e := (C08_shannon nvD nvD_inv 2 3 nvD_f3 (-4) nvD_h2 (by decide))
      -- evaluate `a xor b` directly on the concrete table
      have hx : ∀ τ : AsgN, denN nvD.m.tbl (-4) τ = (τ "a" != τ "b") := by
        intro τ
        have h4 : nvD.m.tbl.succ[(4 : Nat)]? = some ⟨0, -3, 3⟩ := by decide +kernel
        have h3 : nvD.m.tbl.succ[(3 : Nat)]? = some ⟨1, -1, 1⟩ := by decide +kernel
        have n0 : nvD.m.tbl.nameOf 0 = "a" := by decide +kernel
        have n1 : nvD.m.tbl.nameOf 1 = "b" := by decide +kernel
        have W := nvD_inv.inv.wf.toWF
        have e4 := (C18_expand_spec nvD.m.tbl W (-4) ⟨0, -3, 3⟩ (by decide) h4).2.1 τ
        have e3 := (C18_expand_spec nvD.m.tbl W 3 ⟨1, -1, 1⟩ (by decide) h3).2.1 τ
        have e3n : denN nvD.m.tbl (-3) τ = !denN nvD.m.tbl 3 τ :=
          den_neg nvD.m.tbl W 3 _ (Or.inr (by decide +kernel))
        have t1 : denN nvD.m.tbl 1 τ = true := den_one _ _
        have t0 : denN nvD.m.tbl (-1) τ = false := den_neg_one _ _
        simp only at e4 e3
        rw [e4, e3n, e3, n0, n1, t1, t0]
        cases τ "a" <;> cases τ "b" <;> decide
      clear e
      rw [hx]
      cases σ "b" <;> simp
  subst hr
  exact ⟨a', he, hi'⟩

end DD
