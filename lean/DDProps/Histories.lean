/-
  DDProps.Histories — the "for EVERY history" capstone shared by C01, C02, C06, C14, C17.

  A history is a list of user operations `UOp` (declare / var / find_or_add / ite / apply /
  neg / cofactor / quantify / compose / rename / let / incref / decref / collect_garbage) with
  ARBITRARY arguments, run by `runOp` on the model from the empty manager `{}`; `OpsGuarded`
  only asks for the three caller obligations the code does not check (DESIGN 2.2).  Whatever
  the history — rejected calls, collections, re-used node numbers, warm computed table —
  `reachable_inv` gives `GoodState`, and the per-operation theorems of the property files
  apply.  `⟪ops⟫` is the state (manager + ledger of user-held references) after `ops`.
-/
import DDProofs.Reach
namespace DD

local notation "⟪" ops "⟫" => run ops St.init

/-! ### C02 — canonicity in every reachable state -/

/-- C02: after ANY history, two references are equal exactly when they denote the same function -/
theorem C02_canonical_every_history (ops : List UOp) (hg : OpsGuarded ops St.init) (u v : Int)
    (hu : ⟪ops⟫.m.tbl.Mem u) (hv : ⟪ops⟫.m.tbl.Mem v) :
    (∀ a, den ⟪ops⟫.m.tbl u a = den ⟪ops⟫.m.tbl v a) ↔ u = v :=
  canonical _ (reachable_inv ops hg).inv.wf u v hu hv

/-- C02 ("every route"): whatever operations produced them — connectives, raw `find_or_add`,
substitutions, before or after collections and rejected calls — two references that are nodes
after the history and denote the same function of the variable NAMES are the same reference -/
theorem C02_routes_agree (ops : List UOp) (hg : OpsGuarded ops St.init) (u v : Int)
    (hu : ⟪ops⟫.m.tbl.Mem u) (hv : ⟪ops⟫.m.tbl.Mem v)
    (hsame : ∀ σ, denN ⟪ops⟫.m.tbl u σ = denN ⟪ops⟫.m.tbl v σ) : u = v :=
  have hG := reachable_inv ops hg
  (C02_canonical_every_history ops hg u v hu hv).mp
    (den_of_denN_tbl hG.inv.wf.toWF hG.order u v hu hv hsame)

/-- C02 ("every route", across time): a reference `u` the user holds since the prefix `pre` and
does not release; ANY continuation `post` (collections, rejected calls, re-used numbers …) that
ends with a node `v` denoting what `u` denoted back then has `v = u` -/
theorem C02_routes_agree_held (pre post : List UOp) (hg : OpsGuarded (pre ++ post) St.init) (u v : Int)
    (hheld : ∀ p q, post = p ++ q → 0 < (run p ⟪pre⟫).ext u.natAbs)
    (hv : ⟪pre ++ post⟫.m.tbl.Mem v)
    (hsame : ∀ a, den ⟪pre ++ post⟫.m.tbl v a = den ⟪pre⟫.m.tbl u a) : v = u := by
  have hg' := (opsGuarded_append pre post St.init).mp hg
  have hpre := reachable_inv pre hg'.1
  obtain ⟨hm, hd⟩ := run_held post ⟪pre⟫ hpre hg'.2 u hheld
  rw [← run_append] at hm hd
  exact (C02_canonical_every_history (pre ++ post) hg v u hv hm).mp
    (fun a => (hsame a).trans (hd a).symm)

/-! ### C06 — exact counts in every reachable state -/

/-- C06: after ANY history the counters are exact w.r.t. the user's ledger (count = stored edges
+ references the user took and did not release, + 1 for the terminal), and a collection at that
point succeeds, leaves EXACTLY the nodes reachable from a held node (unchanged, same functions),
keeps the counts exact and empties the computed table -/
theorem C06_counts_exact_every_history (ops : List UOp) (hg : OpsGuarded ops St.init) :
    RefExact ⟪ops⟫.m ⟪ops⟫.ext ∧
    ∃ m', collectGarbage none ⟪ops⟫.m = (.ok (), m') ∧ GoodState m' ⟪ops⟫.ext ∧
      (∀ u n, m'.tbl.node? u = some n ↔
        (⟪ops⟫.m.tbl.node? u = some n ∧ GcReach ⟪ops⟫.m.tbl (GcHeld ⟪ops⟫.ext) u)) ∧
      (∀ (u : Int), m'.tbl.Mem u → ∀ a, den m'.tbl u a = den ⟪ops⟫.m.tbl u a) ∧
      (∀ (u c : Nat), m'.ref[u]? = some c → 0 < c) ∧
      (∀ key : List Int, m'.cache[key]? = none) := by
  have hG := reachable_inv ops hg
  obtain ⟨m', he, hp, hgood⟩ := collectGarbage_good _ _ hG
  refine ⟨hG.exact, m', he, hgood, hp.nodes hG.inv.toInvS, fun u hu a => hp.den_eq u hu a, ?_,
    collectGarbage_ok_cache none _ m' he⟩
  intro u c hc
  cases c with
  | zero => exact absurd hc (hp.noZero u)
  | succ c => omega

/-- C06: a reference the user holds is never freed and never changes meaning, whatever the next
call is (collection and the user's own `decref` included) -/
theorem C06_held_every_history (ops : List UOp) (hg : OpsGuarded ops St.init) (op : UOp)
    (hop : OpGuard ⟪ops⟫.m ⟪ops⟫.ext op) (u : Int) (hu : 0 < ⟪ops⟫.ext u.natAbs) :
    ⟪ops⟫.m.tbl.Mem u ∧ (step op ⟪ops⟫).m.tbl.Mem u ∧
      ∀ a, den (step op ⟪ops⟫).m.tbl u a = den ⟪ops⟫.m.tbl u a :=
  step_held _ _ op (reachable_inv ops hg) hop u hu

/-! ### C17 — a rejected call leaves everything intact, and what follows behaves normally -/

/-- C17: after ANY history, a call that raises (any operation, any argument) leaves a good state:
the ledger is untouched, every node is still there unchanged, every reference — in particular
every reference the user holds — is valid with the same function, the order and the switches are
unchanged; hence EVERY theorem applies to the next call, whatever it is, and a collection right
after the failure behaves normally -/
theorem C17_error_then_normal (ops : List UOp) (hg : OpsGuarded ops St.init) (op : UOp)
    (hop : OpGuard ⟪ops⟫.m ⟪ops⟫.ext op) (e : Err) (hrej : (runOp op ⟪ops⟫.m).1 = .error e) :
    GoodState (step op ⟪ops⟫).m (step op ⟪ops⟫).ext ∧
    (step op ⟪ops⟫).ext = ⟪ops⟫.ext ∧
    Kept ⟪ops⟫.m (step op ⟪ops⟫).m ∧
    (∀ u : Int, ⟪ops⟫.m.tbl.Mem u →
      (step op ⟪ops⟫).m.tbl.Mem u ∧ ∀ a, den (step op ⟪ops⟫).m.tbl u a = den ⟪ops⟫.m.tbl u a) ∧
    (∀ u : Int, 0 < ⟪ops⟫.ext u.natAbs →
      (step op ⟪ops⟫).m.tbl.Mem u ∧ ∀ a, den (step op ⟪ops⟫).m.tbl u a = den ⟪ops⟫.m.tbl u a) ∧
    (∀ op2 : UOp, OpGuard (step op ⟪ops⟫).m (step op ⟪ops⟫).ext op2 →
      GoodState (step op2 (step op ⟪ops⟫)).m (step op2 (step op ⟪ops⟫)).ext) ∧
    (∃ m', collectGarbage none (step op ⟪ops⟫).m = (.ok (), m') ∧ GoodState m' ⟪ops⟫.ext) := by
  have hG := reachable_inv ops hg
  have hS : GoodState (step op ⟪ops⟫).m (step op ⟪ops⟫).ext := step_inv _ _ op hG hop
  obtain ⟨hk, hl⟩ := rejected_kept _ _ op hG hop e hrej
  refine ⟨hS, hl, hk, fun u hu => hk.den hG.inv u hu, fun u hu => ?_, fun op2 h2 => step_inv _ _ op2 hS h2, ?_⟩
  · exact hk.den hG.inv u (hG.exact.mem_of_ext_pos hu)
  · obtain ⟨m', he, -, hgood⟩ := collectGarbage_good _ _ hS
    have hl' : (step op ⟪ops⟫).ext = ⟪ops⟫.ext := hl
    rw [hl'] at hgood
    exact ⟨m', he, hgood⟩

/-- C17: in a history, the state after every call — accepted or rejected — is good -/
theorem C17_every_prefix_good (pre post : List UOp) (hg : OpsGuarded (pre ++ post) St.init) :
    GoodState ⟪pre⟫.m ⟪pre⟫.ext :=
  reachable_inv pre ((opsGuarded_append pre post St.init).mp hg).1

/-! ### C01 — the connectives after every history -/

/-- C01: after ANY history, `apply` of every spelling of a binary propositional connective returns
a node denoting that connective of the operands, in a good state with the same ledger -/
theorem C01_apply_every_history (ops : List UOp) (hg : OpsGuarded ops St.init)
    (op : String) (c : Conn) (hc : docConn op = some c) (h2 : c.arity = 2)
    (hq1 : c ≠ .forall_) (hq2 : c ≠ .exists_) (hall : Gen.allOps.contains op = true)
    (u v : Int) (hu : ⟪ops⟫.m.tbl.Mem u) (hv : ⟪ops⟫.m.tbl.Mem v) :
    ∃ r m', runOp (.apply op u (some v) none) ⟪ops⟫.m = (.ok (.ref r), m') ∧
      GoodState m' ⟪ops⟫.ext ∧ m'.tbl.Mem r ∧
      ∀ a, den m'.tbl r a = c.eval (den ⟪ops⟫.m.tbl u a) (den ⟪ops⟫.m.tbl v a) false := by
  have hG := reachable_inv ops hg
  obtain ⟨r, m', he, -, -, hm, -, hd⟩ :=
    apply_binary_spec ⟪ops⟫.m hG.inv hG.off op c hc h2 hq1 hq2 hall u v hu hv
  have hS := step_inv _ _ (.apply op u (some v) none) hG trivial
  refine ⟨r, m', ?_, ?_, hm, hd⟩
  · simp only [runOp, mapRes, he]
  · have : (runOp (.apply op u (some v) none) ⟪ops⟫.m).2 = m' := by simp only [runOp, mapRes, he]
    rw [this] at hS
    exact hS

/-- C01: negation (`apply('not', u)`, every spelling) after ANY history -/
theorem C01_neg_every_history (ops : List UOp) (hg : OpsGuarded ops St.init)
    (op : String) (hc : docConn op = some .not) (hall : Gen.allOps.contains op = true)
    (u : Int) (hu : ⟪ops⟫.m.tbl.Mem u) :
    runOp (.apply op u none none) ⟪ops⟫.m = (.ok (.ref (-u)), ⟪ops⟫.m) ∧ ⟪ops⟫.m.tbl.Mem (-u) ∧
      ∀ a, den ⟪ops⟫.m.tbl (-u) a = !den ⟪ops⟫.m.tbl u a := by
  have hG := reachable_inv ops hg
  obtain ⟨he, hm, hd⟩ := apply_not_spec ⟪ops⟫.m hG.inv op hc hall u hu
  exact ⟨by simp only [runOp, mapRes, he], hm, hd⟩

/-- C01: `ite` after ANY history (warm computed table, re-used numbers, …) -/
theorem C01_ite_every_history (ops : List UOp) (hg : OpsGuarded ops St.init)
    (g u v : Int) (hgm : ⟪ops⟫.m.tbl.Mem g) (hu : ⟪ops⟫.m.tbl.Mem u) (hv : ⟪ops⟫.m.tbl.Mem v) :
    ∃ r m', runOp (.ite g u v) ⟪ops⟫.m = (.ok (.ref r), m') ∧
      GoodState m' ⟪ops⟫.ext ∧ m'.tbl.Mem r ∧
      ∀ a, den m'.tbl r a = if den ⟪ops⟫.m.tbl g a then den ⟪ops⟫.m.tbl u a else den ⟪ops⟫.m.tbl v a := by
  have hG := reachable_inv ops hg
  obtain ⟨r, m', he, hp⟩ := ite_spec_off ⟪ops⟫.m hG.inv hG.off g u v hgm hu hv
  have hS := step_inv _ _ (.ite g u v) hG trivial
  refine ⟨r, m', ?_, ?_, hp.mem, hp.den⟩
  · simp only [runOp, mapRes, he]
  · have : (runOp (.ite g u v) ⟪ops⟫.m).2 = m' := by simp only [runOp, mapRes, he]
    rw [this] at hS
    exact hS

/-- C01: `var(name)` of a declared variable denotes that variable, after ANY history -/
theorem C01_var_every_history (ops : List UOp) (hg : OpsGuarded ops St.init)
    (name : String) (j : Nat) (hj : ⟪ops⟫.m.tbl.vars[name]? = some j) :
    ∃ r m', runOp (.var name) ⟪ops⟫.m = (.ok (.ref r), m') ∧
      GoodState m' ⟪ops⟫.ext ∧ m'.tbl.Mem r ∧ ∀ a, den m'.tbl r a = a j := by
  have hG := reachable_inv ops hg
  obtain ⟨r, m', he, -, hm, hd⟩ := var_spec ⟪ops⟫.m hG.inv hG.off name j hj (hG.order.lt name j hj)
  have hS := step_inv _ _ (.var name) hG trivial
  refine ⟨r, m', ?_, ?_, hm, hd⟩
  · simp only [runOp, mapRes, he]
  · have : (runOp (.var name) ⟪ops⟫.m).2 = m' := by simp only [runOp, mapRes, he]
    rw [this] at hS
    exact hS

/-! ### C14 — the variable order in every reachable state -/

/-- C14: after ANY history `vars` / `_level_to_var` are inverse bijections onto `0 .. n-1`;
declaring a new name appends it at the bottom level and moves nothing else -/
theorem C14_order_every_history (ops : List UOp) (hg : OpsGuarded ops St.init) :
    OrderOK ⟪ops⟫.m.tbl ∧
    ∀ name : String, ⟪ops⟫.m.tbl.vars[name]? = none →
      ∃ m', runOp (.declare name none) ⟪ops⟫.m = (.ok (.lvl ⟪ops⟫.m.nvars), m') ∧
        GoodState m' ⟪ops⟫.ext ∧ m'.tbl.vars[name]? = some ⟪ops⟫.m.nvars ∧
        (∀ (v : String) (i : Nat), ⟪ops⟫.m.tbl.vars[v]? = some i → m'.tbl.vars[v]? = some i) ∧
        (∀ u, ⟪ops⟫.m.tbl.Mem u → m'.tbl.Mem u ∧ ∀ a, den m'.tbl u a = den ⟪ops⟫.m.tbl u a) := by
  have hG := reachable_inv ops hg
  refine ⟨hG.order, fun name hnew => ?_⟩
  have he := addVar_new ⟪ops⟫.m name hnew hG.order.l2v_none
  obtain ⟨-, -, -, hv, hold, hden, -, -⟩ := addVar_new_spec ⟪ops⟫.m hG.inv hG.order name hnew _ rfl
  have hS := step_inv _ _ (.declare name none) hG trivial
  refine ⟨addVarState ⟪ops⟫.m name, ?_, ?_, hv, hold, hden⟩
  · simp only [runOp, mapRes, he]
  · have : (runOp (.declare name none) ⟪ops⟫.m).2 = addVarState ⟪ops⟫.m name := by
      simp only [runOp, mapRes, he]
    rw [this] at hS
    exact hS

/-! ### non-vacuity: a concrete history -/

/-- thirteen calls: explicit level, three REJECTED calls (unknown operator, unknown node, level
conflict), a collection that frees node 2, the re-creation of `a` at the re-used number 2, a
second route to `a ∧ b` (raw `find_or_add`), and the release of the held reference -/
def exHistory : List UOp :=
  [ .declare "a" none,                  -- level 0
    .declare "b" (some 1),              -- level 1 (explicit, no gap)
    .var "a",                           -- node 2
    .var "b",                           -- node 3
    .apply "and" 2 (some 3) none,       -- node 4 = a ∧ b
    .incref 4,                          -- the user holds node 4
    .apply "nand" 2 (some 3) none,      -- REJECTED: unknown operator
    .ite 7 1 (-1),                      -- REJECTED: unknown node
    .declare "a" (some 5),              -- REJECTED: `a` already has level 0
    .collectGarbage,                    -- frees node 2 (nobody holds `a`); keeps 3 and 4
    .var "a",                           -- RE-CREATED at the re-used number 2
    .findOrAdd 0 (-1) 3,                -- another route to a ∧ b: the SAME reference 4
    .decref 4 ]                         -- released

def resCode : Except Err Res → Int
  | .ok (.ref u) => u
  | .ok (.lvl n) => 1000 + n
  | .ok .unit => 0
  | .error _ => -1000

/-- the history respects the caller obligations (so every theorem above applies to it) … -/
theorem exHistory_guarded : OpsGuarded exHistory St.init := by decide

/-- … and does what the comments say: answers of the thirteen calls (`-1000` = rejected) -/
example : (results exHistory St.init).map resCode =
    [1000, 1001, 2, 3, 4, 0, -1000, -1000, -1000, 0, 2, 4, 0] := by decide

/-- the state before the release: nodes 2 (`a`, re-created), 3, 4; the user holds node 4 once -/
example : ⟪exHistory.take 12⟫.m.tbl.succ.keys = [2, 3, 4] ∧ ⟪exHistory.take 12⟫.ext 4 = 1 ∧
    ⟪exHistory.take 12⟫.m.ref.toList = [(1, 6), (2, 0), (3, 1), (4, 1)] := by decide

/-- the collection inside the history really freed node 2 -/
example : ⟪exHistory.take 10⟫.m.tbl.succ.keys = [3, 4] := by decide

example : GoodState ⟪exHistory⟫.m ⟪exHistory⟫.ext := reachable_inv exHistory exHistory_guarded

/-- C02 on the example: the two routes to `a ∧ b` gave the same reference, and it is the only
node denoting that function -/
example (v : Int) (hv : ⟪exHistory⟫.m.tbl.Mem v) :
    (∀ a, den ⟪exHistory⟫.m.tbl 4 a = den ⟪exHistory⟫.m.tbl v a) ↔ 4 = v :=
  C02_canonical_every_history exHistory exHistory_guarded 4 v (by decide) hv

/-- C02 across time on the example: node 4 is held from call 6 up to call 12; whatever node denotes
its function after the rejected calls, the collection and the re-creations is node 4 -/
example (v : Int) (hv : ⟪exHistory.take 6 ++ (exHistory.drop 6).take 6⟫.m.tbl.Mem v)
    (hsame : ∀ a, den ⟪exHistory.take 6 ++ (exHistory.drop 6).take 6⟫.m.tbl v a =
      den ⟪exHistory.take 6⟫.m.tbl 4 a) : v = 4 := by
  refine C02_routes_agree_held (exHistory.take 6) ((exHistory.drop 6).take 6) (by decide) 4 v ?_ hv hsame
  intro p q hpq
  have hlen : p.length ≤ 6 := by
    have := congrArg List.length hpq
    simp [exHistory] at this
    omega
  have hp : p = ((exHistory.drop 6).take 6).take p.length := by
    rw [hpq]; simp
  rw [hp]
  match p.length, hlen with
  | 0, _ => decide
  | 1, _ => decide
  | 2, _ => decide
  | 3, _ => decide
  | 4, _ => decide
  | 5, _ => decide
  | 6, _ => decide

/-- C06 on the example: counts exact at the end, and a final collection leaves exactly the nodes
reachable from held ones (none is held any more: everything is freed) -/
example : RefExact ⟪exHistory⟫.m ⟪exHistory⟫.ext :=
  (C06_counts_exact_every_history exHistory exHistory_guarded).1

example : ⟪exHistory.take 12 ++ [.collectGarbage]⟫.m.tbl.succ.keys = [3, 4] := by decide
example : ⟪exHistory ++ [.collectGarbage]⟫.m.tbl.succ.keys = [] := by decide +kernel

/-- C17 on the example: the seventh call (`apply "nand"`) is rejected in the state reached by the
first six; the theorem's hypotheses hold there -/
theorem exHistory_rejected :
    (runOp (.apply "nand" 2 (some 3) none) ⟪exHistory.take 6⟫.m).1 = .error .value := by
  have : (match (runOp (.apply "nand" 2 (some 3) none) ⟪exHistory.take 6⟫.m).1 with
      | .error .value => true | _ => false) = true := by decide
  revert this
  cases (runOp (.apply "nand" 2 (some 3) none) ⟪exHistory.take 6⟫.m).1 with
  | ok r => intro h; cases h
  | error e => cases e <;> intro h <;> first | rfl | cases h

example : OpsGuarded (exHistory.take 6) St.init ∧ 0 < ⟪exHistory.take 6⟫.ext 4 := by decide

example : GoodState (step (.apply "nand" 2 (some 3) none) ⟪exHistory.take 6⟫).m
    (step (.apply "nand" 2 (some 3) none) ⟪exHistory.take 6⟫).ext :=
  (C17_error_then_normal (exHistory.take 6) (by decide) (.apply "nand" 2 (some 3) none) trivial
    .value exHistory_rejected).1

/-- C01 on the example: the operands are nodes after the whole history; `/\` is a spelling of `and` -/
example : ∃ r m', runOp (.apply "/\\" 2 (some 3) none) ⟪exHistory⟫.m = (.ok (.ref r), m') ∧
    GoodState m' ⟪exHistory⟫.ext ∧ m'.tbl.Mem r ∧
    ∀ a, den m'.tbl r a = (den ⟪exHistory⟫.m.tbl 2 a && den ⟪exHistory⟫.m.tbl 3 a) :=
  C01_apply_every_history exHistory exHistory_guarded "/\\" .and (by decide) (by decide)
    (by decide) (by decide) (by decide) 2 3 (by decide) (by decide)

/-- C14 on the example: `c` is not declared after the history -/
example : ⟪exHistory⟫.m.tbl.vars["c"]? = none ∧ ⟪exHistory⟫.m.nvars = 2 := by decide

/-- a longer history with NINE more rejected calls (undeclared name, undeclared rename target,
unknown node, `incref`/`decref` of a non-node, negative and too large level, wrong arity,
conflicting level).  The calls of `quantify`/`compose`/`let` that reach the per-call memo are
not in this list only because the memo is a `Std.HashMap` (indices are `USize`, opaque to the
kernel), so `decide` cannot run them; the theorems cover them all the same. -/
def exHistory2 : List UOp := exHistory.take 12 ++
  [ .cofactor 4 [(.name "zz", true)],         -- REJECTED: undeclared name
    .rename 4 [("a", "c")],                   -- REJECTED: undeclared target
    .rename 99 [("a", "b")],                  -- REJECTED: unknown node
    .neg 4,                                   -- ¬(a ∧ b) = -4
    .apply "and" 4 none none,                 -- REJECTED: wrong arity
    .incref 99,                               -- REJECTED: not a node
    .decref 99,                               -- REJECTED: not a node
    .findOrAdd (-3) 1 1,                      -- REJECTED: negative level
    .findOrAdd 7 1 (-1),                      -- REJECTED: level out of range
    .declare "b" (some 0),                    -- REJECTED: `b` has level 1
    .apply "xor" 2 (some 3) none,             -- a ⊕ b = -5 : new node 5 = (a, ¬b, b), complemented
    .collectGarbage ]                         -- frees 5 and 2 again: only 4 (held) and its child 3 remain

set_option maxRecDepth 10000 in
theorem exHistory2_guarded : OpsGuarded exHistory2 St.init := by decide

/-- (checked by the kernel directly: the elaborator's own evaluator does not share the state
between the steps of the final cascade) -/
theorem exHistory2_results : (results exHistory2 St.init).map resCode =
    [1000, 1001, 2, 3, 4, 0, -1000, -1000, -1000, 0, 2, 4,
     -1000, -1000, -1000, -4, -1000, -1000, -1000, -1000, -1000, -1000, -5, 0] ∧
    ⟪exHistory2⟫.m.tbl.succ.keys = [3, 4] ∧ ⟪exHistory2⟫.ext 4 = 1 := by decide +kernel

example : GoodState ⟪exHistory2⟫.m ⟪exHistory2⟫.ext := reachable_inv exHistory2 exHistory2_guarded

end DD
