/-
  DDProps.C08XCopy — C08 / C11: `dd._copy.copy_bdd(u, target)` and `dd._copy.copy_bdds_from(roots,
  target)` between two `dd.autoref` managers, as the code runs them.

  Model (`DD/ApiXCopy.lean`, `DD.xcF` / `DD.aXCopyRun` / `DD.aXCopyFromRun`): `_copy_bdd` goes through
  the PUBLIC `Function` interface, so every intermediate result is a `Function` with a reference of
  its own — `low`, `high`, `g = target.var(...)`, the memo's values `r = target.ite(g, high, low)`,
  the partial results, in the TARGET; `~u`, `u.low`, `u.high` in the SOURCE.  They are what protects
  the intermediate nodes when `target.var` / `target.ite` triggers a reordering in the middle of the
  recursion (sifting collects garbage); the memo hands out the SAME `Function` object for the same
  unsigned node (an aliased result, no second reference); the source's counters move during the
  call.  When the call is over (returned, or raised and the exception dropped) every `Function`
  created during it dies.

    `C08_xcopy_total`      : target in ANY mode, ANY arguments, EVERY outcome — the target keeps the
                             invariant with the count equation, exactly the result is new, every
                             live `Function` keeps its meaning; the SOURCE is back exactly (same
                             table, `Function`s, counts)
    `C08_xcopy_from_total` : the same for `copy_bdds_from` (duplicate / complemented / constant
                             roots, aliased results)
    `C08_xcopy_value`      : when every variable of the root's support is declared in the target
                             (`CopyPre`), reordering enabled or not: the call RETURNS, the new
                             `Function` sits on the result, the result denotes BY NAME the function
                             of the root — lifted from `C09_var_transparent` / `C09_ite_transparent`
                             by the induction of the JSON loader (a memo of LIVE `Function`s).
-/
import DDProps.C08Values2
import DDProofs.XCopyValue
open Std

namespace DD

variable {offS off : Bool}

/-- C08 / C11 `dd._copy.copy_bdd(u, target)` over `dd.autoref`: the target in ANY mode (`off = false`:
dynamic reordering possibly enabled — it may fire inside any `target.var` / `target.ite` of the
recursion — any number of variables), ANY arguments (`hu` need not be a `Function` of the source,
the target need not declare the variables), WHETHER THE CALL RETURNS OR RAISES:
* target: `AInv off` (count equation included), no `Function` other than the result `h` was created
  or lost, every `Function` that was alive keeps its meaning by name;
* source: `AInv offS`, the same `Function`s, the same table, the same reference counts;
* when the call returns `r`, the new `Function` `h` sits on `r`. -/
theorem C08_xcopy_total (src dst : AMgr) (hs : AInv offS src) (hd : AInv off dst) (hu h : Nat)
    (hf : dst.handles.contains h = false) :
    XDone offS off src dst [h] (aXCopyRun src dst hu h).2 ∧
    ∀ r, (aXCopyRun src dst hu h).1 = .ok r → (aXCopyRun src dst hu h).2.dst.handles[h]? = some r :=
  aXCopyRun_total src dst hs hd hu h hf

/-- what `XDone` says -/
theorem C08_xcopy_done_unfold (src dst : AMgr) (ids : List Nat) (st : XSt) :
    XDone offS off src dst ids st ↔
    (AInv off st.dst ∧ (∀ j : Nat, j ∉ ids → st.dst.handles[j]? = dst.handles[j]?) ∧
     (∀ (j : Nat) (w : Int), dst.handles[j]? = some w →
        st.dst.m.tbl.Mem w ∧ ∀ σ, denN st.dst.m.tbl w σ = denN dst.m.tbl w σ) ∧
     AInv offS st.src ∧ (∀ j : Nat, st.src.handles[j]? = src.handles[j]?) ∧
     st.src.m.tbl = src.m.tbl ∧ ∀ k : Nat, st.src.m.ref[k]? = src.m.ref[k]?) :=
  ⟨fun h => ⟨h.dinv, h.dsame, h.dden, h.sinv, h.ssame, h.stbl, h.sref⟩,
   fun ⟨a, b, c, d, e, f, g⟩ => ⟨a, b, c, d, e, f, g⟩⟩

/-- C08 / C11 `dd._copy.copy_bdds_from(roots, target)`: one memo for all roots, the partial results
stay alive; roots may repeat (the memo returns the same `Function` object: the result is an alias,
`DD.aliasOf`, and gets no reference of its own), be complemented (`~r`: a new object) or constant.
Any mode, any arguments, every outcome; `ids` = the ids for the results (not in use, pairwise
different). -/
theorem C08_xcopy_from_total (src dst : AMgr) (hs : AInv offS src) (hd : AInv off dst)
    (hus ids : List Nat) (hf : ∀ h ∈ ids, dst.handles.contains h = false) (hnd : ids.Nodup) :
    XDone offS off src dst ids (aXCopyFromRun src dst hus ids).2 :=
  aXCopyFromRun_total src dst hs hd hus ids hf hnd

/-- C08 / C11 / C09 the VALUE of `dd._copy.copy_bdd(u, target)` over `dd.autoref`, the target in
EITHER mode (`Two`: in the mode `off = false` at least two variables — then dynamic reordering may be
enabled and fire inside any `target.var` / `target.ite` of the recursion): `u` a live `Function` of
the source, every variable of its support declared in the target (`CopyPre`, the hypothesis of
C11).  The call RETURNS `r`; the new `Function` `h` sits on `r`; `r` denotes in the target — by
variable NAME — the function of `u` in the source.  (Everything of `C08_xcopy_total` holds as
well.) -/
theorem C08_xcopy_value (src dst : AMgr) (hs : AInv offS src) (hd : AInv off dst) (h2 : Two off dst)
    (hu h : Nat) (hf : dst.handles.contains h = false) (u : Int) (hl : src.handles[hu]? = some u)
    (hpre : CopyPre src.m.tbl u dst.m.tbl) :
    ∃ r, (aXCopyRun src dst hu h).1 = .ok r ∧
      (aXCopyRun src dst hu h).2.dst.handles[h]? = some r ∧
      (∀ σ, denN (aXCopyRun src dst hu h).2.dst.m.tbl r σ = denN src.m.tbl u σ) ∧
      XDone offS off src dst [h] (aXCopyRun src dst hu h).2 := by
  obtain ⟨r, h1, h2', h3⟩ := aXCopyRun_value src dst hs hd h2 hu h hf u hl
    (xdecl_of_copyPre hs.inv.wf.toWF hs.order u hpre)
  exact ⟨r, h1, h2', h3, (aXCopyRun_total src dst hs hd hu h hf).1⟩

/-! ### non-vacuity: from the three-variable state `nvA4` (`fx = a xor b` on the complemented node
−4) into a target with the order `c, b, a` and dynamic reordering ENABLED -/

def nvT1 : AMgr := (aDeclare ["c", "b", "a"] {}).2
def nvT2 : AMgr := (aConfigure (some true) nvT1).2

theorem nvT2_inv : AInv false nvT2 := by
  have i1 : AInv false nvT1 :=
    ((C08_ops_dyn_total 99).2.2.2.2.2.2.2.2.2.2.2.2.2.2.2.2.2.2.2.2.1 ["c", "b", "a"] {}
      AInv.empty.toDyn (by decide) _ _ rfl).1
  exact ((C08_ops_dyn_total 99).2.2.2.2.2.2.2.2.2.2.2.2.2.2.2.2.2.2.2.1 (some true) nvT1 i1
    (by decide +kernel) _ _ rfl).1

theorem nvT2_facts : Two false nvT2 ∧ nvT2.m.lastLen.isSome = true ∧
    nvT2.handles.contains 0 = false ∧ nvT2.m.tbl.vars.toList = [("a", 2), ("b", 1), ("c", 0)] :=
  ⟨fun _ => by decide +kernel, by decide +kernel, by decide +kernel, by decide +kernel⟩

theorem nvA4_copyPre (u : Int) : CopyPre nvA4.m.tbl u nvT2.m.tbl := by
  intro i v hi hv
  have hlt := hi.lt_nvars nvA4_inv.inv.wf.toWF
  have hn : nvA4.m.tbl.nvars = 3 := by decide +kernel
  rw [hn] at hlt
  have h0 : nvA4.m.tbl.l2v[0]? = some "a" := by decide +kernel
  have h1 : nvA4.m.tbl.l2v[1]? = some "b" := by decide +kernel
  have h2 : nvA4.m.tbl.l2v[2]? = some "c" := by decide +kernel
  match i, hlt with
  | 0, _ => rw [h0] at hv; cases hv; decide +kernel
  | 1, _ => rw [h1] at hv; cases hv; decide +kernel
  | 2, _ => rw [h2] at hv; cases hv; decide +kernel

/-- the hypotheses of `C08_xcopy_value` are met with reordering enabled in the target -/
example := C08_xcopy_value nvA4 nvT2 nvA4_inv nvT2_inv nvT2_facts.1 2 0 nvT2_facts.2.2.1 (-4)
  nvA4_h2 (nvA4_copyPre (-4))
example := C08_xcopy_total nvA4 nvT2 nvA4_inv nvT2_inv 7 0 nvT2_facts.2.2.1
example := C08_xcopy_from_total nvA4 nvT2 nvA4_inv nvT2_inv [2, 2, 0, 2] [0, 1, 2, 3]
  (by intro h hh; simp only [List.mem_cons, List.not_mem_nil, or_false] at hh
      rcases hh with rfl | rfl | rfl | rfl <;> decide +kernel) (by decide)

end DD
