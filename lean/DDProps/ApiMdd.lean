/-
  DDProps.ApiMdd — slice "api", the MDD part: `dd.mdd.MDD.to_expr`.
-/
import DDProofs.ApiMddProofs
open Std

namespace DD

/-! ## C15 — `MDD.to_expr` -/

/-- C15 (`MDD.to_expr(u)`): for a well-formed MDD table whose levels all have a variable and any
reference `u` of it, the call returns normally and the conditional chain it prints, evaluated
under ANY assignment of integers to the variable names, has the value of `u` under the
corresponding assignment of the levels. -/
theorem C15_mdd_to_expr (t : MTbl) (hw : MWF t) (hN : t.Named) (u : Int) (hm : t.Mem u) :
    ∃ e, mToExpr t u = .ok e ∧ ∀ σ, e.eval σ = denM t u (t.liftN σ) :=
  mToExpr_spec t hw hN u hm

/-! ## non-vacuity -/

/-- an MDD table: one variable `x` with three values, node 2 = (x: 1, -1, 1) -/
def apiExMdd : MTbl :=
  { succ := ({} : TreeMap Nat MNd).insert 2 ⟨0, [1, -1, 1]⟩,
    vars := [{ name := "x", level := 0, len := 3 }] }

theorem apiExMdd_node {u : Nat} {n : MNd} (h : apiExMdd.node? u = some n) :
    u = 2 ∧ n = ⟨0, [1, -1, 1]⟩ := by
  simp only [apiExMdd, MTbl.node?, TreeMap.getElem?_insert] at h
  split at h
  · next hc =>
    have : 2 = u := by simpa using hc
    cases h
    exact ⟨this.symm, rfl⟩
  · simp at h

theorem apiExMdd_wf : MWF apiExMdd := by
  refine ⟨rfl, ?_, ?_, ?_, ?_, ?_, ?_, ?_⟩
  all_goals intro u n h; obtain ⟨rfl, rfl⟩ := apiExMdd_node h
  · decide
  · decide
  · intro k hk
    simp only [List.mem_cons, List.not_mem_nil, or_false] at hk
    rcases hk with rfl | rfl | rfl <;> exact Or.inl rfl
  · intro k hk
    simp only [List.mem_cons, List.not_mem_nil, or_false] at hk
    rcases hk with rfl | rfl | rfl <;> decide
  · omega
  · exact ⟨1, [-1, 1], rfl, by omega⟩
  · exact ⟨1, by simp, -1, by simp, by omega⟩

theorem apiExMdd_named : apiExMdd.Named := by
  intro i hi
  have : i = 0 := by
    have : apiExMdd.nvars = 1 := rfl
    omega
  subst this
  decide

example := C15_mdd_to_expr apiExMdd apiExMdd_wf apiExMdd_named (-2) (Or.inr (by decide))
example : (mToExpr apiExMdd (-2)).toOption.map MExpr.show = some "![x:1?0;[x:0.2?1;#]]" := by decide


end DD
